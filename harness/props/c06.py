"""C06 — inertia, bias force and inverse dynamics are mutually consistent."""
import math
import framework as F

META = {
    "id": "C06", "category": "proof", "design_ref": "DESIGN.md section 4, C06",
    "technique": "Coq proofs (structure: induction over the ancestor walk; products: invariants over the row loops, over R) of Gallina models (Model/SparseM.v, Model/Sparse.v) + exact (structure) and float (values) correspondence with mj_makeDofDofSparse, mj_factorI, mj_solveLD, mj_mulM, mj_fullM of the working tree on raw random forests and on compiled random kinematic trees + independent oracle on implementation outputs",
    "text": "filled in below",
    "note": "filled in below",
    "assumptions": [
        "theorems about values are about exact real arithmetic; IEEE rounding is outside every theorem (tolerance 2^-30 scaled in the tie, 1e-9 scaled in the oracle)",
        "hand-written models Model/SparseM.v (structure as lists of rows, values as rows of values = slices of the C arrays at rowadr) and Model/Sparse.v; tie is differential testing on the cases of this run",
        "models are generated through the mjSpec C API (harness/drivers/mjgen.h plus extra bodies/tendons added by the driver): no XML, no geom-wrapping tendons, no sleeping",
    ],
}
META["text"] = (
    "Proved in Coq, for all inputs (Props/C06.v): "
    "(1) C06_structure: for EVERY forest dof_parentid (each parent index is -1 or smaller than the child), every dof_simplenum and both values of `reduced`, the lower-triangular structure produced by the model of mj_makeDofDofSparse "
    "has, for each dof i, the row = ancestor chain of i (each element the parent of the next, the first a root) in strictly increasing order followed by i itself (diagonal last; the diagonal only for reduced simple dofs), "
    "rownnz = row lengths, rowadr = prefix sums, diag = position of the diagonal, every row of an ancestor j of i is a prefix of the row of i (the property mj_factorI relies on), and the CSR slices are these rows; "
    "(2) C06_fullM_mulM: for every matrix with this structure (any values, any forest, all sizes) mj_fullM(M) v = mj_mulM(M, v) over R, and mj_fullM is symmetric; "
    "(3) C06_solve_factor (FULL, not partial): for every forest, every dof_simplenum under which a dof with a non-reduced row has no ancestor with a reduced row (the compiler marks only childless world-children as simple), "
    "every matrix with the structure (any values) and every x: if the pivots stored by mj_factorI are non-zero then w = mj_solveLD(mj_factorI(M), x) satisfies mj_fullM(M) w = x and mj_mulM(M, w) = x (over R, all sizes, index = NULL, one right-hand side); "
    "C06_factorI: on any diagonal-last triangular structure with the prefix property the in-place reverse-order elimination stores L, D, 1/D with L'DL = M (proof: invariant M = sum_{i>=k} l_i D_i l_i' + remaining Schur block, the prefix update is exactly the Schur update "
    "because two off-diagonal columns s < r of a row always have s in the row of r); C06_solveLD: the three passes (zero-skip and diagonal-row shortcuts included) solve (L'DL) w = x. "
    "Positive definiteness of M (hence positive pivots) is NOT proved, it is an oracle check. "
    "NOT proved, oracle only (on implementation outputs of compiled random trees with free/ball/slide/hinge joints, branching, several trees, joint armature, fixed tendons with and without tendon armature): "
    "M symmetric positive definite and equal to sum_b J_b' I_b J_b + armature (+ tendon armature; joint and tendon armature include armature*gear^2 of the actuators attached to them, recorded at model-building time independently of jnt_actuatorid/tendon_actuatorid), L'DL reconstructs M, mj_solveM(mj_mulM v) = v, mj_fullM v = mj_mulM v, qfrc_bias = mj_rne(0), "
    "qfrc_bias = an independent world-frame Newton-Euler force at zero acceleration (sum_b Jp' m (Jdot_p v - g) + Jr' (I Jdot_r v + w x I w), Jdot v by central differences of mj_jac along qvel, plus armature_t J_t' (Jdot_t v) per tendon with Jdot_t v by central differences of ten_J, 2e-6; bodies with 2-3 joints in mixed hinge/slide order and spatial tendons with pulleys (divisor != 1) and armature are in the fixed corpus), "
    "mj_inverse: qfrc_inverse + qfrc_passive + qfrc_constraint = (mj_mulM a) + that independent bias, "
    "mj_rne(a) - mj_rne(0) + armature.a (+ tendon armature term) = M a (mj_rne itself carries no armature term: the identity of the property statement holds with the armature added, as mj_inverse does). "
    "mj_crb, mj_rne, mj_tendonArmature, the upper = true variants of the structure builder (tied exactly, no theorem), sleep filtering is not modelled. mj_solveLD / mj_solveM with n > 1 right-hand sides are tied to the model vector by vector (a batch is n independent solves, to which C06_solve_factor applies) and checked by the oracle (M z_k = y_k for every k), "
    "mj_factorI / mj_solveLD with a dof index (unions of whole trees) are checked against the full call (listed dofs identical, other entries untouched), mj_solveM2 (|x|^2 = y'M^-1 y) and mj_mulM2 (|M^(1/2)v|^2 = v'Mv) by the oracle. "
    "Tie: mj_makeDofDofSparse (exported) is called on raw random forests for all four reduced x upper variants and compared exactly with the model; m->M_rownnz/M_rowadr/M_colind of compiled trees are compared exactly with the model applied to "
    "m->dof_parentid/dof_simplenum; mj_factorI, mj_solveLD, mju_mulSymVecSparse, mju_sym2dense are compared at binary64 (2^-30) with the models on raw forests with random L'DL values and on the M of compiled trees.")
META["note"] = ("Trusted: Coq kernel + standard-library real-number axioms listed in trusted_base; hand-written models; correspondence harness (gcc, driver c06_inertia.c, mjgen.h); "
                "the Python oracle (ancestor chains and dense algebra written independently).")

TOL = "0x1p-30"
OT = 1e-9


def hx(x):
    return float(x).hex()


def unhx(t):
    t = t.strip()
    if t in ("nan", "-nan", "+nan"):
        return math.nan
    if t in ("inf", "+inf"):
        return math.inf
    if t == "-inf":
        return -math.inf
    return float.fromhex(t)


def close(x, y, tol=OT, scale=None):
    if x is None or y is None or len(x) != len(y):
        return False
    sc = scale if scale is not None else 1.0 + max([abs(c) for c in x] + [abs(c) for c in y] + [0.0])
    return all((a == a and b == b and abs(a - b) <= tol * sc) for a, b in zip(x, y))


def matvec(M, v):
    return [sum(a * b for a, b in zip(r, v)) for r in M]


def rowsof(fl, nr, nc):
    return [list(fl[r * nc:(r + 1) * nc]) for r in range(nr)]


def flat(M):
    return [x for r in M for x in r]


def anc(par, i):
    out, j = [], par[i]
    while j >= 0:
        out.append(j)
        j = par[j]
    return out


def rows_def(nv, par, simple, reduced, upper):
    """structure by definition (independent of the model)."""
    rows = []
    for i in range(nv):
        low = [i] if (reduced and simple[i]) else sorted(anc(par, i)) + [i]
        up = [k for k in range(i + 1, nv) if not (reduced and simple[k]) and i in anc(par, k)] if upper else []
        rows.append(low + up)
    return rows


def parse(line, schema):
    if line.startswith("ERR") or not line.strip():
        return None
    groups = [g.split() for g in line.split("|")[:-1]]
    return [[int(x) for x in g] if schema[min(k, len(schema) - 1)] == "i" else [unhx(x) for x in g] for k, g in enumerate(groups)]


def cq(op, ints, flts, outi, outf):
    return "C %d %s %s %s %s" % (op, "[" + "; ".join(F.zlist(x) for x in ints) + "]", "[" + "; ".join(F.flist(x) for x in flts) + "]",
                                 "[" + "; ".join(F.zlist(x) for x in outi) + "]", "[" + "; ".join(F.flist(x) for x in outf) + "]")


def rand_forest(rng, nv, kind=None):
    kind = kind or rng.choice(["random", "chain", "star", "multi", "binary"])
    par = []
    for i in range(nv):
        if i == 0:
            par.append(-1)
        elif kind == "chain":
            par.append(i - 1)
        elif kind == "star":
            par.append(0)
        elif kind == "binary":
            par.append((i - 1) // 2)
        elif kind == "multi":
            par.append(-1 if rng.random() < 0.3 else rng.randrange(0, i))
        else:
            par.append(rng.randrange(-1, i))
    return par


def ldl_values(rng, nv, par, simple):
    """random unit-lower L on the tree pattern, D > 0; returns (rows_struct, L rows, D, dense M = L' D L)."""
    struct = rows_def(nv, par, simple, True, False)
    L = [[0.0] * nv for _ in range(nv)]
    D = [rng.uniform(0.3, 3.0) for _ in range(nv)]
    for i in range(nv):
        L[i][i] = 1.0
        for c in struct[i][:-1]:
            L[i][c] = rng.uniform(-0.8, 0.8)
    M = [[sum(L[k][i] * D[k] * L[k][j] for k in range(nv)) for j in range(nv)] for i in range(nv)]
    return struct, L, D, M


def run(ctx):
    rng = ctx.rng
    ctx.coq_props(allowed_axioms=F.STD_AXIOMS, extra_targets=["Lib/NumF.vo", "Model/Sparse.vo", "Model/SparseM.vo"])
    exe = ctx.driver("c06_inertia", ["c06_inertia.c"])
    if exe is None:
        return
    T = 1 if ctx.tier == "quick" else 6
    reqs = []     # (kind, info dict, line)
    # A. raw structure, all four variants
    sizes = [0, 1, 2, 3, 4, 5, 6, 8, 11, 16, 25]
    for nv in sizes:
        for _ in range(2 * T):
            par = rand_forest(rng, nv)
            simple = [rng.choice([0, 0, 0, 1, 2]) for _ in range(nv)]
            for reduced in (0, 1):
                for upper in (0, 1):
                    reqs.append(("sparse", {"nv": nv, "par": par, "simple": simple, "reduced": reduced, "upper": upper},
                                 "sparse %d %d %d %s %s" % (nv, reduced, upper, " ".join(map(str, par)), " ".join(map(str, simple)))))
    # B. raw factor/solve: forest + extra simple chains hanging from nothing (roots), descendants of simple dofs are simple
    for nv0 in [1, 2, 3, 4, 5, 7, 9, 12, 16]:
        for _ in range(2 * T):
            par = rand_forest(rng, nv0)
            simple = [0] * nv0
            for _k in range(rng.randrange(0, 3)):          # simple bodies: chains of 1..3 dofs rooted at -1
                n = rng.randrange(1, 4)
                base = len(par)
                for t in range(n):
                    par.append(-1 if t == 0 else base + t - 1)
                    simple.append(n - t)
            nv = len(par)
            struct, L, D, M = ldl_values(rng, nv, par, simple)
            vals = [M[i][c] for i in range(nv) for c in struct[i]]
            x = [rng.uniform(-2, 2) for _ in range(nv)]
            nvec = rng.choice([2, 3, 6])
            X = [rng.choice([0.0, rng.uniform(-2, 2), rng.uniform(-2, 2)]) for _ in range(nvec * nv)]
            # dof skipping: a union of whole trees (roots chosen at random), ascending dof order
            root = []
            for i in range(nv):
                root.append(i if par[i] < 0 else root[par[i]])
            keep = set(r0 for r0 in set(root) if rng.random() < 0.6)
            idx = [i for i in range(nv) if root[i] in keep]
            reqs.append(("factor", {"nv": nv, "par": par, "simple": simple, "vals": vals, "x": x, "L": L, "D": D, "M": M, "struct": struct, "nvec": nvec, "X": X, "idx": idx},
                         "factor %d %s %s %d %s %s %d %s %d %s" % (nv, " ".join(map(str, par)), " ".join(map(str, simple)), len(vals),
                                                                   " ".join(hx(v) for v in vals), " ".join(hx(v) for v in x), nvec, " ".join(hx(v) for v in X),
                                                                   len(idx), " ".join(map(str, idx)))))
    # C. compiled random trees
    FEAT = {"FREE": 1, "BALL": 2, "SLIDE": 4, "TENDON": 32, "LIMIT": 1 << 10, "SPRING": 1 << 12, "MULTITREE": 1 << 15}
    # fixed corpus (both tiers): bodies with 2-3 joints in mixed hinge/slide order, with and without slide joints in the base tree
    for seed, feat, nbody in ((11, FEAT["SPRING"], 1), (12, FEAT["SPRING"] | FEAT["SLIDE"], 2), (13, FEAT["SPRING"] | FEAT["SLIDE"] | FEAT["MULTITREE"], 3),
                              (14, FEAT["SPRING"] | FEAT["BALL"] | FEAT["SLIDE"], 4), (15, FEAT["SPRING"] | FEAT["FREE"] | FEAT["SLIDE"], 3), (16, FEAT["SPRING"], 5)):
        reqs.append(("model", {"seed": seed, "feat": feat, "nbody": nbody, "flags": 4}, "model %d %d %d %d" % (seed, feat, nbody, 4)))
    # fixed corpus: spatial tendons with pulleys (divisor != 1) and armature, on chains and branching trees
    for seed, feat, nbody in ((21, FEAT["SPRING"], 3), (22, FEAT["SPRING"], 4), (23, FEAT["SPRING"] | FEAT["SLIDE"], 3), (24, FEAT["SPRING"] | FEAT["BALL"], 4),
                              (25, FEAT["SPRING"] | FEAT["MULTITREE"], 5), (26, FEAT["SPRING"] | FEAT["FREE"], 3), (27, FEAT["SPRING"], 2), (28, FEAT["SPRING"], 6)):
        reqs.append(("model", {"seed": seed, "feat": feat, "nbody": nbody, "flags": 8}, "model %d %d %d %d" % (seed, feat, nbody, 8)))
        reqs.append(("model", {"seed": seed, "feat": feat, "nbody": nbody, "flags": 12}, "model %d %d %d %d" % (seed, feat, nbody, 12)))
    # fixed corpus: actuators with armature (gear != 1, several per target) on scalar joints, fixed tendons and spatial tendons
    for seed, feat, nbody, fl in ((31, FEAT["SPRING"], 2, 16), (32, FEAT["SPRING"] | FEAT["TENDON"], 3, 16), (33, FEAT["SPRING"] | FEAT["TENDON"], 4, 17),
                                  (34, FEAT["SPRING"], 4, 24), (35, FEAT["SPRING"] | FEAT["SLIDE"], 3, 28), (36, FEAT["SPRING"] | FEAT["MULTITREE"], 5, 30)):
        reqs.append(("model", {"seed": seed, "feat": feat, "nbody": nbody, "flags": fl}, "model %d %d %d %d" % (seed, feat, nbody, fl)))
    for k in range(14 * T):
        feat = FEAT["SPRING"]
        for name in ("FREE", "BALL", "SLIDE", "MULTITREE", "TENDON"):
            if rng.random() < 0.6:
                feat |= FEAT[name]
        nbody = rng.choice([1, 2, 3, 4, 5, 6, 8, 10])
        flags = (1 if (feat & FEAT["TENDON"]) and rng.random() < 0.5 else 0) | (2 if rng.random() < 0.5 else 0) | (4 if rng.random() < 0.6 else 0) | (8 if rng.random() < 0.5 else 0) | (16 if rng.random() < 0.5 else 0)
        seed = rng.randrange(1, 10 ** 6)
        reqs.append(("model", {"seed": seed, "feat": feat, "nbody": nbody, "flags": flags}, "model %d %d %d %d" % (seed, feat, nbody, flags)))
    reqs.append(("tendemo", {"armature": 0.5, "coef": [1.0, 1.0]}, "tendemo %s %s %s" % (hx(0.5), hx(1.0), hx(1.0))))
    reqs.append(("tendemo", {"armature": 0.0, "coef": [1.0, 1.0]}, "tendemo %s %s %s" % (hx(0.0), hx(1.0), hx(1.0))))
    if getattr(ctx, "replay", None) and isinstance(ctx.replay.get("case"), dict) and ctx.replay["case"].get("line"):
        reqs = [r for r in reqs if r[2] == ctx.replay["case"]["line"]] or [("replay", {}, ctx.replay["case"]["line"])]
    rc, out, err = ctx.run(exe, "".join(r[2] + "\n" for r in reqs))
    lines = out.split("\n")
    if rc != 0 or len(lines) < len(reqs):
        ctx.broken.append(("correspondence", "driver c06_inertia failed", "rc=%s lines=%d/%d %s" % (rc, len(lines), len(reqs), err[-600:])))
        return
    coq_cases, coq_src = [], []
    stats = {"sparse": 0, "factor": 0, "model": 0, "model_nv_max": 0, "models_with_tendon_armature": 0, "models_with_simple_dofs": 0}
    nviol = [0]

    def viol(info, line, law, exp, obs, site):
        nviol[0] += 1
        if nviol[0] <= 30:
            c = {k: v for k, v in info.items() if k not in ("L", "D", "M", "struct", "vals", "x")}
            c["line"] = line[:3000]
            ctx.violation("impl_violation", c, expected={"law": law, "value": exp}, observed=obs, theorem="oracle: " + law, signature={"site": site})

    for (kind, info, line), ol in zip(reqs, lines):
        if kind == "sparse":
            o = parse(ol, "iiii")
            if o is None:
                viol(info, line, "mj_makeDofDofSparse accepts a forest", "arrays", ol[:200], "makeDofDofSparse")
                continue
            nv = info["nv"]
            if nv == 0:
                continue
            want = rows_def(nv, info["par"], info["simple"], info["reduced"], info["upper"])
            got_rows = [o[3][o[1][i]:o[1][i] + o[0][i]] for i in range(nv)]
            wadr = [sum(len(r) for r in want[:i]) for i in range(nv)]
            wdiag = [want[i].index(i) for i in range(nv)]
            if got_rows != want or o[1] != wadr or o[0] != [len(r) for r in want] or o[2] != wdiag:
                viol(info, line, "rows of the dof-dof structure are the sorted ancestor chains (+ descendants when upper), diagonal located, rowadr/rownnz consistent",
                     {"rows": want, "rowadr": wadr, "diag": wdiag}, {"rownnz": o[0], "rowadr": o[1], "diag": o[2], "colind": o[3]}, "makeDofDofSparse")
            coq_cases.append(cq(0, [[nv, info["reduced"], info["upper"]], info["par"], info["simple"]], [], [o[0], o[1], o[2], o[3]], []))
            coq_src.append((kind, info, line))
            stats["sparse"] += 1
        elif kind == "factor":
            o = parse(ol, "iiiddddddddd")
            if o is None:
                viol(info, line, "factor request runs", "values", ol[:200], "factorI")
                continue
            nv, M, L, D, x = info["nv"], info["M"], info["L"], info["D"], info["x"]
            struct = info["struct"]
            if [o[2][o[1][i]:o[1][i] + o[0][i]] for i in range(nv)] != struct:
                viol(info, line, "M structure = sorted ancestor chains", struct, o[:3], "makeDofDofSparse")
                continue
            if not close(o[3], matvec(M, x)):
                viol(info, line, "mju_mulSymVecSparse (mj_mulM) = M x", matvec(M, x), o[3], "mulM")
            if not close(o[4], flat(M)):
                viol(info, line, "mju_sym2dense (mj_fullM) = M", flat(M), o[4], "fullM")
            wantLD = [D[i] if c == i else L[i][c] for i in range(nv) for c in struct[i]]
            if not close(o[5], wantLD, 1e-8) or not close(o[6], [1 / d for d in D], 1e-8):
                viol(info, line, "mj_factorI returns the unique unit-lower L and D with L'DL = M", wantLD, o[5], "factorI")
            if not close(matvec(M, o[7]), x, 1e-8):
                viol(info, line, "mj_solveLD solves M y = x", x, matvec(M, o[7]), "solveLD")
            # batch of right-hand sides: every vector is solved as if it were alone
            nvec, X, idx = info["nvec"], info["X"], info["idx"]
            for k in range(nvec):
                yk, xk = o[8][k * nv:(k + 1) * nv], X[k * nv:(k + 1) * nv]
                if len(yk) != nv or not close(matvec(M, yk), xk, 1e-8):
                    viol(info, line, "mj_solveLD with n = %d right-hand sides: M y_k = x_k for vector k = %d" % (nvec, k), xk, matvec(M, yk) if len(yk) == nv else yk, "solveLD_batch")
                    break
            # dof skipping (index = whole trees): listed dofs are factored / solved exactly as in the full call, the others are untouched
            st_adr = [sum(len(r) for r in struct[:i]) for i in range(nv)]
            inidx = set(idx)
            wantLD3 = [(o[5][st_adr[i] + k] if i in inidx else info["vals"][st_adr[i] + k]) for i in range(nv) for k in range(len(struct[i]))]
            wantd3 = [(o[6][i] if i in inidx else -7.0) for i in range(nv)]
            wantx3 = [(o[7][i] if i in inidx else x[i]) for i in range(nv)]
            if not close(o[9], wantLD3, 1e-12) or not close(o[10], wantd3, 1e-12):
                viol(info, line, "mj_factorI with a dof index (whole trees): listed rows as in the full factorisation, other rows untouched", wantLD3, o[9], "factorI_index")
            if not close(o[11], wantx3, 1e-12):
                viol(info, line, "mj_solveLD with a dof index (whole trees): listed dofs as in the full solve, other entries untouched", wantx3, o[11], "solveLD_index")
            coq_cases.append(cq(1, [[nv], info["par"], info["simple"]], [info["vals"], x, x], [], [o[3], o[4], o[5], o[6], o[7]]))
            coq_src.append((kind, info, line))
            for k in range(nvec):
                coq_cases.append(cq(2, [[nv], info["par"], info["simple"]], [info["vals"], X[k * nv:(k + 1) * nv]], [], [o[8][k * nv:(k + 1) * nv]]))
                coq_src.append((kind, info, line))
            stats["factor"] += 1
        elif kind == "tendemo":
            o = parse(ol, "diiid")
            if o is None:
                viol(info, line, "tendon witness model compiles", "values", ol[:200], "model")
                continue
            a, (c0, c1) = info["armature"], info["coef"]
            base = o[0][0] - a * c0 * c0          # body inertia about the hinge (same for both bodies)
            want = [base + a * c0 * c0, a * c0 * c1, a * c0 * c1, base + a * c1 * c1]
            if not close(o[0], want, OT):
                ctx.violation("impl_violation", dict(info, line=line), theorem="oracle: M = sum_b J_b' I_b J_b + armature + sum_t armature_t J_t' J_t",
                              expected={"law": "two world-attached hinges coupled by a fixed tendon with armature a: M01 = a*c0*c1", "M": want}, observed=o[0],
                              signature={"site": "mj_tendonArmature", "class": "cross-branch-terms-dropped"})
        else:
            o = parse(ol, "iiiiii" + "d" * 19 + "i")
            if o is None:
                if "compile" in ol:
                    continue          # generator produced a model the compiler rejects: not a case
                viol(info, line, "pipeline runs without mju_error", "values", ol[:300], "model")
                continue
            nv = o[0][0]
            if nv == 0:
                continue
            par, simple, rnnz, radr, cind = o[1], o[2], o[3], o[4], o[5]
            Mv, qLD, dinv, full, v, Mvv, u, Yb, Zb, Z2b, m2v, bias, rne0, rnea, arm, Mref, Tm, biasref, invsum = o[6:25]
            stats["model"] += 1
            stats["model_nv_max"] = max(stats["model_nv_max"], nv)
            stats["models_with_simple_dofs"] += 1 if any(simple) else 0
            stats["models_with_tendon_armature"] += 1 if any(t != 0 for t in Tm) else 0
            want = rows_def(nv, par, simple, True, False)
            got_rows = [cind[radr[i]:radr[i] + rnnz[i]] for i in range(nv)]
            if got_rows != want or radr != [sum(len(r) for r in want[:i]) for i in range(nv)] or any(not (-1 <= par[i] < i) for i in range(nv)):
                viol(info, line, "M_rownnz/M_rowadr/M_colind = sorted ancestor chains of dof_parentid (diagonal only for simple dofs)", want, got_rows, "makeDofDofSparse")
                continue
            F_ = rowsof(full, nv, nv)
            sc = 1 + max(abs(t) for t in full)
            if any(abs(F_[i][j] - F_[j][i]) > 1e-12 * sc for i in range(nv) for j in range(nv)):
                viol(info, line, "M symmetric", None, None, "crb")
            # tendon armature: the part of armature*J'J on (dof, ancestor) pairs and the cross-branch part
            ancset = [set(anc(par, i)) | {i} for i in range(nv)]
            Tin = [Tm[i * nv + j] if (j in ancset[i] or i in ancset[j]) else 0.0 for i in range(nv) for j in range(nv)]
            Tcross = [a - b for a, b in zip(Tm, Tin)]
            Mtot = [a + b for a, b in zip(Mref, Tm)]
            Mtrunc = [a + b for a, b in zip(Mref, Tin)]
            dropped = False
            if not close(full, Mtot, OT):
                if any(abs(t) > 1e-12 for t in Tcross) and close(full, Mtrunc, OT):
                    dropped = True
                    nviol[0] += 1
                    ctx.violation("impl_violation", dict(info, line=line), theorem="oracle: M = sum_b J_b' I_b J_b + armature + sum_t armature_t J_t' J_t",
                                  expected={"law": "M includes the full tendon-armature term armature*J'J", "cross_terms_expected": [t for t in Tcross if t][:8]},
                                  observed="the entries of armature*J'J between dofs that are not ancestors of each other are missing from M (all others agree)",
                                  signature={"site": "mj_tendonArmature", "class": "cross-branch-terms-dropped"})
                else:
                    viol(info, line, "M = sum_b J_b' I_b J_b + armature (+ tendon armature)", Mtot, full, "crb")
            Tm = Tin          # what the implementation carries: used for the internal consistency of rne below
            # L'DL reconstructs M
            Lm = [[0.0] * nv for _ in range(nv)]
            Dm = [0.0] * nv
            for i in range(nv):
                for k, c in enumerate(want[i]):
                    if c == i:
                        Dm[i] = qLD[radr[i] + k]
                        Lm[i][i] = 1.0
                    else:
                        Lm[i][c] = qLD[radr[i] + k]
            rec = [sum(Lm[k][i] * Dm[k] * Lm[k][j] for k in range(nv)) for i in range(nv) for j in range(nv)]
            if not close(rec, full, OT) or any(d == 0 for d in Dm) or not close(dinv, [1 / d if d else 0.0 for d in Dm], 1e-12):
                viol(info, line, "L'DL reconstructs M, qLDiagInv = 1/D", full, rec, "factorM")
            elif any(d <= 0 for d in Dm):
                if dropped:
                    # consequence of the known finding: with the cross terms of armature*J'J dropped, the stored M can be INDEFINITE
                    ctx.violation("impl_violation", dict(info, line=line), theorem="oracle: M positive definite",
                                  expected={"law": "all pivots of L'DL positive (M positive definite)"}, observed={"pivots": [d for d in Dm if d <= 0]},
                                  signature={"site": "mj_tendonArmature", "class": "cross-branch-terms-dropped"},
                                  note="M = body part + truncated tendon-armature part; the truncation destroys positive semidefiniteness of armature*J'J")
                else:
                    viol(info, line, "M positive definite (positive pivots)", "> 0", [d for d in Dm if d <= 0], "factorM")
            if not close(Mvv, matvec(F_, v), OT):
                viol(info, line, "mj_fullM v = mj_mulM v", matvec(F_, v), Mvv, "mulM")
            if not close(u, v, 1e-8):
                viol(info, line, "mj_solveM(mj_mulM v) = v", v, u, "solveM")
            # batch of 3 right-hand sides at once; the half solve mj_solveM2 and mj_mulM2 (M^(1/2))
            for k in range(3):
                yk, zk, z2k = Yb[k * nv:(k + 1) * nv], Zb[k * nv:(k + 1) * nv], Z2b[k * nv:(k + 1) * nv]
                if not close(matvec(F_, zk), yk, 1e-8, 1 + max(abs(t) for t in yk)):
                    viol(info, line, "mj_solveM with 3 right-hand sides: M z_k = y_k for vector k = %d" % k, yk, matvec(F_, zk), "solveM_batch")
                    break
                q1, q2 = sum(a * a for a in z2k), sum(a * b for a, b in zip(yk, zk))
                if abs(q1 - q2) > 1e-8 * (1 + abs(q2)):
                    viol(info, line, "mj_solveM2: |x_k|^2 = y_k' M^-1 y_k for vector k = %d" % k, q2, q1, "solveM2")
                    break
            qa, qb = sum(a * a for a in m2v), sum(a * b for a, b in zip(v, Mvv))
            if abs(qa - qb) > 1e-9 * (1 + abs(qb)):
                viol(info, line, "mj_mulM2: |M^(1/2) v|^2 = v' M v", qb, qa, "mulM2")
            has_ten_arm = any(t != 0 for t in Tm)
            if not has_ten_arm and not close(bias, rne0, 1e-12):      # with tendon armature qfrc_bias also carries a J' (Jdot v)
                viol(info, line, "qfrc_bias = mj_rne(0)", rne0, bias, "rne")
            # independent Newton-Euler at zero acceleration (world frame, Jdot v by central differences of mj_jac;
            # nothing of cdof / cdof_dot / cvel is used): the clause "the bias force equals recursive Newton-Euler"
            stats["bias_ref_max_err"] = max(stats.get("bias_ref_max_err", 0.0), max(abs(a - b) for a, b in zip(bias, biasref)) / (1 + max(abs(t) for t in bias)))
            if not close(bias, biasref, 2e-6):
                viol(info, line, "qfrc_bias = independent Newton-Euler force at zero acceleration (sum_b Jp' m (Jdot_p v - g) + Jr' (I Jdot_r v + w x I w))",
                     biasref, bias, "comVel_rne")
            # inverse dynamics for a = v: what the implementation calls M a (its own mj_mulM) + the INDEPENDENT bias
            want_inv = [Mvv[i] + biasref[i] for i in range(nv)]
            if not close(invsum, want_inv, 2e-6, 1 + max(abs(t) for t in invsum + want_inv)):
                viol(info, line, "mj_inverse: qfrc_inverse + qfrc_passive + qfrc_constraint = M a + independent Newton-Euler bias", want_inv, invsum, "inverse")
            Tv = matvec(rowsof(Tm, nv, nv), v)
            lhs = [rnea[i] - rne0[i] + arm[i] * v[i] + Tv[i] for i in range(nv)]
            if not close(lhs, Mvv, OT, 1 + max(abs(t) for t in rnea + rne0 + Mvv)):
                viol(info, line, "mj_rne(a) - mj_rne(0) + armature*a = M a", Mvv, lhs, "rne")
            coq_cases.append(cq(0, [[nv, 1, 0], par, simple], [], [rnnz, radr, [], cind], []))
            coq_src.append((kind, info, line))
            coq_cases.append(cq(1, [[nv], par, simple], [Mv, v, Mvv], [], [Mvv, full, qLD, dinv, u]))
            coq_src.append((kind, info, line))
            for k in range(3):
                coq_cases.append(cq(2, [[nv], par, simple], [Mv, Yb[k * nv:(k + 1) * nv]], [], [Zb[k * nv:(k + 1) * nv]]))
                coq_src.append((kind, info, line))
    pre = r"""
Definition zn (l : list Z) : list nat := map Z.to_nat l.
Definition gi (l : list (list Z)) (i j : nat) : Z := nth j (nth i l []) 0%Z.
Definition gn (l : list (list Z)) (i j : nat) : nat := Z.to_nat (gi l i j).
Definition li (l : list (list Z)) (i : nat) : list Z := nth i l [].
Definition lf (l : list (list float)) (i : nat) : list float := nth i l [].
Definition tol : float := """ + TOL + r"""%float.
Fixpoint zeq (a b : list Z) : bool := match a, b with [], [] => true | x :: r, y :: s => (x =? y)%Z && zeq r s | _, _ => false end.
Definition nzq (a : list nat) (b : list Z) : bool := zeq (map Z.of_nat a) b.
Fixpoint unconcat (lens : list nat) (l : list float) : list (list float) :=
  match lens with [] => [] | n :: r => firstn n l :: unconcat r (skipn n l) end.
Definition C (op : Z) (ia : list (list Z)) (fa : list (list float)) (oi : list (list Z)) (ofl : list (list float)) := (op, (ia, fa), (oi, ofl)).
Definition chk (c : Z * (list (list Z) * list (list float)) * (list (list Z) * list (list float))) : bool :=
  match c with (op, (ia, fa), (oi, ofl)) =>
  if (op =? 0)%Z then
    let '(rnnz, radr, dg, cind) := makeDofDofSparse (gn ia 0 0) (li ia 1) (li ia 2) (gi ia 0 1 =? 1)%Z (gi ia 0 2 =? 1)%Z in
    nzq rnnz (li oi 0) && nzq radr (li oi 1) && (match li oi 2 with [] => true | d => nzq dg d end) && nzq cind (li oi 3)
  else if (op =? 1)%Z then
    let nv := gn ia 0 0 in
    let cols := dofdof_rows nv (li ia 1) (li ia 2) true false in
    let rows := unconcat (map (@length nat) cols) (lf fa 0) in
    let '(ld, dinv) := factorI nv cols rows in
    let Sm := csr_of cols rows in
    fclose_list tol (mulSymVecSparse nv Sm (lf fa 1)) (lf ofl 0) &&
    fclose_list 0%float (concat (sym2dense nv Sm)) (lf ofl 1) &&
    fclose_list tol (concat ld) (lf ofl 2) && fclose_list tol dinv (lf ofl 3) &&
    fclose_list tol (solveLD nv cols ld dinv (lf fa 2)) (lf ofl 4)
  else if (op =? 2)%Z then
    (* one vector of a batch solved by mj_solveLD / mj_solveM with n > 1: the model solves every vector on its own *)
    let nv := gn ia 0 0 in
    let cols := dofdof_rows nv (li ia 1) (li ia 2) true false in
    let rows := unconcat (map (@length nat) cols) (lf fa 0) in
    let '(ld, dinv) := factorI nv cols rows in
    fclose_list tol (solveLD nv cols ld dinv (lf fa 1)) (lf ofl 0)
  else false end.
"""
    imports = ("From Coq Require Import ZArith List Bool PrimFloat.\nFrom MJV Require Import Lib.Num Lib.NumF Model.Sparse Model.SparseM.\n"
               "Import ListNotations.\nOpen Scope Z_scope.")
    bad = ctx.coq_eval("c06", imports, coq_cases, "chk", shard=120, pre=pre)
    seen = set()
    for i in bad:
        kind, info, line = coq_src[i]
        if kind in seen:
            continue
        seen.add(kind)
        c = {k: v for k, v in info.items() if k not in ("L", "D", "M", "struct", "vals", "x")}
        c["line"] = line[:3000]
        ctx.violation("correspondence", c, expected="model output (Model/SparseM.v, Model/Sparse.v)", observed=coq_cases[i][-500:], found_input=False,
                      theorem="correspondence c06_inertia (%s)" % kind, signature={"site": kind},
                      note="implementation and Coq model disagree on this input, but the implementation output still satisfies the oracle")
    ctx.cov["evaluations"] = len(reqs)
    ctx.cov["distinct_nontrivial"] = len(set(r[2] for r in reqs if r[0] != "sparse" or r[1]["nv"] > 1))
    ctx.cov["rule"] = ("distinct driver requests with nv > 1: raw forests (random, chain, star, binary, multi-root) of 0..25 dofs x 4 variants of (reduced, upper) with random dof_simplenum; "
                       "raw forests with extra simple chains and random L'DL values; compiled mjgen trees (free/ball/slide/hinge, branching, multiple trees, joint armature, fixed tendons with/without armature) in a random state")
    ctx.cov["per_kind"] = stats
    ctx.cov["coq_cases"] = len(coq_cases)
    ctx.cov["correspondence_disagreements"] = len(bad)
    ctx.cov["samples"] = [{"line": r[2][:300]} for r in (reqs[40], reqs[-1], [q for q in reqs if q[0] == "factor"][0])] if len(reqs) > 41 else []
    ctx.cov["explanation"] = ("structure theorem and fullM/mulM theorem proved for all inputs; models tied on %d requests (%d evaluated inside Coq); oracle on every output" % (len(reqs), len(coq_cases)))
