"""C40 — extension registries stay consistent under concurrent use."""
import hashlib, os, re
from concurrent.futures import ThreadPoolExecutor
import framework as F

META = {
    "id": "C40", "category": "proof", "design_ref": "DESIGN.md section 4, C40",
    "technique": "Coq proof by inductive invariant over an interleaving (sequentially consistent) model of GlobalTable with field-by-field "
                 "object copy + functional specification of the registry API with laws proved for every history; trace validation of the "
                 "unmodified engine_global_table.h under a controlled-scheduler shim and exact differential runs of the real mjp_* registries",
    "text": "Proved in Coq (Props/C40.v) for the interleaving model of Model/GlobalTable.v, for ANY number of threads that register and look "
            "up concurrently, any interleaving at the granularity of one mutex / count_ operation or one plain read or write of one slot field "
            "(the copy of an object into its slot is two separate writes, so torn objects exist in the state space): (1) every slot a thread is "
            "about to dereference (reader after loading count_, or writer scanning under the lock) is below the published count and holds "
            "exactly the completely copied registered object; (2) no step ever changes a slot below the published count, the count never "
            "decreases, the sequence of registered objects only grows at its end (slots dense and stable); (3) registered keys are pairwise "
            "distinct case-insensitively at every moment; a registration returns r>=0 only if slot r holds an object equal to the argument, "
            "-1 only if a registered object has the same key (case-insensitively) but differs; a lookup returns (slot, object) only if that "
            "slot holds exactly that registered object; (4) mutual exclusion of the critical section including the re-entrant outer lock. "
            "For the sequential functional specification (append/get_at_slot/get_by_key) the laws are proved for every registration history "
            "with non-empty keys and either ObjectEqual flavour: distinct keys occupy distinct dense slots 0..count-1, identical re-registration "
            "returns the existing slot and changes nothing, conflicting re-registration returns -1 and changes nothing, earlier slots never "
            "move, GetByKey k = (s, o) iff GetAtSlot s = o and o's key equals k case-insensitively; the block boundary (15/16, 30/31 objects) "
            "is covered because the laws hold for every count. "
            "Ties: (a) the unmodified header, instantiated with a test object type whose CopyObject copies field by field, is run under the "
            "scheduler shim; every logged total order of events is replayed through the model's step function inside Coq; (b) the real "
            "plugin and resource-provider registries of engine_plugin.cc are driven through mjp_registerPlugin / mjp_getPlugin / "
            "mjp_getPluginAtSlot / mjp_pluginCount / mjp_registerResourceProvider / mjp_getResourceProvider(AtSlot) on sequential histories "
            "and compared exactly with the functional specification evaluated in Coq. An independent Python oracle checks the property text "
            "on the implementation logs (no dereference of an unpublished or later rewritten slot, one slot per key, return values, dense "
            "slots, lookups agree). NOT covered: weak-memory behaviour (the model and the shim are sequentially consistent; in particular the "
            "unsynchronised read of TableBlock::next by a failed GetByKeyUnsafe scan concurrent with a block allocation is a C++ data race "
            "that the SC model treats as a benign read); decoder/encoder tables are covered only through the shared template (their "
            "CopyObject/ObjectEqual specialisations are not run); allocation failure paths; objects registered with an empty key (the API "
            "wrappers reject them; the interleaving model is faithful to them, the sequential laws assume non-empty keys).",
    "note": "Trusted: Coq kernel; hand-written models in Model/GlobalTable.v; the shim scheduler and drivers c40_table.cc / c40_plugin.cc; "
            "g++. All theorems closed under the global context.",
    "assumptions": ["sequential consistency at the granularity of one mutex/atomic operation or one plain field access",
                    "registered keys are non-empty (enforced by mjp_register*; needed only by the sequential lookup laws)",
                    "ties are trace validation / differential runs on the cases of this run"],
}

KEYPOOL = ["a", "A", "b", "B", "ab", "Ab", "aB", "plug", "PLUG", "z9", "Z9", "c", "d", "e"]


def z(x):
    return "(%d)" % x if x < 0 else str(x)


def keylit(k):
    return "[" + "; ".join(str(ord(c)) for c in k) + "]"


def objlit(k, v):
    return "(mkObj %s %s)" % (keylit(k), z(v))


def gen_cases(ctx):
    rng = ctx.rng
    quick = ctx.tier == "quick"
    cases = []

    def mk(nthreads, prefill, maxops, lockp=0.1):
        pre = ["p%d" % i for i in range(prefill)]
        pool = rng.sample(KEYPOOL, rng.randrange(2, 7))
        keys = pre + pool
        scripts = []
        for t in range(nthreads):
            ops = []
            for _ in range(rng.randrange(1, maxops + 1)):
                r = rng.random()
                if r < 0.45:
                    ops.append(("A", rng.randrange(prefill, len(keys)) if rng.random() < 0.9 or not prefill else rng.randrange(prefill),
                                rng.choice((0, 0, 1, 7))))
                elif r < 0.65:
                    ops.append(("S", rng.randrange(-1, prefill + 5)))
                elif r < 0.9:
                    ops.append(("K", rng.randrange(-1, len(keys))))
                elif r < 0.9 + lockp / 2:
                    ops.append(("L",))
                else:
                    ops.append(("U",))
            scripts.append(ops)
        cases.append({"seed": rng.randrange(1, 2 ** 31), "mode": rng.randrange(4), "victim": rng.randrange(nthreads),
                      "keys": keys, "prefill": prefill, "scripts": scripts})

    for _ in range(120 if quick else 1600):
        mk(rng.choice((2, 2, 3, 3, 4)), 0, 4)
    for _ in range(40 if quick else 400):
        mk(rng.choice((1, 2, 3)), rng.choice((1, 2, 3)), 5)
    # across the first and second block boundary (15/16, 30/31 objects)
    for _ in range(40 if quick else 400):
        mk(rng.choice((2, 3)), rng.choice((13, 14, 15, 16) if quick else (13, 14, 15, 16, 28, 29, 30, 31)), 3)
    for _ in range(0 if quick else 150):
        mk(rng.choice((3, 4, 6)), 0, 8)
    cases.sort(key=lambda c: (c["prefill"], sum(len(s) for s in c["scripts"])))
    return cases


def case_input(c):
    out = ["%d %d %d %d %d %d" % (c["seed"], c["mode"], c["victim"], len(c["keys"]), len(c["scripts"]), c["prefill"]),
           " ".join(c["keys"])]
    for ops in c["scripts"]:
        out.append("%d %s" % (len(ops), " ".join(" ".join(str(x) for x in op) for op in ops)))
    return "\n".join(out) + "\n"


def parse(out):
    evs, status = [], None
    for ln in out.split("\n"):
        tk = ln.split()
        if not tk:
            continue
        if tk[0] == "END":
            status = (tk[1], int(tk[2]))
            break
        evs.append((int(tk[0]), tk[1], [int(x) for x in tk[2:5]]))
    return status, evs


def keyof(c, kid):
    return "" if kid == -1 else ("?" if kid < 0 or kid >= len(c["keys"]) else c["keys"][kid])


def coq_events(c, evs):
    lits = []
    for (t, k, a) in evs:
        if k in ("in", "sp", "jn", "ex"):
            continue
        if k == "ca":
            e = "ECallAppend %s" % objlit(keyof(c, a[0]), a[1])
        elif k == "ra":
            e = "ERetAppend %s" % z(a[0])
        elif k == "cs":
            e = "ECallSlot %s" % z(a[0])
        elif k == "ck":
            e = "ECallKey %s" % keylit(keyof(c, a[0]))
        elif k == "rn":
            e = "ERetNone"
        elif k == "rs":
            e = "ERetSome %s %s" % (z(a[0]), objlit(keyof(c, a[1]), a[2]))
        elif k == "lk":
            e = "ELock"
        elif k == "ul":
            e = "EUnlock"
        elif k == "ld":
            e = "ELoadCnt %s" % z(a[1])
        elif k == "st":
            e = "EStoreCnt %s" % z(a[1])
        elif k == "wk":
            e = "EWriteKey %s %s" % (z(a[0]), keylit(keyof(c, a[1])))
        elif k == "wv":
            e = "EWriteVal %s %s" % (z(a[0]), z(a[1]))
        elif k == "rk":
            e = "EReadKey %s %s" % (z(a[0]), keylit(keyof(c, a[1])))
        elif k == "rv":
            e = "EReadVal %s %s" % (z(a[0]), z(a[1]))
        else:
            return None
        lits.append("(%d, %s)" % (t, e))
    return lits


def oracle(c, status, evs):
    """independent check of the property statement on one implementation log."""
    bad = []
    if status is None or status[0] != "OK":
        bad.append(("deadlock" if status and status[0] in ("DEADLOCK", "LIVELOCK") else "abnormal-end", str(status)))
    published = 0                 # last value stored to count_
    slot = {}                     # slot -> [key, val] as written so far
    registry = {}                 # slot -> (key, val) at the time it was published
    pending = {}                  # thread -> current call ("A", key, val) | ("S", slot, published at call) | ("K", key, registry copy)
    lockholder = None
    for idx, (t, k, a) in enumerate(evs):
        if k == "lk":
            if lockholder is not None:
                bad.append(("mutex-not-exclusive", "thread %d locks while %d holds" % (t, lockholder)))
            lockholder = t
        elif k == "ul":
            lockholder = None
        elif k in ("wk", "wv"):
            i = a[0]
            if i < published:
                bad.append(("published-slot-rewritten", "slot %d written at event %d after count=%d" % (i, idx, published)))
            if lockholder != t:
                bad.append(("write-outside-lock", "event %d" % idx))
            s = slot.setdefault(i, ["", 0])
            if k == "wk":
                s[0] = keyof(c, a[1])
            else:
                s[1] = a[1]
        elif k == "st":
            v = a[1]
            if v != published + 1:
                bad.append(("count-not-dense", "count_ stored %d after %d" % (v, published)))
            for i in range(published, v):
                registry[i] = tuple(slot.get(i, ["", 0]))
                if any(j != i and registry[j][0].lower() == registry[i][0].lower() for j in registry):
                    bad.append(("key-in-two-slots", "key %r" % registry[i][0]))
            published = max(published, v)
        elif k == "ca":
            pending[t] = ("A", keyof(c, a[0]), a[1])
        elif k == "cs":
            pending[t] = ("S", a[0], published)
        elif k == "ck":
            pending[t] = ("K", keyof(c, a[0]), dict(registry))
        elif k in ("rk", "rv"):
            i = a[0]
            call = pending.get(t)
            if call and call[0] in ("S", "K"):
                if i >= published or i not in registry:
                    bad.append(("partial-object-exposed", "reader thread %d dereferences slot %d while count=%d (event %d)" % (t, i, published, idx)))
                else:
                    want = registry[i][0] if k == "rk" else registry[i][1]
                    got = keyof(c, a[1]) if k == "rk" else a[1]
                    if want != got:
                        bad.append(("partial-object-exposed", "reader read %r from slot %d, registered %r" % (got, i, want)))
        elif k == "ra":
            call = pending.pop(t, None)
            r = a[0]
            if call:
                _, key, val = call
                same = [j for j in registry if registry[j][0].lower() == key.lower()]
                if r >= 0:
                    if registry.get(r) != (key, val):
                        bad.append(("wrong-slot-returned", "register (%r,%d) returned %d holding %r" % (key, val, r, registry.get(r))))
                else:
                    if not any(registry[j] != (key, val) for j in same):
                        bad.append(("registration-failed-without-conflict", "register (%r,%d) returned -1" % (key, val)))
        elif k == "rs":
            call = pending.pop(t, None)
            i, key, val = a[0], keyof(c, a[1]), a[2]
            if registry.get(i) != (key, val):
                bad.append(("lookup-returned-unregistered", "slot %d as (%r,%d), registered %r" % (i, key, val, registry.get(i))))
            if call and call[0] == "S" and call[1] != i:
                bad.append(("lookup-wrong-slot", "GetAtSlot(%d) returned slot %d" % (call[1], i)))
            if call and call[0] == "K" and call[1].lower() != key.lower():
                bad.append(("lookup-wrong-key", "GetByKey(%r) returned %r" % (call[1], key)))
        elif k == "rn":
            call = pending.pop(t, None)
            if call and call[0] == "S" and 0 <= call[1] < call[2]:
                bad.append(("lookup-missed-registered", "GetAtSlot(%d) null with count %d at call" % (call[1], call[2])))
            if call and call[0] == "K" and call[1] and any(v[0].lower() == call[1].lower() for v in call[2].values()):
                bad.append(("lookup-missed-registered", "GetByKey(%r) null although registered before the call" % call[1]))
        elif k == "bad-slot-out":
            bad.append(("slot-out-parameter", "GetByKey wrote slot %d, object slot %d" % (a[0], a[1])))
    if status and status[0] == "OK" and status[1] != published:
        bad.append(("final-count", "count() = %d, last published %d" % (status[1], published)))
    return bad


# ------------------------------------------------------------------ sequential histories on the real registries
def gen_seq(ctx):
    rng = ctx.rng
    quick = ctx.tier == "quick"
    hs = []
    for table in ("P", "R"):
        for _ in range(25 if quick else 250):
            n = rng.choice((3, 8, 17, 20, 33) if quick else (3, 8, 14, 15, 16, 17, 20, 29, 31, 33, 47))
            base = ["k%d" % i for i in range(n)]
            ops = []
            for _ in range(rng.randrange(n, 2 * n + 6)):
                r = rng.random()
                if r < 0.55:
                    k = rng.choice(base)
                    if rng.random() < 0.3:
                        k = k.upper() if rng.random() < 0.5 else k.capitalize()
                    ops.append(("A", k, rng.choice((0, 0, 0, 1, 5))))
                elif r < 0.75:
                    ops.append(("S", rng.randrange(-2, n + 3)))
                elif r < 0.95:
                    k = rng.choice(base + ["nokey"])
                    ops.append(("K", rng.choice((k, k.upper(), k.capitalize()))))
                else:
                    ops.append(("C",))
            hs.append({"table": table, "ops": ops})
    hs.sort(key=lambda h: len(h["ops"]))
    return hs


def seq_input(h):
    out = ["%s %d" % (h["table"], len(h["ops"]))]
    for op in h["ops"]:
        out.append(" ".join(str(x) for x in op))
    return "\n".join(out) + "\n"


def seq_oracle(h, res):
    """registry laws on the real API results."""
    bad = []
    reg = []          # list of (key, val) in slot order
    for op, r in zip(h["ops"], res):
        if op[0] == "A":
            _, k, v = op
            same = [i for i, (kk, vv) in enumerate(reg) if kk.lower() == k.lower()]
            eq = (lambda a, b: a[0].lower() == b[0].lower() and a[1] == b[1]) if h["table"] == "R" else (lambda a, b: a == b)
            if same:
                exp = same[0] if eq(reg[same[0]], (k, v)) else -1
            else:
                exp = len(reg)
                reg.append((k, v))
            if r != ("slot", exp):
                bad.append(("register-result", "register (%r,%d) -> %r, expected slot %d" % (k, v, r, exp)))
        elif op[0] == "S":
            s = op[1]
            exp = ("some", s, reg[s][0], reg[s][1]) if 0 <= s < len(reg) else ("none",)
            if r != exp:
                bad.append(("slot-lookup", "GetAtSlot(%d) -> %r, expected %r" % (s, r, exp)))
        elif op[0] == "K":
            k = op[1]
            same = [i for i, (kk, vv) in enumerate(reg) if kk.lower() == k.lower()]
            exp = ("some", same[0], reg[same[0]][0], reg[same[0]][1]) if same else ("none",)
            if r != exp:
                bad.append(("key-lookup", "GetByKey(%r) -> %r, expected %r" % (k, r, exp)))
        else:
            if r != ("count", len(reg)):
                bad.append(("count", "%r, expected %d" % (r, len(reg))))
    return bad


def parse_seq(out):
    res = []
    for ln in out.strip().split("\n"):
        tk = ln.split()
        if not tk:
            continue
        if tk[0] == "slot":
            res.append(("slot", int(tk[1])))
        elif tk[0] == "none":
            res.append(("none",))
        elif tk[0] == "some":
            res.append(("some", int(tk[1]), tk[2], int(tk[3])))
        elif tk[0] == "count":
            res.append(("count", int(tk[1])))
    return res


def seq_coq(h, res):
    ops, rs = [], []
    for op in h["ops"]:
        if op[0] == "A":
            ops.append("OpAppend %s" % objlit(op[1], op[2]))
        elif op[0] == "S":
            ops.append("OpSlot %s" % z(op[1]))
        elif op[0] == "K":
            ops.append("OpKey %s" % keylit(op[1]))
        else:
            ops.append("OpCount")
    for r in res:
        if r[0] == "slot":
            rs.append("RSlot %s" % z(r[1]))
        elif r[0] == "none":
            rs.append("RNone")
        elif r[0] == "some":
            rs.append("RSome %s %s" % (z(r[1]), objlit(r[2], r[3])))
        else:
            rs.append("RCount %s" % z(r[1]))
    return "(%s, [%s], [%s])" % ("true" if h["table"] == "R" else "false", "; ".join(ops), "; ".join(rs))


IMPORTS = "From Coq Require Import ZArith.\nFrom MJV Require Import Lib.Eqb Model.GlobalTable.\nOpen Scope Z_scope."


def run(ctx):
    ctx.coq_props(allowed_axioms=(), extra_targets=["Lib/Eqb.vo", "Model/GlobalTable.vo"])
    exe = ctx.driver("c40_table", ["c40_table.cc"], with_lib=False)
    if exe is None:
        return
    if getattr(ctx, "replay", None) and ctx.replay.get("case") and "scripts" in ctx.replay["case"]:
        c = ctx.replay["case"]
        c["scripts"] = [[tuple(o) for o in s] for s in c["scripts"]]
        cases = [c]
    else:
        cases = gen_cases(ctx)
    with ThreadPoolExecutor(max_workers=4) as ex:
        outs = list(ex.map(lambda c: ctx.run(exe, case_input(c), timeout=60), cases))
    coq_cases, idxmap = [], []
    distinct, nontriv, nevents, nviol = set(), 0, 0, 0
    parsed = []
    for i, (c, (rc, out, err)) in enumerate(zip(cases, outs)):
        status, evs = parse(out)
        if status is None:
            status = ("CRASH rc=%s %s" % (rc, err[-200:]), -1)
        parsed.append((status, evs))
        nevents += len(evs)
        bad = oracle(c, status, evs)
        for what, detail in bad[:1]:
            nviol += 1
            if nviol <= 6:
                ctx.violation("impl_violation", c, expected="property C40 on the implementation log", observed="%s: %s" % (what, detail),
                              theorem="C40_no_partial_object / C40_registry_consistent", signature={"site": "engine_global_table.h", "what": what},
                              note="log tail: " + " | ".join("%d %s %s" % e for e in evs[-14:]))
        if status[0] != "OK":
            continue
        lits = coq_events(c, evs)
        if lits is None:
            ctx.broken.append(("correspondence", "unknown event kind in c40_table log", ""))
            continue
        h = hashlib.sha256(repr(evs).encode()).hexdigest()
        if h not in distinct:
            distinct.add(h)
            # non-trivial: a reader dereferenced a slot while some writer was inside its critical section
            inlock, hit = False, False
            calls = {}
            for (t, k, a) in evs:
                if k == "lk":
                    inlock = True
                elif k == "ul":
                    inlock = False
                elif k in ("cs", "ck"):
                    calls[t] = True
                elif k in ("rs", "rn"):
                    calls[t] = False
                elif k in ("rk", "rv") and calls.get(t) and inlock:
                    hit = True
            nontriv += hit
        coq_cases.append("(%d, [%s])" % (len(c["scripts"]), "; ".join(lits)))
        idxmap.append(i)
    fails = ctx.coq_eval("c40", IMPORTS, coq_cases, "fun c => accepts (fst c) (snd c)",
                         shard=max(20, min(200, len(coq_cases) // 8 + 1)))
    for j in fails[:5]:
        i = idxmap[j]
        c, (status, evs) = cases[i], parsed[i]
        ok, out = ctx.coq_run("c40_prefix", IMPORTS + "\nFrom Coq Require Import List.\nImport ListNotations.\n"
                              "Eval vm_compute in (let c := %s in run_prefix (init (Z.to_nat (fst c))) (snd c) 0).\n" % coq_cases[j])
        m = re.search(r"=\s*(\d+)", out)
        at = int(m.group(1)) if m else -1
        vis = [e for e in evs if e[1] not in ("in", "sp", "jn", "ex")]
        ctx.violation("correspondence", c, expected="model Model/GlobalTable.v accepts the event log and ends with all threads idle",
                      observed="model rejects event %d: %s (context: %s)" % (at, vis[at] if 0 <= at < len(vis) else "end state not idle",
                                                                          " | ".join("%d %s %s" % e for e in vis[max(0, at - 6):at])),
                      found_input=False, theorem="trace validation c40_table",
                      note="implementation log is not a behaviour of the proved model, but the log satisfies the oracle")
    # ---- sequential histories on the real plugin / resource-provider registries
    nseq, seq_fails = 0, []
    exe2 = ctx.driver("c40_plugin", ["c40_plugin.cc"])
    if exe2 is not None:
        hs = gen_seq(ctx)
        if getattr(ctx, "replay", None) and ctx.replay.get("case") and "table" in ctx.replay["case"]:
            h = ctx.replay["case"]
            h["ops"] = [tuple(o) for o in h["ops"]]
            hs = [h]
        with ThreadPoolExecutor(max_workers=4) as ex:
            souts = list(ex.map(lambda h: ctx.run(exe2, seq_input(h), timeout=60), hs))
        scases, smap = [], []
        for i, (h, (rc, out, err)) in enumerate(zip(hs, souts)):
            res = parse_seq(out)
            if rc != 0 or len(res) != len(h["ops"]):
                ctx.violation("impl_violation", h, expected="%d results" % len(h["ops"]), observed="rc=%s, %d results: %s" % (rc, len(res), err[-300:]),
                              theorem="C40_seq_laws", signature={"site": "engine_plugin.cc", "what": "abnormal-end"})
                continue
            bad = seq_oracle(h, res)
            for what, detail in bad[:1]:
                nviol += 1
                ctx.violation("impl_violation", h, expected="registry laws on the mjp_* API", observed="%s: %s" % (what, detail),
                              theorem="C40_seq_laws", signature={"site": "engine_plugin.cc " + h["table"], "what": what})
            scases.append(seq_coq(h, res))
            smap.append(i)
        nseq = len(scases)
        seq_fails = ctx.coq_eval("c40seq", IMPORTS, scases,
                                 "fun c => match c with (ci, ops, rs) => list_eqb sres_eqb (srun ci tinit ops) rs end", shard=80)
        for j in seq_fails[:3]:
            ctx.violation("correspondence", hs[smap[j]], expected="srun (Model/GlobalTable.v) on the same history",
                          observed=souts[smap[j]][1][:600], found_input=False, theorem="differential c40_plugin",
                          note="real registry and functional specification disagree, but the registry laws oracle is satisfied")
    ctx.cov["evaluations"] = len(cases) + nseq
    ctx.cov["distinct_nontrivial"] = nontriv
    ctx.cov["distinct_logs"] = len(distinct)
    ctx.cov["events_replayed"] = nevents
    ctx.cov["sequential_histories"] = nseq
    ctx.cov["rule"] = ("concurrent: 1-6 threads each running 1-8 random operations (register key/value from a pool with case variants, GetAtSlot, "
                       "GetByKey incl. empty and unknown keys, outer LockExclusively/unlock) after a sequential prefill of 0-3 or 13-16 (thorough: "
                       "28-31) objects so that registrations and lookups cross the block boundaries, under a seeded scheduler (uniform / sticky / "
                       "priority demotion / starve one thread); non-trivial = distinct log in which a reader dereferenced a slot while a writer "
                       "held the lock. sequential: random histories of register/lookup/count on the real plugin and resource-provider tables "
                       "with up to 47 distinct keys, case variants and conflicting values")
    ctx.cov["samples"] = [cases[0], cases[len(cases) // 2]]
    ctx.cov["correspondence_disagreements"] = len(fails) + len(seq_fails)
    ctx.cov["support"]["oracle_violations"] = nviol
    ctx.cov["explanation"] = ("All C40 theorems proved for the models for every number of threads / history / interleaving (SC). Models tied to "
                              "engine_global_table.h by replaying %d implementation event logs (%d events) through the step function in Coq and to "
                              "engine_plugin.cc by %d exact sequential differential histories. Weak-memory effects are outside the model."
                              % (len(coq_cases), nevents, nseq))
