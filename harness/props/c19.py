"""C19 — internal stack and arena allocation is memory-safe."""
import itertools
import os
import re
import framework as F

W = 1 << 64
SIZE_MAX = W - 1

META = {
    "id": "C19", "category": "proof", "design_ref": "DESIGN.md section 4, C19 and section 7 item 1",
    "technique": "Coq proof (invariant over operation histories and schedules, size_t arithmetic mod 2^64 explicit) of a hand-written model of engine_memory.c + exact correspondence (exhaustive-small and random operation sequences, concurrent thread-lock traces) with the code of the working tree + interval/canary oracle on implementation output",
    "text": ("Proved in Coq of the model Model/Memory.v (non-ASan build, mjREDZONE=0; variant with the size guards = engine_memory.c as it is since /repo e39ca69d3), for every state satisfying the allocator invariant, EVERY size in [0,2^64) and every power-of-two alignment: "
             "(1) a block returned by mj_stackAllocByte / mj_arenaAllocByte is aligned, lies in [arena+parena, stack top), and lies entirely below every live stack block and frame and above every live arena block (C19_stack_block, C19_arena_block, C19_mark; arena: alignment + narena <= 2^64, and absolute alignment under the hypothesis that d->arena itself is aligned, which mj_makeData provides up to 64); "
             "(2) for every well-nested sequence of marks, frees, allocations and user writes confined to live blocks, mj_freeStack restores the pstack and pbase of the matching mj_markStack and a balanced sequence returns with the pstack/pbase it started with (C19_mark_free, C19_balanced, C19_invariant); "
             "(3) exhaustion gives the error outcome (stack) or NULL (arena) with the state unchanged (C19_exhaust_stack, C19_exhaust_arena); "
             "(4) for every interleaving (schedule over any number of threads, SC, one atomic fetch-add per step) of thread-lock reservations the returned blocks are pairwise disjoint and inside the stack region (C19_concurrent), under the stated hypothesis that the reservations do not wrap pstack. "
             "For the code before the repair (model variant with guards = false) the same statements need size + alignment <= 2^64 (C19_unguarded_*_partial) and are false without it (C19_unguarded_*_refuted, by computation); the witnesses stay in the corpus: the check replays them on the implementation on every run, reports an impl_violation (class size_wrap) if a block is returned, and ties whichever variant the working tree implements. "
             "The model is tied to the working tree by exact comparison of every returned pointer, pstack, parena, pbase, maxuse_stack, maxuse_arena after every operation, and of every fetch-add of concurrent runs. "
             "'Every public engine call returns with the stack pointer it started with' is covered by the balanced-sequence theorem plus (support, not proof) a lexical scan that every function of src/engine and src/user pairs mj_markStack with mj_freeStack on every return path, and by observing pstack/pbase around public API calls on a scene."),
    "note": "Trusted: Coq kernel; hand-written model Model/Memory.v; correspondence harness (gcc, driver c19_mem.c which includes engine_memory.c textually); sequential consistency for the atomic fetch-add; ASan build (red zones) not modelled.",
    "assumptions": ["non-ASan build (mjREDZONE = 0)", "mju_error does not return (handler longjmps)",
                    "concurrent theorem: SC, only mj_stackAllocByte is called under the thread lock, reservations do not wrap pstack",
                    "tie is differential testing on the cases of this run"],
}

COQ_IMPORTS = "From Coq Require Import ZArith Bool.\nFrom MJV Require Import Lib.Eqb Model.Memory.\nOpen Scope Z_scope."


def z(x):
    return "(%d)" % x if x < 0 else str(x)


def op_line(o):
    return " ".join(str(x) for x in o)


def op_coq(o):
    k = o[0]
    if k == "M":
        return "OMark"
    if k == "F":
        return "OFree"
    if k == "A":
        return "OSAlloc %d %d" % (o[1], o[2])
    if k == "R":
        return "OAAlloc %d %d" % (o[1], o[2])
    if k == "N":
        return "ONum %d" % o[1]
    if k == "I":
        return "OInt %d" % o[1]
    if k == "L":
        return "OLock %s" % ("true" if o[1] else "false")
    raise ValueError(o)


def is_pow2(a):
    return a > 0 and (a & (a - 1)) == 0


class Scenario:
    def __init__(self, narena, off, parena0, pstack0, ops, tag=""):
        self.narena, self.off, self.parena0, self.pstack0, self.ops, self.tag = narena, off, parena0, pstack0, ops, tag
        self.base = None
        self.out = None   # list of [kind, ptr, pstack, parena, pbase, maxs, maxa]
        self.guard = self.damaged = None

    def text(self):
        return "S %d %d %d %d %d\n%s\n" % (self.narena, self.off, self.parena0, self.pstack0, len(self.ops),
                                           "\n".join(op_line(o) for o in self.ops))

    def describe(self):
        return {"narena": self.narena, "base_offset": self.off, "parena0": self.parena0, "pstack0": self.pstack0,
                "ops": [op_line(o) for o in (getattr(self, "all_ops", None) or self.ops)]}


def run_scenarios(ctx, exe, scs):
    inp = "".join(s.text() for s in scs)
    rc, out, err = ctx.run(exe, inp)
    if rc != 0:
        ctx.broken.append(("correspondence", "driver c19_mem failed", "rc=%s %s" % (rc, err[-500:])))
        return False
    lines = out.split("\n")
    i = 0
    for s in scs:
        s.crashed = None
        if i < len(lines) and lines[i].startswith("X "):
            # the process running this scenario died inside the allocator
            s.crashed = int(lines[i].split()[1])
            s.base, s.layout, s.out, s.guard, s.damaged = 0, (24, 8, 0, 8), [], 0, 0
            s.all_ops, s.ops = s.ops, []
            i += 1
            continue
        if i >= len(lines) or not lines[i].startswith("B "):
            ctx.broken.append(("correspondence", "driver c19_mem output unparsable", lines[i][:200] if i < len(lines) else "eof"))
            return False
        b = lines[i].split()
        s.base = int(b[1])
        s.layout = tuple(map(int, b[2:6]))
        i += 1
        s.out = [list(map(int, lines[i + k].split())) for k in range(len(s.ops))]
        i += len(s.ops)
        # after mju_error under the thread lock the process is gone in reality (pstack already bumped):
        # the driver does not execute the rest of the scenario (kind 9)
        n = next((k for k, r in enumerate(s.out) if r[0] == 9), len(s.ops))
        s.ops, s.out = s.ops[:n], s.out[:n]
        e = lines[i].split()
        s.guard, s.damaged = int(e[1]), int(e[2])
        i += 1
    return True


def oracle(s):
    """Independent oracle on implementation output (does not use the model): interval bookkeeping of live
    blocks and frames.  Returns list of (opindex, class, site, expected, observed)."""
    bad = []
    if s.crashed is not None:
        return [(0, "crash", "engine_memory.c", "operation sequence runs to completion", "process killed by signal %d" % s.crashed)]
    base, narena = s.base, s.narena
    bottom = base + narena
    pstack, parena, pbase = s.pstack0, s.parena0, 0
    tlock = False
    frames = []       # (frame address, pstack before mark, pbase before mark)
    sblocks = []      # (level, lo, hi)
    ablocks = []      # (lo, hi)
    for i, (o, r) in enumerate(zip(s.ops, s.out)):
        kind, ptr, ps2, pa2, pb2 = r[:5]
        k = o[0]
        site = {"M": "mj_markStack", "F": "mj_freeStack", "A": "mj_stackAllocByte", "R": "mj_arenaAllocByte",
                "N": "mj_stackAllocNum", "I": "mj_stackAllocInt", "L": "threadlock"}[k]
        unchanged = (ps2, pa2, pb2) == (pstack, parena, pbase)
        avail = narena - parena - pstack
        top = bottom - pstack

        def live_regions():
            return [(lo, hi, "stack block") for (_, lo, hi) in sblocks] + [(lo, hi, "arena block") for (lo, hi) in ablocks] + \
                   [(fa, fa + 24, "stack frame") for (fa, _, _) in frames]

        def check_block(lo, size, al, what):
            if al > 0 and lo % al != 0 and (k != "R" or base % al == 0):
                bad.append((i, "misaligned", site, "%s aligned to %d" % (what, al), "address %d (offset %d)" % (lo, lo - base)))
            if not (base + parena <= lo and lo + size <= top):
                bad.append((i, "outside", site, "%s inside [arena+parena, stack top) = offsets [%d, %d)" % (what, parena, narena - pstack),
                            "offsets [%d, %d)" % (lo - base, lo - base + size)))
            for (l2, h2, w2) in live_regions():
                if lo < h2 and l2 < lo + size and size > 0:
                    bad.append((i, "overlap", site, "%s disjoint from live %s at offsets [%d, %d)" % (what, w2, l2 - base, h2 - base),
                                "offsets [%d, %d)" % (lo - base, lo - base + size)))
                    break

        if k == "L":
            tlock = bool(o[1])
            if not unchanged:
                bad.append((i, "state", site, "unchanged", r))
        elif k in ("A", "N", "I"):
            if k == "A":
                size, al = o[1], o[2]
                toolarge = False
            else:
                esz = 8 if k == "N" else 4
                toolarge = o[1] >= SIZE_MAX // esz
                size, al = o[1] * esz, esz
            if toolarge:
                if kind != 3 or not unchanged:
                    bad.append((i, "size_wrap", site, "mju_error (element count too large), state unchanged", r))
            elif size == 0:
                if kind != 1 or not unchanged:
                    bad.append((i, "zero", site, "NULL and state unchanged", r))
            elif kind == 2:
                if size > avail:
                    bad.append((i, "size_wrap" if size + max(al, 1) > W or size > W // 2 else "exhaust", site,
                                "mju_error: %d bytes requested, %d available" % (size, avail),
                                "returned a block at offset %d, pstack %d -> %d" % (ptr - base, pstack, ps2)))
                else:
                    check_block(ptr, size, al, "block")
                    if not (bottom - ps2 <= ptr):
                        bad.append((i, "unprotected", site, "new stack top at or below the block", "top offset %d, block offset %d" % (narena - ps2, ptr - base)))
                if (pa2, pb2) != (parena, pbase) or ps2 < pstack:
                    bad.append((i, "state", site, "parena, pbase unchanged, pstack not decreased", r))
                if size <= avail:
                    sblocks.append((len(frames), ptr, ptr + size))
            elif kind == 3:
                if not unchanged and not tlock:
                    bad.append((i, "state", site, "state unchanged after mju_error", r))
                if size + al - 1 <= avail and is_pow2(al):
                    bad.append((i, "spurious_error", site, "a block (size+align-1 = %d <= %d available)" % (size + al - 1, avail), "mju_error"))
            else:
                bad.append((i, "result", site, "pointer or mju_error", r))
        elif k == "R":
            size, al = o[1], o[2]
            if kind == 2:
                if size > avail:
                    bad.append((i, "size_wrap" if size + max(al, 1) + parena > W or size > W // 2 else "exhaust", site,
                                "NULL: %d bytes requested, %d available" % (size, avail),
                                "returned a block at offset %d, parena %d -> %d" % (ptr - base, parena, pa2)))
                else:
                    check_block(ptr, size, al, "block")
                    if not (ptr + size <= base + pa2):
                        bad.append((i, "unprotected", site, "new parena at or above the end of the block", "parena %d, block end offset %d" % (pa2, ptr + size - base)))
                    ablocks.append((ptr, ptr + size))
                if (ps2, pb2) != (pstack, pbase) or (pa2 < parena and size <= avail):
                    bad.append((i, "state", site, "pstack, pbase unchanged, parena not decreased", r))
            elif kind == 1:
                if not unchanged:
                    bad.append((i, "state", site, "state unchanged after NULL", r))
                if size + al - 1 <= avail and is_pow2(al):
                    bad.append((i, "spurious_null", site, "a block", "NULL"))
            else:
                bad.append((i, "result", site, "pointer or NULL", r))
        elif k == "M":
            if tlock:
                if kind != 0 or not unchanged:
                    bad.append((i, "state", site, "no-op under threadlock", r))
            elif kind == 0:
                fa = pb2
                check_block(fa, 24, 8, "frame")
                if not (bottom - ps2 <= fa) or pa2 != parena:
                    bad.append((i, "unprotected", site, "new stack top at or below the frame, parena unchanged", r))
                frames.append((fa, pstack, pbase))
            elif kind == 3:
                if not unchanged:
                    bad.append((i, "state", site, "state unchanged after mju_error", r))
                if avail >= 31:
                    bad.append((i, "spurious_error", site, "a frame (%d bytes available)" % avail, "mju_error"))
            if avail < 24 and kind != 3 and not tlock:
                bad.append((i, "exhaust", site, "mju_error: 24 bytes needed, %d available" % avail, r))
        elif k == "F":
            if tlock or not frames:
                if kind != 0 or not unchanged:
                    bad.append((i, "state", site, "no-op", r))
            else:
                fa, ps0, pb0 = frames.pop()
                if (ps2, pb2, pa2) != (ps0, pb0, parena):
                    bad.append((i, "restore", site, "pstack=%d pbase=%d (values at the matching mj_markStack)" % (ps0, pb0),
                                "pstack=%d pbase=%d" % (ps2, pb2)))
                sblocks[:] = [b for b in sblocks if b[0] <= len(frames)]
        pstack, parena, pbase = ps2, pa2, pb2
    if s.guard or s.damaged:
        bad.append((len(s.ops), "corruption", "arena", "no byte outside the arena written, live blocks keep their contents",
                    "%d guard bytes modified, %d live blocks damaged" % (s.guard, s.damaged)))
    return bad


def coq_case(s, gflags):
    """Coq literal (gs, gt, ga, base, narena, parena0, pstack0, ops, observations); a user write is inserted after
    every allocation whose block the driver filled (block entirely inside the arena)."""
    ops = []
    for o, r in zip(s.ops, s.out):
        ops.append(op_coq(o))
        if r[0] == 2 and o[0] in ("A", "R", "N", "I"):
            size = o[1] * (8 if o[0] == "N" else 4 if o[0] == "I" else 1)
            ptr = r[1]
            if ptr >= s.base and ptr - s.base <= s.narena and size <= s.narena - (ptr - s.base):
                ops.append("OWrite %d %d %d" % (ptr, size, 0x0101010101010101 * 7))
    outs = F.zlist([x for r in s.out for x in r])
    return "OC %s %s %s %d %d %d %d [%s] %s" % (
        gflags[0], gflags[1], gflags[2], s.base, s.narena, s.parena0, s.pstack0, "; ".join(ops), outs)


# monomorphic case constructors: Coq elaborates large literals of nested polymorphic tuples very slowly
SEQ_PRE = "Inductive ocase := OC (gs gt ga : bool) (b na pa ps : Z) (ops : list op) (out : list Z).\n"
CHECKER = ("fun c => match c with OC gs gt ga b na pa ps ops out => "
           "zlist_eqb (concat (run gs gt ga (init b na pa ps) ops)) out end")


# ------------------------------------------------------------------------------------------ generation
def gen_random(rng, n, maxlen):
    scs = []
    for _ in range(n):
        narena = rng.choice([0, 24, 31, 32, 64, 96, 128, 200, 256, 1000, 4096])
        off = rng.choice([0, 0, 8, 16, 1, 3, 12, 64, 100])
        parena0 = rng.choice([0, 0, 0, 1, 8, 13]) if narena >= 64 else 0
        pstack0 = rng.choice([0, 0, 0, 5, 8, 16]) if narena >= 64 else 0
        depth = 0
        tl = False
        ops = []
        for _ in range(rng.randrange(1, maxlen)):
            c = rng.random()
            if c < 0.17:
                ops.append(("M",))
                depth += 0 if tl else 1
            elif c < 0.34:
                ops.append(("F",))     # also at depth 0: a legal no-op
                depth = max(0, depth - (0 if tl else 1))
            elif c < 0.36:
                tl = not tl
                ops.append(("L", int(tl)))
            elif c < 0.42:
                ops.append((rng.choice("NI"), rng.choice([0, 1, 2, 3, 7, narena // 8, narena // 3, 1 << 40, (1 << 61) - 2,
                                                          (1 << 61) - 1, 1 << 61, (1 << 62) - 1, 1 << 62, 1 << 63, SIZE_MAX])))
            else:
                al = rng.choice([1, 1, 2, 4, 8, 8, 8, 16, 32, 64, 64, 128, 4096, 1 << 20, 1 << 40, 1 << 63, 3, 24, 40])
                sz = rng.choice([
                    0, 1, 2, 7, 8, 9, 16, 17, 24, 31, 33, 64, narena // 4, narena // 2, narena, narena + 1,
                    rng.randrange(1, 2 * narena + 2), 1 << 31, 1 << 32, 1 << 47, (1 << 63) - 1, 1 << 63, (1 << 63) + 1,
                    W - (1 << 40), W - 2 * narena - 4096])
                opk = rng.choice("AAAR")
                slack = 2 * narena + 64
                if rng.random() < 0.12 and is_pow2(al) and al <= (1 << 40):
                    # largest sizes that do not wrap the size_t arithmetic: must fail cleanly
                    if opk == "A" and not tl:
                        sz = W - al - rng.choice([0, 0, 1, 7, 8, 100])
                    else:
                        sz = W - al - slack - rng.choice([0, 1, 8])
                elif sz + al + slack > W:
                    sz = rng.randrange(0, narena + 2)
                ops.append((opk, sz, al))
        scs.append(Scenario(narena, off, parena0, pstack0, ops, "random"))
    return scs


def gen_exhaustive(maxlen):
    """all sequences up to maxlen over a small alphabet on a 96-byte arena at two base alignments"""
    alpha = [("M",), ("F",), ("A", 1, 1), ("A", 8, 8), ("A", 17, 16), ("A", 40, 4), ("R", 8, 8), ("R", 33, 2)]
    scs = []
    for n in range(1, maxlen + 1):
        for t in itertools.product(alpha, repeat=n):
            # a free on an empty frame stack is a no-op: keep at most one leading instance of it
            d = 0
            ok = True
            for j, o in enumerate(t):
                if o[0] == "M":
                    d += 1
                elif o[0] == "F":
                    if d == 0 and j > 0:
                        ok = False
                        break
                    d = max(0, d - 1)
            if ok:
                scs.append(Scenario(96, 8 if (len(scs) % 2) else 0, 0, 0, list(t), "exhaustive"))
    return scs


def wrap_witnesses():
    """the C19_unguarded_*_refuted witnesses and neighbours (size + alignment > 2^64), smallest first.
    (site key, scenario, index of the decisive operation)"""
    w = []
    for k in list(range(0, 7)) + [7, 8, 15]:
        w.append(("stack", Scenario(256, 0, 0, 0, [("M",), ("A", 10, 8), ("A", SIZE_MAX - k, 8)], "wrap"), 2))
    for al, k in ((1, 0), (16, 3), (64, 40), (4096, 2000)):
        w.append(("stack", Scenario(8192, 0, 0, 0, [("M",), ("A", 10, al), ("A", SIZE_MAX - k, al)], "wrap"), 2))
    for k in (0, 7, 8, 15, 16):
        w.append(("arena", Scenario(256, 0, 0, 0, [("R", 16, 1), ("R", SIZE_MAX - k, 1), ("R", 8, 1)], "wrap"), 1))
    w.append(("arena", Scenario(256, 0, 0, 0, [("R", 16, 8), ("R", SIZE_MAX, 8), ("R", 8, 8)], "wrap"), 1))
    for k in (0, 3, 6):
        w.append(("tlock", Scenario(256, 0, 0, 0, [("A", 16, 8), ("L", 1), ("A", SIZE_MAX - k, 8)], "wrap"), 2))
    w.append(("tlock", Scenario(256, 0, 0, 0, [("A", 16, 8), ("L", 1), ("A", SIZE_MAX - 7, 8)], "wrap"), 2))
    return w


SITE_NAME = {"stack": "mj_stackAllocByte", "arena": "mj_arenaAllocByte", "tlock": "mj_stackAllocByte"}


def run(ctx):
    import time
    rng = ctx.rng
    quick = ctx.tier == "quick"
    tm = ctx.cov["support"].setdefault("timing_s", {})
    t0 = time.time()

    def lap(name):
        nonlocal t0
        tm[name] = round(time.time() - t0, 1)
        t0 = time.time()
    ctx.coq_props(allowed_axioms=(), extra_targets=["Lib/Eqb.vo", "Model/Memory.vo", "Proof/MemoryProof.vo"])
    lap("coq_props")
    exe = ctx.driver("c19_mem", ["c19_mem.c"])
    if exe is None:
        return
    lap("driver_build")
    sup = ctx.cov["support"]
    if getattr(ctx, "replay", None) and isinstance(ctx.replay.get("case"), dict) and "ops" in ctx.replay["case"]:
        return replay_case(ctx, exe)

    # ---- 1. replay of the refutation witnesses; decides per site which variant of the model is tied
    wit = wrap_witnesses()
    if not run_scenarios(ctx, exe, [s for _, s, _ in wit]):
        return
    guarded = {"stack": True, "arena": True, "tlock": True}
    nwrapbad = 0
    for site, s, idx in wit:
        badl = oracle(s)
        wrapped = any(cls == "size_wrap" and i == idx for (i, cls, _, _, _) in badl)
        for (i, cls, osite, exp, obs) in badl:
            if cls == "size_wrap" and i == idx:
                guarded[site] = False
                nwrapbad += 1
                sig = {"site": SITE_NAME[site], "class": "size_wrap"}
                if site == "tlock":
                    sig = {"site": "mj_stackAllocByte", "class": "size_wrap", "branch": "threadlock"}
                ctx.violation("impl_violation",
                              dict(s.describe(), failing_op=op_line(s.ops[i]), arena_base=s.base),
                              expected=exp, observed=obs,
                              theorem={"stack": "C19_stack_block / C19_unguarded_wrap_refuted", "arena": "C19_arena_block / C19_unguarded_arena_wrap_refuted", "tlock": "C19_concurrent / C19_unguarded_tl_wrap_refuted"}[site],
                              signature=sig,
                              note="size within `alignment` of 2^64: the size_t arithmetic wraps and a block is returned although the request cannot be satisfied")
            elif wrapped and i >= idx:
                pass   # consequences of the wrapped allocation (pstack/parena moved backwards, overlap): same finding
            else:
                ctx.violation("impl_violation", dict(s.describe(), failing_op=op_line(s.ops[min(i, len(s.ops) - 1)]) if s.ops else None),
                              expected=exp, observed=obs, theorem="C19_stack_block/C19_arena_block",
                              signature={"site": osite, "class": cls})
    gflags = tuple("true" if guarded[k] else "false" for k in ("stack", "tlock", "arena"))
    sup["variant_tied"] = {k: ("size guard present" if v else "NO size guard (code before /repo e39ca69d3)") for k, v in guarded.items()}
    sup["wrap_witness_cases"] = len(wit)
    sup["wrap_witness_violations"] = nwrapbad

    # ---- 2. exhaustive-small and random sequences
    scs = gen_exhaustive(3 if quick else 4)
    nexh = len(scs)
    scs += gen_random(rng, 300 if quick else 5000, 30 if quick else 40)
    if not run_scenarios(ctx, exe, scs):
        return
    layout = scs[0].layout
    if layout != (24, 8, 0, 8):
        ctx.broken.append(("correspondence", "mjStackFrame layout differs from the model (FRAME=24, FALIGN=8, pbase@0, pstack@8)", str(layout)))
    nviol = 0
    distinct = set()
    nontriv = 0
    for s in scs:
        badl = oracle(s)
        for (i, cls, site, exp, obs) in badl[:1]:
            nviol += 1
            if nviol <= 5:
                ctx.violation("impl_violation", dict(s.describe(), failing_op=op_line(s.ops[min(i, len(s.ops) - 1)]) if s.ops else None, arena_base=s.base),
                              expected=exp, observed=obs, theorem="C19_stack_block/C19_arena_block/C19_mark_free/C19_exhaust_*",
                              signature={"site": site, "class": cls})
        key = (s.narena, s.off % 64, s.parena0, s.pstack0, tuple(s.ops))
        if key not in distinct:
            distinct.add(key)
            kinds = {r[0] for r in s.out}
            # non-trivial: at least one block returned, one failure outcome and one frame released
            if 2 in kinds and (3 in kinds or 1 in kinds) and any(o[0] == "F" and r[4] != 0 or o[0] == "F" for o, r in zip(s.ops, s.out)) \
               and any(o[0] == "M" and r[0] == 0 for o, r in zip(s.ops, s.out)):
                nontriv += 1
    allsc = [s for _, s, _ in wit] + scs
    cases = [coq_case(s, gflags) for s in allsc]
    lap("impl_runs_and_oracle")
    fails = ctx.coq_eval("c19", COQ_IMPORTS, cases, CHECKER, shard=200 if quick else 400, pre=SEQ_PRE)
    lap("coq_eval_sequential")
    for i in fails[:5]:
        s = allsc[i]
        ctx.violation("correspondence", s.describe(), expected="model output (Model/Memory.v, guards %s)" % (gflags,),
                      observed=s.out, found_input=False, theorem="correspondence c19_mem",
                      note="implementation and Coq model disagree on this operation sequence, but the implementation output satisfies the oracle")

    # ---- 3. concurrent thread-lock reservations: trace validation + oracle
    ntr, ncalls = concurrent_part(ctx, exe, gflags, quick)
    lap("concurrent")

    # ---- 4. support: every engine function pairs mark/free; public API calls restore pstack
    scan_mark_free(ctx)
    api_part(ctx)
    lap("scan_and_api")

    ctx.cov["evaluations"] = len(allsc) + ntr
    ctx.cov["distinct_nontrivial"] = nontriv
    ctx.cov["exhaustive_part"] = "all %d operation sequences of length <= %d over 8 operations on a 96-byte arena" % (nexh, 3 if quick else 4)
    ctx.cov["rule"] = ("sequential: exhaustive sequences over {mark, free, 4 stack allocs, 2 arena allocs} + random sequences (length < 30 quick / 40 thorough) on arenas of 0..4096 bytes "
                       "at 9 base misalignments with sizes from 0 to 2^64-alignment and alignments 1..2^63 (and non powers of two), threadlock toggles; "
                       "wrap witnesses (size+alignment > 2^64) separately; concurrent: %d traces (%d calls) of 2..8 threads. "
                       "non-trivial = distinct sequential scenario with at least one returned block, one error/NULL outcome, one successful mark and one free" % (ntr, ncalls))
    pick = [allsc[0], scs[nexh - 1], scs[nexh + 1]]
    ctx.cov["samples"] = [dict(s.describe(), observed=s.out[:6]) for s in pick]
    ctx.cov["correspondence_disagreements"] = len(fails)
    ctx.cov["explanation"] = ("Theorems of Props/C19.v proved for all states/sizes/alignments/histories/schedules; model tied to engine_memory.c by exact comparison "
                              "on %d sequential scenarios and %d concurrent traces; wrap witnesses: %d/%d violate the property on the implementation" %
                              (len(allsc), ntr, nwrapbad, len(wit)))


def replay_case(ctx, exe):
    """./check C19 --replay f : re-run the operation sequence of a recorded violation on the working tree."""
    c = ctx.replay["case"]
    ops = []
    for line in c["ops"]:
        t = line.split()
        ops.append(tuple([t[0]] + [int(x) for x in t[1:]]))
    s = Scenario(c["narena"], c["base_offset"], c["parena0"], c["pstack0"], ops, "replay")
    if not run_scenarios(ctx, exe, [s]):
        return
    badl = oracle(s)
    for (i, cls, site, exp, obs) in badl[:1]:
        sig = {"site": "mj_stackAllocByte" if site.startswith("mj_stackAlloc") else site, "class": cls}
        if cls == "size_wrap" and any(o[0] == "L" and o[1] for o in s.ops[:i]):
            sig["branch"] = "threadlock"
        ctx.violation("impl_violation", dict(s.describe(), failing_op=op_line(s.ops[min(i, len(s.ops) - 1)]) if s.ops else None, arena_base=s.base),
                      expected=exp, observed=obs, theorem=ctx.replay.get("theorem"), signature=sig)
    ctx.cov["evaluations"] = 1
    ctx.cov["distinct_nontrivial"] = 0
    ctx.cov["rule"] = "replay of one recorded operation sequence"
    ctx.cov["samples"] = [dict(s.describe(), observed=s.out)]
    ctx.cov["explanation"] = "replay: %d oracle complaints" % len(badl)


def concurrent_part(ctx, exe, gflags, quick):
    rng = ctx.rng
    specs = []
    for _ in range(4 if quick else 32):
        nth = rng.choice([2, 3, 4, 8])
        nper = rng.choice([60, 120]) if quick else rng.choice([200, 500])
        maxsize = rng.choice([8, 40, 200])
        narena = rng.choice([1 << 13, 1 << 15, 1 << 17]) if quick else rng.choice([1 << 16, 1 << 18, 1 << 20])   # some run out of memory on purpose
        specs.append((nth, nper, narena, rng.choice([0, 8, 3]), rng.choice([0, 64, 100]), rng.randrange(1 << 30), maxsize))
    inp = "".join("T %d %d %d %d %d %d %d\n" % sp for sp in specs)
    rc, out, err = ctx.run(exe, inp)
    if rc != 0:
        ctx.broken.append(("correspondence", "driver c19_mem (concurrent) failed", "rc=%s %s" % (rc, err[-500:])))
        return 0, 0
    lines = out.split("\n")
    i = 0
    cases = []
    ncalls = 0
    interleaved = 0
    for sp in specs:
        nth, nper, narena, off, parena0, seed, maxsize = sp
        if lines[i].startswith("X "):
            ctx.violation("impl_violation", {"concurrent_spec": sp}, expected="concurrent allocations run to completion", observed="process killed by signal " + lines[i].split()[1],
                          theorem="C19_concurrent", signature={"site": "mj_stackAllocByte", "class": "concurrent_crash"})
            cases.append(None)
            i += 1
            continue
        base = int(lines[i].split()[1])
        i += 1
        calls = []
        for k in range(nth * nper):
            t = lines[i + k].split()
            calls.append(tuple(map(int, t[1:])))   # tid size al old alloc kind ptr
        i += nth * nper
        e = lines[i].split()
        i += 1
        guard, damaged, pfinal = int(e[1]), int(e[2]), int(e[3])
        ncalls += len(calls)
        # oracle: blocks aligned, inside [arena+parena, arena+narena), pairwise disjoint; exhaustion -> error
        blocks = sorted((c[6], c[6] + c[1], c) for c in calls if c[5] == 2)
        desc = {"threads": nth, "calls_per_thread": nper, "narena": narena, "base_offset": off, "parena0": parena0, "seed": seed, "maxsize": maxsize}
        for (lo, hi, c) in blocks:
            if lo % c[2] != 0 or lo < base + parena0 or hi > base + narena:
                ctx.violation("impl_violation", dict(desc, call=c), expected="aligned block inside the stack region", observed="[%d,%d)" % (lo - base, hi - base),
                              theorem="C19_concurrent", signature={"site": "mj_stackAllocByte", "class": "concurrent_outside"})
                break
        for a, b in zip(blocks, blocks[1:]):
            if b[0] < a[1]:
                ctx.violation("impl_violation", dict(desc, calls=[a[2], b[2]]), expected="disjoint blocks", observed="[%d,%d) and [%d,%d)" % (a[0] - base, a[1] - base, b[0] - base, b[1] - base),
                              theorem="C19_concurrent", signature={"site": "mj_stackAllocByte", "class": "concurrent_overlap"})
                break
        if any(c[5] not in (2, 3) for c in calls):
            ctx.violation("impl_violation", dict(desc), expected="every call performs exactly one fetch-add and returns a block or raises", observed=[c for c in calls if c[5] not in (2, 3)][:3],
                          theorem="C19_concurrent", signature={"site": "mj_stackAllocByte", "class": "concurrent_result"})
        if guard or damaged:
            ctx.violation("impl_violation", dict(desc), expected="no corruption", observed="%d guard bytes modified, %d blocks damaged" % (guard, damaged),
                          theorem="C19_concurrent", signature={"site": "mj_stackAllocByte", "class": "concurrent_corruption"})
        # trace: order of the fetch-adds = order of the values they returned
        order = sorted(calls, key=lambda c: c[3])
        tids = [c[0] for c in order]
        interleaved += sum(1 for a, b in zip(tids, tids[1:]) if a != b)
        sched = "; ".join("CReserve %d %d %d; CFinish %d" % (c[0], c[1], c[2], c[0]) for c in order)
        done = F.zlist([x for c in reversed(order) for x in (c[1], c[2], 2 if c[5] == 2 else 3, c[6] if c[5] == 2 else 0)])
        olds = F.zlist([c[3] for c in order if c[3] != SIZE_MAX])
        cases.append("CC %s %d %d %d [%s] %s %s %d" % (gflags[1], base, narena, parena0, sched, done, olds, pfinal))
    pre = ("Inductive ccase := CC (gd : bool) (b na pa : Z) (sched : list cact) (done olds : list Z) (pfinal : Z).\n"
           "Definition flat_done (l : list (Z * Z * res)) : list Z := flat_map (fun d => match d with (s, a, r) => "
           "match r with RPtr p => [s; a; 2; p] | RErr => [s; a; 3; 0] | RNull => [s; a; 1; 0] | RUnit => [s; a; 0; 0] end end) l.\n"
           "Fixpoint olds_of (gd : bool) (b na pa : Z) (c : cst) (l : list cact) : list Z := match l with [] => [] | a :: r => "
           "let c' := cstep gd b na pa c a in match a with CReserve _ _ _ => if c_pstack c' =? c_pstack c then olds_of gd b na pa c' r else c_pstack c :: olds_of gd b na pa c' r | _ => olds_of gd b na pa c' r end end.\n")
    checker = ("fun c => match c with CC gd b na pa sched done olds pfinal => "
               "let f := crun gd b na pa (mkcst 0 [] []) sched in "
               "zlist_eqb (flat_done (c_done f)) done && (c_pstack f =? pfinal) && zlist_eqb (olds_of gd b na pa (mkcst 0 [] []) sched) olds end")
    specs = [sp for sp, c in zip(specs, cases) if c is not None]
    cases = [c for c in cases if c is not None]
    fails = ctx.coq_eval("c19c", COQ_IMPORTS, cases, checker, shard=2 if quick else 4, pre=pre)
    for k in fails[:3]:
        ctx.violation("correspondence", {"concurrent_spec": specs[k]}, expected="model trace (crun) with the observed order of fetch-adds",
                      observed="results / fetch-add values / final pstack differ", found_input=False, theorem="trace validation c19_mem T",
                      note="a concurrent run of the implementation is not a run of the model")
    ctx.cov["traces_validated_against_impl"] = len(specs) - len(fails)
    ctx.cov["support"]["concurrent_calls"] = ncalls
    ctx.cov["support"]["concurrent_thread_switches_between_consecutive_fetch_adds"] = interleaved
    return len(specs), ncalls


# ------------------------------------------------------------------------------------------ support parts
FUNC_RE = re.compile(r"^[A-Za-z_][^\n;{}()]*?\b([A-Za-z_]\w*)\s*\(([^;{}]*?)\)\s*(?:const\s*)?\{", re.M)


def scan_mark_free(ctx):
    """Lexical support check: in every function body of src/engine and src/user, along the text, mj_markStack and
    mj_freeStack are balanced at the end, never negative, and no `return` appears while a frame is open."""
    import glob
    files = sorted(glob.glob(os.path.join(ctx.repo, "src/engine/*.c")) + glob.glob(os.path.join(ctx.repo, "src/engine/*.cc")) +
                   glob.glob(os.path.join(ctx.repo, "src/user/*.cc")) + glob.glob(os.path.join(ctx.repo, "src/user/*.c")))
    nfun = 0
    nmark = 0
    problems = []
    for fn in files:
        txt = open(fn, errors="replace").read()
        txt = re.sub(r"//[^\n]*", "", txt)
        txt = re.sub(r"/\*.*?\*/", lambda m: "\n" * m.group(0).count("\n"), txt, flags=re.S)
        txt = re.sub(r'"(?:\\.|[^"\\\n])*"', '""', txt)
        txt = re.sub(r"#ifdef mjUSEASAN.*?(#else|#endif)", lambda m: "\n" * m.group(0).count("\n"), txt, flags=re.S)
        if os.path.basename(fn) == "engine_memory.c":
            continue
        pos = 0
        while True:
            m = re.search(r"\)\s*(?:const\s*)?(?:noexcept\s*)?\{", txt[pos:])
            if not m:
                break
            start = pos + m.end()
            depth = 1
            j = start
            while j < len(txt) and depth:
                if txt[j] == "{":
                    depth += 1
                elif txt[j] == "}":
                    depth -= 1
                j += 1
            body = txt[start:j]
            pos = j
            if "mj_markStack" not in body and "mj_freeStack" not in body:
                continue
            nfun += 1
            open_frames = 0
            depth = 0
            opened_at = []
            toks = list(re.finditer(r"\bmj_markStack\s*\(|\bmj_freeStack\s*\(|\breturn\b|[{}]", body))
            for t in toks:
                w = t.group(0)
                if w == "{":
                    depth += 1
                elif w == "}":
                    depth -= 1
                elif w.startswith("mj_markStack"):
                    open_frames += 1
                    opened_at.append(depth)
                    nmark += 1
                elif w.startswith("mj_freeStack"):
                    # in a block nested deeper than the matching mark, a free followed (before the block closes) by
                    # return / break / continue / mjERROR is an early exit: the frame stays open on the fall-through path
                    after = re.match(r"[^;]*;((?:[^;{}]*[;{]){0,2}?)\s*(return\b|break\b|continue\b|mjERROR\s*\(|mju_error\s*\()", body[t.end():t.end() + 300])
                    if after and opened_at and opened_at[-1] < depth:
                        continue
                    if opened_at:
                        opened_at.pop()
                    open_frames -= 1
                    if open_frames < 0:
                        line = txt[:start + t.start()].count("\n") + 1
                        problems.append("%s:%d: mj_freeStack without mj_markStack" % (os.path.relpath(fn, ctx.repo), line))
                        open_frames = 0
                else:
                    before = body[max(0, t.start() - 200):t.start()]
                    if open_frames > 0 and not re.search(r"(mj_freeStack\s*\([^)]*\)\s*;(?:[^;{}]*;){0,2}|mjERROR\s*\((?:[^;]|\n)*\)\s*;)\s*$", before):
                        line = txt[:start + t.start()].count("\n") + 1
                        problems.append("%s:%d: return while a stack frame is open" % (os.path.relpath(fn, ctx.repo), line))
            if open_frames != 0:
                line = txt[:start].count("\n") + 1
                problems.append("%s:%d: function ends with %d open stack frame(s)" % (os.path.relpath(fn, ctx.repo), line, open_frames))
    ctx.cov["support"]["mark_free_scan"] = {"functions_using_stack": nfun, "mark_calls": nmark, "problems": problems[:10]}
    if problems:
        ctx.broken.append(("translator", "mark/free pairing scan: a function of src/engine or src/user does not pair mj_markStack with mj_freeStack on every path (lexical check)",
                           "; ".join(problems[:5])))
    if nfun < 20:
        ctx.broken.append(("translator", "mark/free pairing scan found only %d functions using the stack" % nfun, ""))
    return problems


def driver_retry(ctx, name, srcs, **kw):
    """ctx.driver, retried once with a rebuilt library: concurrent checks prune old libmj_nox_*.a files, so the
    library obtained at the start of a long run can be gone when a second driver is linked"""
    n = len(ctx.broken)
    exe = ctx.driver(name, srcs, **kw)
    if exe is None and len(ctx.broken) > n and "cannot find" in str(ctx.broken[-1][2]):
        ctx.broken.pop()
        ctx._lib = None
        exe = ctx.driver(name, srcs, **kw)
    return exe


def api_part(ctx):
    """pstack/pbase around public API calls on a scene (library code of the working tree)."""
    exe = driver_retry(ctx, "c19_api", ["c19_api.c"])
    if exe is None:
        return
    ncalls = 0
    sup = ctx.cov["support"].setdefault("api_calls", {})
    for args in (["8", "3", "-1", "0", "1"], ["5", "2", "-1", "1", "0"]):
        rc, out, err = ctx.run(exe, "", args=args)
        if rc != 0:
            ctx.broken.append(("build", "driver c19_api failed", "rc=%s %s" % (rc, err[-500:])))
            return
        for line in out.split("\n"):
            t = line.split()
            if len(t) == 6 and t[0].startswith(("mj_", "mjd_")):
                ncalls += 1
                ps0, pb0, ps1, pb1, ok = map(int, t[1:])
                if ok and (ps0, pb0) != (ps1, pb1):
                    ctx.violation("impl_violation", {"scene_args": args, "call": t[0]}, expected="pstack=%d pbase=%d after the call" % (ps0, pb0),
                                  observed="pstack=%d pbase=%d" % (ps1, pb1), theorem="C19_balanced",
                                  signature={"site": t[0], "class": "pstack_not_restored"})
                if ps0 == 0 or pb0 == 0:
                    ctx.broken.append(("harness", "c19_api: caller frame missing before " + t[0], line))
            elif t and t[0] == "reset" and t[1:] != ["0", "0"]:
                ctx.violation("impl_violation", {"scene_args": args, "call": "mj_resetData"}, expected="pstack=0 pbase=0", observed=line,
                              theorem="C19_init", signature={"site": "mj_resetData", "class": "reset"})
            elif t and t[0] == "align":
                # stack blocks are aligned absolutely; arena blocks relative to d->arena (64-byte aligned by mju_malloc)
                if int(t[1]) <= 64 and t[2] != "1" or t[3] != "1":
                    ctx.violation("impl_violation", {"scene_args": args, "alignment": int(t[1])}, expected="aligned blocks", observed=line,
                                  theorem="C19_stack_block/C19_arena_block", signature={"site": "mj_makeData", "class": "misaligned"})
                if int(t[1]) > 64:
                    sup.setdefault("arena_block_aligned_on_real_mjData", {})[t[1]] = (t[2] == "1")
            elif t and t[0] == "arena":
                sup["arena_base_mod_4096"] = int(t[1])
    sup["public_api_calls_observed"] = ncalls
