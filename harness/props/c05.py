"""C05 — time integration follows the documented schemes."""
import math, os, struct, sys
import framework as F

sys.path.insert(0, os.path.join(F.VERIF, "translate"))
import tableau2v  # noqa: E402

META = {
    "id": "C05", "category": "proof", "design_ref": "DESIGN.md section 4, C05",
    "technique": "Coq proofs over R about a polymorphic model of the integration kernels + fail-closed translator for the RK4 tableau + numeric correspondence (model run at binary64 inside Coq) with mju_quatIntegrate, mj_integratePos, mj_differentiatePos, mj_nextActivation, mj_Euler and a one-joint mj_RungeKutta of the working tree + oracle on mj_step output",
    "text": ("Proved for all inputs of the model (coq/Model/Integrate.v at R): C05_rk4_tableau - the tableau regenerated on every run from RK4_A/RK4_B (entries read as the exact rationals written in the source) satisfies the 8 order conditions of a 4-stage order-4 explicit RK method and equals the classical tableau (decided in Q). "
             "C05_time - mj_advance sets time' = time + h (Euler, implicit, last stage of RK4). C05_euler_order/C05_euler_scalar - velocity is updated first and positions are integrated with the NEW velocity (slide/hinge: q' = q + h(v + h a)). "
             "C05_quatintegrate_unit/C05_quat_unit - hypothesis-free: for any (also zero or unnormalised) quaternion and any velocity/scale the result of mju_quatIntegrate, and every ball/free quaternion after mj_integratePos, has |norm - 1| <= mjMINVAL = 1e-15 "
             "(exactly 1 unless the input norm was already within 1e-15 of 1, which mju_normalize4 leaves untouched - 'norm 1' of the assignment is weakened to this, it is what the code guarantees). "
             "C05_act_clamped - actlimited and lo <= hi imply lo <= act' <= hi; C05_act_clamp_after - the clamp is applied to the integrated value; C05_filterexact - with act_dot = (ctrl-act)/tau, tau = max(1e-15, dynprm0), the update equals y(h) for the solution of y' = (ctrl-y)/tau, y(0)=act (derivative proved with Coquelicot). "
             "C05_implicit_partial - for an abstract linear solve with (M - hD) x = qfrc the new velocity satisfies (M - hD)(v' - v) = h qfrc; PARTIAL: the LU/LDL solvers, the derivative matrix qDeriv, implicitfast's free-body 6x6 correction and the flex-CG gate are not modelled. "
             "Tied by numeric correspondence on every run (tolerance 2^-36 scaled, bitwise where only + and * occur): mju_quatIntegrate on random/degenerate inputs, mj_integratePos and mj_differentiatePos on generated models with free/ball/slide/hinge joints (unnormalised, zero and nearly-unit quaternions, zero velocities), mj_nextActivation for integrator/filter/filterexact/muscle/user dyntypes with random dynprm (also <= 0) and actrange, mj_Euler with eulerdamp disabled (qvel' and time' bitwise), and one mj_step of mj_RungeKutta on a one-slide-joint spring-damper against the model's rk4 driven by the regenerated tableau. "
             "Observed by oracle on mj_step output for all four integrators: time advanced by exactly timestep (bitwise), quaternion norms within 1e-12, act within actrange, Euler (eulerdamp disabled) qvel' = qvel + h qacc and q' = q + h v' for scalar/free-translation coordinates (1e-12). "
             "C05_actuator_vel - for an actuator with affine gain and bias and no activation the derivative rule of mjd_actuator_vel (gain velocity coefficient times the CLAMPED control plus bias velocity coefficient; 0 when the clamped force sits at either forcerange limit) is the derivative of the applied force wherever it exists, for any forcerange flo < fhi (asymmetric, one-sided); tied on one-hinge models (optionally behind a 3-input PID actuator so that actuator index != control index). "
             "Implicit integrators, oracle with an independently MEASURED derivative: on mjgen models with re-randomised asymmetric/one-sided forceranges, ctrlranges, kv / velocity gains, gear signs, damping, disabled groups, and on custom models (multi-input PID actuators in front of limited ones, tendons across sibling branches and along chains, standalone free body), D = d qfrc/d qvel is measured by central finite differences of mj_forward (one-sided differences must agree, else the case is skipped as a kink) and both (M - hD)(v_new - v) = h(qfrc_smooth + qfrc_constraint) and qDeriv = D are checked row by row (implicitfast: passive + actuator part, full block for standalone free bodies). "
             "RK4 stage times: the one-joint RK4 cases are driven by an mjcb_control callback ctrl = c0 + c1 t + c2 t^2 (two thirds of the cases), and mj_step is compared with the textbook classical RK4 scheme (nodes 0, 1/2, 1/2, 1) computed independently and with the model rk4 whose stage times are t + (row sum of the regenerated tableau) h; the translator also pins the node-coefficient loop of mj_RungeKutta (j = 0 .. i-1) and the assignment d->time = T[i-1]. "
             "Fluid media: custom models get a viscous medium (viscosity > 0, optional wind) and bodies with 2-3 geoms of mixed fluidshape (ellipsoid / none in every order, body 0 always [ellipsoid, none]), mjgen models a dense/viscous medium with the inertia-box model, under the same measured-derivative clauses; NOT covered: density > 0 together with ellipsoid-fluid geoms (on HEAD qDeriv of capsule / cylinder ellipsoid-fluid geoms on non-free bodies differs from the measured derivative by ~1e-2, repro build/scratch/C05/repro_ellipsoid_density.c, reported to the coordinator). "
             "Option combinations: the same step clauses run under extra disableflags (damper, eulerdamp, spring, gravity, actuation, clampctrl, constraint, frictionloss, limit, warmstart, refsafe and random subsets), and for the Euler integrator the clause is (M + h B)(v_new - v) = h(qfrc_smooth + qfrc_constraint) with B the MEASURED joint damping d qfrc_damper_i/d qvel_i (zero when the damper flag removes damping from the dynamics) if eulerdamp is enabled and B = 0 (v_new = v + h qacc) otherwise. "
             "This found two defects of /repo: the velocity-gain term used the unclamped control (fixed in /repo e72d433e4, the revert is kept as a mutant) and derivative terms between dofs that are not on one kinematic chain (cross-branch tendon damping / tendon actuators) are dropped by the sparsity of qDeriv (KNOWN finding C05-F1, emitted only for rows whose missing column is coupled by such a tendon according to input facts of the model). "
             "Not covered: IEEE rounding (all theorems are over R); the DC-motor branch of mj_nextActivation, wrapPeriod/SO3 re-anchoring of integrator activations, sleep filtering, history buffers, plugins; that mj_RungeKutta's loop equals the model's rk4 is tied only on the one-joint system; implicit integrators only through C05_implicit_partial and the oracle."),
    "note": "Trusted: Coq kernel + std-lib real-number axioms (Coquelicot for the derivative); hand-written model Model/Integrate.v; translator translate/tableau2v.py (regex extraction of two initialisers and of the indexing pattern of mj_RungeKutta); unverified float elementary functions Lib/FloatFn.v on the executable side; correspondence harness (gcc, driver c05_integ.c, mjgen.h models).",
    "assumptions": ["IEEE rounding is outside every theorem", "qpos/qvel addresses are consecutive in joint order (true for compiled models; the tie checks it implicitly)",
                    "tie is differential testing on the cases of this run"],
}

TOL = "0x1p-36"
FEATS = [0x7 | 0x40 | 0x80 | 0x400 | 0x1000, 0x7 | 0x8 | 0x40 | 0x80 | 0x400 | 0x800 | 0x1000 | 0x8000,
         0x4 | 0x10 | 0x20 | 0x40 | 0x80 | 0x100, 0x3 | 0x8000, 0x7 | 0x40 | 0x80]


def bits(x):
    return struct.unpack("<Q", struct.pack("<d", x))[0]


def unbits(b):
    return struct.unpack("<d", struct.pack("<Q", b))[0]


def hx(tokens):
    return [unbits(int(t, 16)) for t in tokens]


def close(a, b, tol=1e-12):
    return abs(a - b) <= tol * (1 + abs(a) + abs(b))


def quat_spans(types):
    """(qpos index of quaternion start) for each ball/free joint, plus per-joint (type, padr, vadr)."""
    pa = va = 0
    out = []
    for t in types:
        out.append((t, pa, va))
        pa += 7 if t == 0 else 4 if t == 1 else 1
        va += 6 if t == 0 else 3 if t == 1 else 1
    return out


def run(ctx):
    rng = ctx.rng
    quick = ctx.tier == "quick"
    ctx.coq_props(allowed_axioms=F.STD_AXIOMS, gen=lambda: tableau2v.generate(ctx.repo),
                  extra_targets=["Lib/Num.vo", "Lib/NumF.vo", "Model/Integrate.vo", "Gen/RK4Tableau.vo"])
    if any(k == "translator" for (k, _, _) in ctx.broken):
        # fail-closed translator: still run the implementation oracle below to look for a concrete failing input
        pass
    exe = ctx.driver("c05_integ", ["c05_integ.c"])
    if exe is None:
        return
    # ------------------------------------------------------------------ requests
    nq_cases = 100 if quick else 6000
    qreq = []
    for k in range(nq_cases):
        c = rng.randrange(8)
        q = [rng.uniform(-1, 1) for _ in range(4)]
        n = math.sqrt(sum(x * x for x in q)) or 1.0
        q = [x / n for x in q]
        if c == 0:
            q = [x * rng.choice([2.5, 1e-3, 1e3, 1e-14, 1e-16]) for x in q]
        elif c == 1:
            q = [0.0, 0.0, 0.0, 0.0]
        elif c == 2:
            q[0] *= 1 + rng.choice([1, 2, 3, 8]) * 2.0 ** -52
        v = [rng.uniform(-6, 6) for _ in range(3)]
        if c == 3:
            v = [0.0, 0.0, 0.0]
        elif c == 4:
            v = [x * 1e-16 for x in v]
        elif c == 5:
            v = [x * 50 for x in v]
        s = rng.choice([0.002, 0.004, 0.006, 0.01, -0.01, 1.0, 0.0, rng.uniform(-0.1, 0.1)])
        qreq.append(q + v + [s])
    models = [(rng.randrange(1, 10 ** 6), FEATS[k % len(FEATS)], 1 + rng.randrange(6)) for k in range(4 if quick else 60)]
    reps = 3 if quick else 16
    preq = [(mo, r) for mo in models for r in range(reps)]
    areq = [(mo, r) for mo in models for r in range(reps)]
    ereq = [(mo, r) for mo in models for r in range(2 if quick else 6)]
    sreq = [(mo, integ, 3 if quick else 20, nodamp) for mo in models for integ in (0, 1, 2, 3) for nodamp in ((1, 0) if integ == 0 else (0,))]
    rreq = []
    for k in range(20 if quick else 600):
        tc = [0.0, 0.0, 0.0] if k % 3 == 0 else [rng.uniform(-5, 5), rng.uniform(-200, 200), rng.uniform(-2000, 2000)]     # control callback c0 + c1 t + c2 t^2
        rreq.append([rng.uniform(0, 50), rng.uniform(0, 3), rng.uniform(0.2, 5), rng.choice([0.001, 0.002, 0.01, 0.05]), rng.uniform(-1, 1), rng.uniform(-3, 3)] + tc)
    ireq = [(mo, r, integ) for mo in models for r in range(2 if quick else 5) for integ in (2, 3)]
    # custom models (driver c05_custom): multi-input PID actuators in front of limited ones (actuator index != control index),
    # tendons across sibling branches / along a chain, asymmetric and one-sided force / control ranges, standalone free body
    ireq += [((rng.randrange(1, 10 ** 6), 0xFFFFFFFF, 0), r, integ) for k in range(5 if quick else 40) for r in range(2) for integ in (2, 3)]
    # option combinations (disableflags) and the Euler integrator with implicit joint damping
    DS = {"constraint": 1, "equality": 2, "frictionloss": 4, "limit": 8, "contact": 16, "spring": 32, "damper": 64, "gravity": 128,
          "clampctrl": 256, "warmstart": 512, "actuation": 2048, "refsafe": 4096, "eulerdamp": 32768}
    combos = [DS["damper"], DS["eulerdamp"], DS["damper"] | DS["eulerdamp"], 0, DS["spring"] | DS["damper"], DS["actuation"], DS["clampctrl"],
              DS["gravity"] | DS["damper"], DS["constraint"], DS["frictionloss"] | DS["limit"], DS["actuation"] | DS["damper"], DS["warmstart"] | DS["refsafe"]]
    ireq = [(mo, r, integ, 0) for (mo, r, integ) in ireq]
    base_models = [mo for (mo, r, integ, fl) in ireq if r == 0 and integ == 2]
    k = 0
    for mo in base_models:
        for j in range(3 if quick else 5):
            fl = combos[k % len(combos)] if j < 2 or quick else sum(b for b in DS.values() if rng.random() < 0.25)
            ireq.append((mo, 10 + j, 0, fl)); k += 1           # Euler
        for integ in (2, 3):
            fl = combos[(k * 5 + integ) % len(combos)] if quick else sum(b for b in DS.values() if rng.random() < 0.25)
            ireq.append((mo, 20 + integ, integ, fl)); k += 1
    vreq = []
    for k in range(60 if quick else 1500):
        flo = -rng.uniform(0.05, 2) if rng.random() < 0.7 else 0.0
        fhi = rng.uniform(0.05, 2) if (rng.random() < 0.7 or flo == 0.0) else 0.0
        clo, chi = -rng.uniform(0.1, 0.8), rng.uniform(0.5, 1.5)
        vreq.append((rng.randrange(2), rng.randrange(2), clo, chi, rng.randrange(2),
                     [flo, fhi, rng.uniform(-2, 2), rng.uniform(-1, 1), rng.uniform(-1.5, 1.5), rng.uniform(-1, 1), rng.uniform(-2, 0), -rng.uniform(0, 3),
                      rng.uniform(-1, 1), rng.uniform(-3, 3), rng.uniform(-2.5, 2.5)]))
    inp = []
    for a in qreq:
        inp.append("Q " + " ".join("%x" % bits(x) for x in a))
    for (mo, r) in preq:
        inp.append("P %d %d %d %d" % (mo[0], mo[1], mo[2], r))
    for (mo, r) in areq:
        inp.append("A %d %d %d %d" % (mo[0], mo[1], mo[2], r))
    for (mo, r) in ereq:
        inp.append("E %d %d %d %d" % (mo[0], mo[1], mo[2], r))
    for (mo, integ, ns, nodamp) in sreq:
        inp.append("S %d %d %d %d %d %d" % (mo[0], mo[1], mo[2], integ, ns, nodamp))
    for (mo, r, integ, dfl) in ireq:
        inp.append("I %d %d %d %d %d %d" % (mo[0], mo[1], mo[2], r, integ, dfl))
    for (pre_, cl, clo, chi, fl, a) in vreq:
        inp.append("V %d %d %x %x %d %s" % (pre_, cl, bits(clo), bits(chi), fl, " ".join("%x" % bits(x) for x in a)))
    for a in rreq:
        inp.append("R " + " ".join("%x" % bits(x) for x in a[:6]) + " 1 " + " ".join("%x" % bits(x) for x in a[6:]))
    import time as _t
    _t0 = _t.time()
    rc, out, err = ctx.run(exe, "\n".join(inp) + "\n", timeout=900)
    ctx.cov["support"]["driver_wall_s"] = round(_t.time() - _t0, 1)
    ctx.cov["support"]["coq_props_wall_s"] = round(_t0 - ctx.t0, 1)
    lines = out.split("\n")
    if rc != 0 or len(lines) < len(inp):
        ctx.broken.append(("correspondence", "driver c05_integ failed", "rc=%s lines=%d/%d %s" % (rc, len(lines), len(inp), err[-800:])))
        return
    from concurrent.futures import ThreadPoolExecutor
    _pool = ThreadPoolExecutor(max_workers=2)
    _pending = []
    pos = 0
    pre = ("From Coq Require Import ZArith List Bool PrimFloat QArith.\nImport ListNotations.\nFrom MJV Require Import Lib.Num Lib.NumF Model.Integrate Gen.RK4Tableau.\n"
           "Definition fl4 (q : float*float*float*float) := let '(a,b,c,d) := q in [a;b;c;d].\n"
           "Definition js_of (l : list Z) := map jtype_of_Z l.\n"
           "Fixpoint fbits_list (a b : list float) : bool := match a, b with nil, nil => true | x :: r, y :: s => andb (fbits_eq x y) (fbits_list r s) | _, _ => false end.\n"
           "Definition tol : float := %s%%float.\n" % TOL)
    ncorr = 0
    nontriv = 0
    # ------------------------------------------------------------------ Q
    cases = []
    for a in qreq:
        o = hx(lines[pos].split()); pos += 1
        n = math.sqrt(sum(x * x for x in o))
        if not (abs(n - 1) <= 1e-12):
            ctx.violation("impl_violation", {"op": "mju_quatIntegrate", "args_bits": ["%016x" % bits(x) for x in a]}, expected="unit quaternion (1e-12)",
                          observed=o, signature={"site": "mju_quatIntegrate"}, theorem="C05_quatintegrate_unit")
        cases.append("((%s,%s,%s,%s), (%s,%s,%s), %s, %s)" % (tuple(F.fhex(x) for x in a) + (F.flist(o),)))
        if any(a[4:7]) and a[7] != 0:
            nontriv += 1
    _fut = _pool.submit(ctx.coq_eval, "c05_quat", pre, cases, "fun c => match c with (q, v, s, o) => fclose_list tol (fl4 (quatIntegrate (T:=float) q v s)) o end",
                         pre="Open Scope float_scope.")
    def _rep(i, cases=cases, kept=(kept if 'kept' in dir() else None)):
        ctx.violation("correspondence", {"op": "mju_quatIntegrate", "args_bits": ["%016x" % bits(x) for x in qreq[i]]}, expected="Model/Integrate.v quatIntegrate",
                      observed=cases[i][-200:], found_input=False, theorem="correspondence mju_quatIntegrate")
    _pending.append((_fut, _rep))
    # ------------------------------------------------------------------ P
    cases = []
    kept = []
    for (mo, r) in preq:
        line = lines[pos]; pos += 1
        case = {"op": "mj_integratePos", "model": {"seed": mo[0], "feat": mo[1], "nbody": mo[2]}, "rep": r}
        parts = line.split("|")
        if line.startswith("ERR") or len(parts) != 6:
            ctx.broken.append(("correspondence", "driver reply unusable", line[:200] + " for " + str(case)))
            continue
        types = list(map(int, parts[0].split()))[1:]
        qpos = hx(parts[1].split()[1:]); qvel = hx(parts[2].split()[1:])
        dt = hx(parts[3].split())[0]; outp = hx(parts[4].split()); dv = hx(parts[5].split())
        for (t, pa, va) in quat_spans(types):
            if t <= 1:
                a = pa + (3 if t == 0 else 0)
                n = math.sqrt(sum(x * x for x in outp[a:a + 4]))
                if not abs(n - 1) <= 1e-12:
                    ctx.violation("impl_violation", case, expected="unit quaternions after mj_integratePos", observed={"joint_type": t, "norm": n},
                                  signature={"site": "mj_integratePos"}, theorem="C05_quat_unit")
                nontriv += 1
            else:
                if not close(outp[pa], qpos[pa] + dt * qvel[va]):
                    ctx.violation("impl_violation", case, expected="q + dt*v", observed={"q": qpos[pa], "v": qvel[va], "dt": dt, "out": outp[pa]},
                                  signature={"site": "mj_integratePos"}, theorem="C05_euler_scalar")
        cases.append("(%s, %s, %s, %s, %s, %s)" % (F.zlist(types), F.flist(qpos), F.flist(qvel), F.fhex(dt), F.flist(outp), F.flist(dv)))
        kept.append(case)
    chk = ("fun c => match c with (ts, qp, qv, dt, o, dv) => let js := js_of ts in "
           "fclose_list tol (integratePos (T:=float) js qp qv dt) o && fclose_list 0x1p-28 (differentiatePos (T:=float) js dt qp o) dv end")
    _fut = _pool.submit(ctx.coq_eval, "c05_pos", pre, cases, chk, shard=40, pre="Open Scope float_scope.")
    def _rep(i, cases=cases, kept=(kept if 'kept' in dir() else None)):
        ctx.violation("correspondence", kept[i], expected="Model/Integrate.v integratePos/differentiatePos", observed=cases[i][:300], found_input=False,
                      theorem="correspondence mj_integratePos")
    _pending.append((_fut, _rep))
    # ------------------------------------------------------------------ A
    cases = []
    kept = []
    for (mo, r) in areq:
        line = lines[pos]; pos += 1
        t = line.split()
        if line.startswith("ERR") or not t:
            ctx.broken.append(("correspondence", "driver reply unusable", line[:200]))
            continue
        n = int(t[0])
        for k in range(n):
            f = t[1 + 9 * k: 10 + 9 * k]
            dyn, lim = int(f[0]), int(f[5])
            h, act, adot, prm0 = hx(f[1:5]); lo, hi, res = hx(f[6:9])
            case = {"op": "mj_nextActivation", "model": {"seed": mo[0], "feat": mo[1], "nbody": mo[2]}, "rep": r, "dyntype": dyn,
                    "h": h, "act": act, "act_dot": adot, "dynprm0": prm0, "actlimited": lim, "actrange": [lo, hi]}
            sig = {"site": "mj_nextActivation"}
            # independent oracle: documented update, then clamp
            if dyn == 3:
                tau = max(1e-15, prm0)
                exp_ = act + adot * tau * (1 - math.exp(-h / tau))
            else:
                exp_ = act + adot * h
            if lim:
                exp_ = min(max(exp_, lo), hi)
                if not (lo <= res <= hi):
                    ctx.violation("impl_violation", case, expected="act within actrange", observed=res, signature=sig, theorem="C05_act_clamped")
            if not close(res, exp_, 1e-11):
                ctx.violation("impl_violation", case, expected=exp_, observed=res, signature=sig, theorem="C05_filterexact" if dyn == 3 else "C05_act_clamp_after")
            cases.append("(%s, %s, %s, %s, %s, %s, %s, %s, %s)" % ("true" if dyn == 3 else "false", F.fhex(h), F.fhex(act), F.fhex(adot), F.fhex(prm0),
                                                               "true" if lim else "false", F.fhex(lo), F.fhex(hi), F.fhex(res)))
            kept.append(case)
            nontriv += 1 if (lim and (res == lo or res == hi)) or dyn == 3 else 0
    chk = ("fun c => match c with (ex, h, a, ad, p0, lim, lo, hi, r) => let m := nextActivation (T:=float) ex h a ad p0 lim lo hi in "
           "if ex then fclose 0x1p-40 m r else fbits_eq m r end")
    _fut = _pool.submit(ctx.coq_eval, "c05_act", pre, cases, chk, pre="Open Scope float_scope.")
    def _rep(i, cases=cases, kept=(kept if 'kept' in dir() else None)):
        ctx.violation("correspondence", kept[i], expected="Model/Integrate.v nextActivation", observed=cases[i], found_input=False,
                      theorem="correspondence mj_nextActivation")
    _pending.append((_fut, _rep))
    nact = len(cases)
    # ------------------------------------------------------------------ E
    cases = []
    kept = []
    for (mo, r) in ereq:
        line = lines[pos]; pos += 1
        case = {"op": "mj_Euler (eulerdamp disabled)", "model": {"seed": mo[0], "feat": mo[1], "nbody": mo[2]}, "rep": r}
        parts = line.split("|")
        if "ERR" in line or len(parts) != 9:
            ctx.broken.append(("correspondence", "driver reply unusable", line[:200] + " for " + str(case)))
            continue
        types = list(map(int, parts[0].split()))[1:]
        h = hx(parts[1].split())[0]
        qpos = hx(parts[2].split()[1:]); qvel = hx(parts[3].split()[1:]); qacc = hx(parts[4].split())
        t0 = hx(parts[5].split())[0]; qpos1 = hx(parts[6].split()); qvel1 = hx(parts[7].split()); t1 = hx(parts[8].split())[0]
        sig = {"site": "mj_Euler"}
        if t1 != t0 + h:
            ctx.violation("impl_violation", case, expected="time + h = %r" % (t0 + h), observed=t1, signature=sig, theorem="C05_time")
        for i in range(len(qvel)):
            if not close(qvel1[i], qvel[i] + h * qacc[i]):
                ctx.violation("impl_violation", case, expected="qvel + h*qacc", observed={"i": i, "qvel": qvel[i], "qacc": qacc[i], "h": h, "out": qvel1[i]}, signature=sig, theorem="C05_euler_order")
                break
        for (t, pa, va) in quat_spans(types):
            npos = 3 if t == 0 else 0 if t == 1 else 1
            for k in range(npos):
                if not close(qpos1[pa + k], qpos[pa + k] + h * qvel1[va + k]):
                    ctx.violation("impl_violation", case, expected="qpos + h*qvel_new", observed={"joint_type": t, "qpos": qpos[pa + k], "qvel_new": qvel1[va + k], "qvel_old": qvel[va + k], "out": qpos1[pa + k]},
                                  signature=sig, theorem="C05_euler_order")
        cases.append("(%s, %s, %s, %s, %s, %s, %s, %s, %s)" % (F.zlist(types), F.fhex(h), F.flist(qpos), F.flist(qvel), F.flist(qacc), F.fhex(t0),
                                                           F.flist(qpos1), F.flist(qvel1), F.fhex(t1)))
        kept.append(case)
        nontriv += 1
    chk = ("fun c => match c with (ts, h, qp, qv, qa, t0, qp1, qv1, t1) => "
           "let s := euler (T:=float) (js_of ts) h {| qpos := qp; qvel := qv; time := t0 |} qa in "
           "fbits_list (qvel s) qv1 && fbits_eq (time s) t1 && fclose_list tol (qpos s) qp1 end")
    _fut = _pool.submit(ctx.coq_eval, "c05_euler", pre, cases, chk, shard=20, pre="Open Scope float_scope.")
    def _rep(i, cases=cases, kept=(kept if 'kept' in dir() else None)):
        ctx.violation("correspondence", kept[i], expected="Model/Integrate.v euler", observed=cases[i][:300], found_input=False, theorem="correspondence mj_Euler")
    _pending.append((_fut, _rep))
    # ------------------------------------------------------------------ S (oracle only)
    nsteps_checked = 0
    inames = ["Euler", "RK4", "implicit", "implicitfast"]
    for (mo, integ, ns, nodamp) in sreq:
        line = lines[pos]; pos += 1
        case = {"op": "mj_step", "model": {"seed": mo[0], "feat": mo[1], "nbody": mo[2]}, "integrator": inames[integ], "nsteps": ns, "eulerdamp_disabled": nodamp}
        if "ERR" in line:
            ctx.broken.append(("correspondence", "mj_step raised mju_error on a generated model", str(case)))
            continue
        for sidx, blk in enumerate(line.split("#")):
            parts = blk.split("|")
            if len(parts) != 10:
                ctx.broken.append(("correspondence", "driver reply unusable", blk[:200] + " for " + str(case)))
                break
            types = list(map(int, parts[0].split()))[1:]
            h = hx(parts[1].split())[0]
            t0, t1 = hx(parts[2].split())
            qpos = hx(parts[3].split()[1:]); qvel = hx(parts[4].split()[1:])
            qpos1 = hx(parts[5].split()); qvel1 = hx(parts[6].split()); qacc1 = hx(parts[7].split())
            at = parts[8].split(); na = int(at[0])
            nwarn = int(parts[9].split()[0])
            sig = {"site": "mj_step", "integrator": inames[integ]}
            c2 = dict(case, step=sidx)
            if nwarn:
                continue      # a bad-value reset happened: C30's business
            nsteps_checked += 1
            if t1 != t0 + h:
                ctx.violation("impl_violation", c2, expected="time advanced by exactly timestep: %r" % (t0 + h), observed=t1, signature=sig, theorem="C05_time")
            for (t, pa, va) in quat_spans(types):
                if t <= 1:
                    a = pa + (3 if t == 0 else 0)
                    n = math.sqrt(sum(x * x for x in qpos1[a:a + 4]))
                    if not abs(n - 1) <= 1e-12:
                        ctx.violation("impl_violation", c2, expected="unit quaternion (1e-12) after mj_step", observed={"joint_type": t, "norm": n}, signature=sig, theorem="C05_quat_unit")
                if integ != 1:
                    npos = 3 if t == 0 else 0 if t == 1 else 1
                    for k in range(npos):
                        if not close(qpos1[pa + k], qpos[pa + k] + h * qvel1[va + k]):
                            ctx.violation("impl_violation", c2, expected="qpos + h*qvel_new", observed={"joint_type": t, "qpos": qpos[pa + k], "qvel_new": qvel1[va + k], "qvel_old": qvel[va + k], "out": qpos1[pa + k]},
                                          signature=sig, theorem="C05_euler_order")
            if integ == 0 and nodamp:
                for i in range(len(qvel)):
                    if not close(qvel1[i], qvel[i] + h * qacc1[i]):
                        ctx.violation("impl_violation", c2, expected="qvel + h*qacc", observed={"i": i, "qvel": qvel[i], "qacc": qacc1[i], "out": qvel1[i]}, signature=sig, theorem="C05_euler_order")
                        break
            for k in range(na):
                lim = int(at[1 + 4 * k]); lo, hi, act = hx(at[2 + 4 * k: 5 + 4 * k])
                if lim and not (lo <= act <= hi):
                    ctx.violation("impl_violation", c2, expected="act within actrange [%r,%r]" % (lo, hi), observed=act, signature=sig, theorem="C05_act_clamped")
    # ------------------------------------------------------------------ I (implicit integrators, oracle only)
    # documented scheme: (M - h D)(v' - v) = h (qfrc_smooth + qfrc_constraint) with D = d qfrc_smooth / d qvel (implicit) resp. the
    # passive + actuator part of it (implicitfast; full block for standalone free bodies).  D is MEASURED by central differences
    # of mj_forward, independently of the engine's analytic derivative; cases where one-sided differences disagree (a force
    # clamp or another kink within eps) are skipped and counted.
    nimp = nimp_kink = 0
    EPS = 1e-6
    neuler = 0
    for (mo, r, integ, dfl) in ireq:
        line = lines[pos]; pos += 1
        case = {"op": "mj_step", "model": ({"c05_custom_seed": mo[0]} if mo[1] == 0xFFFFFFFF else {"seed": mo[0], "feat": mo[1], "nbody": mo[2]}), "rep": r, "integrator": inames[integ], "extra_disableflags": dfl,
                "note": "driver mode I: custom model (multi-input PID actuators, cross-branch tendons, asymmetric ranges) or mjgen model with derivative-relevant parameters re-randomised"}
        parts = line.split("|")
        if "ERR" in line or len(parts) != 22:
            ctx.broken.append(("correspondence", "driver reply unusable (mode I)", line[:200] + " for " + str(case)))
            continue
        nv = int(parts[0]); h = hx(parts[1].split())[0]
        v0 = hx(parts[2].split()); v1 = hx(parts[3].split()); f = hx(parts[4].split()); Md = hx(parts[5].split())
        fb = list(map(int, parts[6].split()))
        S0 = hx(parts[7].split()); P0 = hx(parts[8].split())
        Sp, Sm, Pp, Pm, QD = (hx(parts[k].split()) for k in (9, 10, 11, 12, 13))
        if int(parts[14].split()[0]) or nv == 0:
            continue
        maskA = list(map(int, parts[15].split()))
        pat = parts[16].split()
        tsets = [set(map(int, t.split())) for t in parts[17].split(";") if t.strip()]

        def outside_pattern(k, i):      # (k,i) coupled by a velocity-dependent tendon force but absent from qDeriv's sparsity
            return pat[k][i] == "0" and any(k in ts and i in ts for ts in tsets)

        def classify(k, cols):
            if any(outside_pattern(k, i) for i in cols):
                return "derivative-outside-tree-sparsity-dropped"
            return "other"
        kinks = []

        def fd(Fp, Fm, F0):
            D = [0.0] * (nv * nv)
            for k in range(nv):
                for i in range(nv):
                    dc = (Fp[k * nv + i] - Fm[k * nv + i]) / (2 * EPS)
                    dp = (Fp[k * nv + i] - F0[k]) / EPS
                    dm = (F0[k] - Fm[k * nv + i]) / EPS
                    if abs(dp - dm) > 1e-3 * (1 + abs(dc)):
                        kinks.append((k, i))
                    D[k * nv + i] = dc
            return D
        Dfull = fd(Sp, Sm, S0)
        Dfast = fd(Pp, Pm, P0)
        if kinks:
            nimp_kink += 1
            continue
        Dref = Dfull if integ == 2 else Dfast
        if integ == 0:
            # Euler: joint damping is integrated implicitly iff eulerdamp is enabled; the damping that EXISTS in the dynamics is
            # measured (d qfrc_damper_i / d qvel_i, zero when the damper flag disables passive damping): (M + h B)(v' - v) = h f
            B0_, Bp_, Bm_ = hx(parts[18].split()), hx(parts[19].split()), hx(parts[20].split())
            flags = int(parts[21].split()[0])
            D = [0.0] * (nv * nv)
            for i in range(nv):
                dc = (Bp_[i] - Bm_[i]) / (2 * EPS)
                if abs((Bp_[i] - B0_[i]) / EPS - (B0_[i] - Bm_[i]) / EPS) > 1e-3 * (1 + abs(dc)):
                    kinks.append((i, i))
                D[i * nv + i] = dc if not (flags & 32768) else 0.0
            if kinks:
                nimp_kink += 1
                continue
            QD = D[:]           # no qDeriv in the Euler integrator
            Dref = D
            neuler += 1
        elif integ == 2:
            D = Dfull
        else:
            D = [Dfull[k * nv + i] if (fb[k] >= 0 and fb[k] == fb[i]) else Dfast[k * nv + i] for k in range(nv) for i in range(nv)]
            asym = max([abs(D[k * nv + i] - D[i * nv + k]) for k in range(nv) for i in range(nv) if not (fb[k] >= 0 and fb[k] == fb[i])] or [0.0])
            if asym > 1e-5 * (1 + max(abs(x) for x in D)):
                nimp_kink += 1       # implicitfast symmetrises: outside the simple statement
                continue
        nimp += 1
        dscale = 1 + max(abs(x) for x in D)
        worst = {}
        for k in range(nv):
            acc = -h * f[k]
            sc = abs(h * f[k])
            for i in range(nv):
                a = Md[k * nv + i] - h * D[k * nv + i]
                acc += a * (v1[i] - v0[i])
                sc += abs(a * (v1[i] - v0[i]))
            if abs(acc) > 1e-6 * sc + 1e-9 * h * dscale:
                wrongcols = [i for i in range(nv) if abs(QD[k * nv + i] - D[k * nv + i]) > 1e-5 * dscale] or [k]
                cls = classify(k, wrongcols)
                rel = abs(acc) / (sc + 1e-300)
                if cls not in worst or rel > worst[cls][1]:
                    worst[cls] = (k, rel, acc)
        for cls in sorted(worst):
            k = worst[cls][0]
            ctx.violation("impl_violation", case, expected=("(M + h B)(v' - v) = h (qfrc_smooth + qfrc_constraint), B = measured joint damping if eulerdamp is enabled else 0 (v' = v + h qacc)" if integ == 0 else
                                    "(M - h D)(v' - v) = h (qfrc_smooth + qfrc_constraint) with D measured by finite differences of mj_forward"),
                          observed={"dof": k, "residual": worst[cls][2], "relative": worst[cls][1], "D_row_fd": D[k * nv:(k + 1) * nv], "qDeriv_row_engine": QD[k * nv:(k + 1) * nv],
                                    "v": v0[k], "v_new": v1[k], "h": h}, signature={"site": "mj_Euler" if integ == 0 else "mj_implicit", "class": cls, "integrator": inames[integ]}, theorem="C05_implicit_partial")
        # the engine's analytic derivative itself against the measured one
        seen = set()
        for k in range(nv):
            bad = [i for i in range(nv) if abs(QD[k * nv + i] - Dref[k * nv + i]) > 1e-5 * dscale]
            if bad:
                cls = classify(k, bad)
                if cls in seen:
                    continue
                seen.add(cls)
                ctx.violation("impl_violation", case, expected="qDeriv = d qfrc / d qvel (finite differences of mj_forward)",
                              observed={"row": k, "cols": bad[:6], "qDeriv": [QD[k * nv + i] for i in bad[:6]], "fd": [Dref[k * nv + i] for i in bad[:6]]},
                              signature={"site": "mjd_smooth_vel", "class": cls, "integrator": inames[integ]}, theorem="C05_implicit_partial")
        nontriv += 1
    # ------------------------------------------------------------------ V (actuator force and its velocity derivative, scalar tie)
    cases = []
    kept = []
    nsat = 0
    for (pre_, cl, clo, chi, fl, a) in vreq:
        line = lines[pos]; pos += 1
        case = {"op": "mjd_actuator_vel one hinge", "pid_actuator_in_front": pre_, "ctrllimited": cl, "ctrlrange": [clo, chi], "forcelimited": fl,
                "forcerange": a[0:2], "gainprm": a[2:5], "biasprm": a[5:8], "qpos": a[8], "qvel": a[9], "ctrl": a[10]}
        if line.startswith("ERR"):
            ctx.broken.append(("correspondence", "one-hinge actuator model did not compile", line[:200] + str(case)))
            continue
        t = line.split()
        force, qd, length = hx(t[0:3])
        # independent oracle: closed form of the applied force and of its derivative
        u = min(max(a[10], clo), chi) if cl else a[10]
        raw = (a[2] + a[3] * length + a[4] * a[9]) * u + (a[5] + a[6] * length + a[7] * a[9])
        f_exp = min(max(raw, a[0]), a[1]) if fl else raw
        sat = fl and not (a[0] < raw < a[1])
        nsat += sat
        d_exp = 0.0 if sat else a[4] * u + a[7]
        if abs(raw - a[0]) > 1e-9 and abs(raw - a[1]) > 1e-9:
            if not close(force, f_exp, 1e-10):
                ctx.violation("impl_violation", case, expected={"force": f_exp}, observed={"force": force}, signature={"site": "mj_fwdActuation", "class": "affine force"}, theorem="C05_actuator_vel")
            if not close(qd, d_exp, 1e-10):
                ctx.violation("impl_violation", case, expected={"d force / d velocity": d_exp, "force": f_exp, "clamped ctrl": u}, observed={"qDeriv": qd},
                              signature={"site": "mjd_actuator_vel", "class": "affine force derivative"}, theorem="C05_actuator_vel")
        cases.append("(%s, %s, %s, %s, (%s), %s, %s, %s)" % ("true" if cl else "false", F.fhex(clo), F.fhex(chi), "true" if fl else "false",
                                                            ", ".join(F.fhex(x) for x in a), F.fhex(length), F.fhex(force), F.fhex(qd)))
        kept.append(case)
        nontriv += 1 if sat else 0
    chk = ("fun c => match c with (cl, clo, chi, fl, (flo, fhi, g0, g1, g2, b0, b1, b2, q, v, ctrl), len, force, qd) => "
           "let u := act_input (T:=float) cl clo chi ctrl in let f := act_force (T:=float) fl flo fhi g0 g1 g2 b0 b1 b2 len u v in "
           "fclose 0x1p-40 f force && fclose 0x1p-40 (act_force_vel (T:=float) fl flo fhi g2 b2 u f) qd end")
    _fut = _pool.submit(ctx.coq_eval, "c05_actvel", pre, cases, chk, pre="Open Scope float_scope.")
    def _rep(i, cases=cases, kept=(kept if 'kept' in dir() else None)):
        ctx.violation("correspondence", kept[i], expected="Model/Integrate.v act_force / act_force_vel", observed=cases[i], found_input=False,
                      theorem="correspondence mjd_actuator_vel")
    _pending.append((_fut, _rep))
    # ------------------------------------------------------------------ R (RK4 loop on a one-joint system)
    cases = []
    for a in rreq:
        o = hx(lines[pos].split()) if not lines[pos].startswith("ERR") else None
        pos += 1
        if o is None:
            ctx.broken.append(("correspondence", "one-joint RK model did not compile", str(a)))
            continue
        k_, b_, m_, h, q, v, c0, c1, c2 = a
        if o[2] != 0.25 + h:
            ctx.violation("impl_violation", {"op": "mj_step RK4 one joint", "args": a}, expected=0.25 + h, observed=o[2], signature={"site": "mj_step", "integrator": "RK4"}, theorem="C05_time")
        # independent oracle: on a linear system every 4-stage order-4 RK method equals the degree-4 Taylor polynomial of exp(hA)
        mass = o[3]
        A = [[0.0, 1.0], [-k_ / mass, -b_ / mass]]
        term = [q, v]
        acc = [q, v]
        for n in range(1, 5):
            term = [h * (A[0][0] * term[0] + A[0][1] * term[1]) / n, h * (A[1][0] * term[0] + A[1][1] * term[1]) / n]
            acc = [acc[0] + term[0], acc[1] + term[1]]
        if c0 == c1 == c2 == 0 and not (close(o[0], acc[0], 1e-9) and close(o[1], acc[1], 1e-9)):
            ctx.violation("impl_violation", {"op": "mj_step RK4, one slide joint, spring k damper b mass m", "k_b_m_h_q_v": a},
                          expected={"taylor4": acc}, observed={"qpos": o[0], "qvel": o[1]}, signature={"site": "mj_RungeKutta"}, theorem="C05_rk4_tableau")
        # independent oracle: the classical RK4 scheme (nodes 0, 1/2, 1/2, 1) on q'' = (-k q - b v + u(t)) / m, u(t) from the control callback
        def rhs(t, y):
            return [y[1], (-k_ * y[0] - b_ * y[1] + (c0 + c1 * t + c2 * t * t)) / mass]
        t0_ = 0.25
        y0 = [q, v]
        k1 = rhs(t0_, y0)
        k2 = rhs(t0_ + h / 2, [y0[i] + h / 2 * k1[i] for i in range(2)])
        k3 = rhs(t0_ + h / 2, [y0[i] + h / 2 * k2[i] for i in range(2)])
        k4 = rhs(t0_ + h, [y0[i] + h * k3[i] for i in range(2)])
        yc = [y0[i] + h / 6 * (k1[i] + 2 * k2[i] + 2 * k3[i] + k4[i]) for i in range(2)]
        if not (close(o[0], yc[0], 1e-9) and close(o[1], yc[1], 1e-9)):
            ctx.violation("impl_violation", {"op": "mj_step RK4, one slide joint (spring k, damper b, mass m) driven by mjcb_control: ctrl = c0 + c1 t + c2 t^2, time 0.25",
                                             "k_b_m_h_q_v_c0_c1_c2": a}, expected={"classical_rk4": yc}, observed={"qpos": o[0], "qvel": o[1]},
                          signature={"site": "mj_RungeKutta", "class": "stage times / classical scheme"}, theorem="C05_rk4_tableau")
        cases.append("(%s, %s, %s, %s, %s, %s, %s, %s, %s, (%s, %s, %s))" % (F.fhex(k_), F.fhex(b_), F.fhex(o[3]), F.fhex(h), F.fhex(q), F.fhex(v), F.fhex(o[0]), F.fhex(o[1]), F.fhex(o[2]),
                                                                         F.fhex(c0), F.fhex(c1), F.fhex(c2)))
    chk = ("fun c => match c with (k, b, m, h, q, v, q1, v1, t1, (c0, c1, c2)) => "
           "let f := fun (t : float) (qp qv ac : list float) => ([ (nadd (nopp (nadd (nmul k (nth O qp 0)) (nmul b (nth O qv 0)))) (c0 + c1 * t + c2 * t * t)) / m ], @nil float) in "
           "match rk4 (T:=float) [JSlide] h (rows3 (map q2T RK4_A)) (map q2T RK4_B) f 0x1p-2 [q] [v] [] with "
           "(qp, qv, _, t) => fclose 0x1p-30 (nth O qp 0) q1 && fclose 0x1p-30 (nth O qv 0) v1 && fbits_eq t t1 end end")
    _fut = _pool.submit(ctx.coq_eval, "c05_rk", pre, cases, chk, pre="Open Scope float_scope.")
    def _rep(i, cases=cases, kept=(kept if 'kept' in dir() else None)):
        ctx.violation("correspondence", {"op": "mj_RungeKutta one slide joint", "k_b_m_h_q_v": rreq[i]}, expected="Model/Integrate.v rk4 with the regenerated tableau",
                      observed=cases[i], found_input=False, theorem="correspondence mj_RungeKutta")
    _pending.append((_fut, _rep))
    for (_fut, _rep) in _pending:
        fails = _fut.result()
        for i in fails[:3]:
            _rep(i)
        ncorr += len(fails)
    _pool.shutdown()
    ctx.cov["evaluations"] = len(qreq) + len(preq) + nact + len(ereq) + nsteps_checked + len(rreq) + nimp + len(vreq)
    ctx.cov["distinct_nontrivial"] = nontriv
    ctx.cov["rule"] = ("mju_quatIntegrate: random unit/unnormalised/zero/nearly-unit quaternions x random/zero/tiny/large velocities x scales; "
                       "mj_integratePos/mj_differentiatePos/mj_Euler/mj_step: %d generated models (free, ball, slide, hinge joints; actuators with activation dynamics) x repetitions; "
                       "mj_nextActivation: every activation with random dyntype, dynprm0 (also 1e-20, 0, negative), actrange, act_dot; one-joint RK4: random k, b, m, h, q, v; "
                       "non-trivial = quaternion updates with non-zero rotation, ball/free joints integrated, activations that hit the clamp or use filterexact, Euler steps" % len(models))
    ctx.cov["samples"] = [{"op": "mju_quatIntegrate", "args": qreq[0]}, {"op": "mj_integratePos", "model": preq[0][0]}, {"op": "rk4 one joint", "args": rreq[0]}]
    ctx.cov["correspondence_disagreements"] = ncorr
    ctx.cov["support"]["mj_step_steps_checked_by_oracle"] = nsteps_checked
    ctx.cov["support"]["implicit_steps_checked_against_finite_difference_derivative"] = nimp
    ctx.cov["support"]["implicit_steps_skipped_at_a_kink"] = nimp_kink
    ctx.cov["support"]["euler_damping_steps_checked"] = neuler
    ctx.cov["support"]["one_hinge_actuator_cases_saturated"] = nsat
    ctx.cov["explanation"] = ("11 theorems proved over R for all inputs of the model; tableau regenerated from source and decided in Q; model tied to the working tree by "
                              "%d numeric comparisons; %d mj_step steps checked by the oracle" % (len(qreq) + len(preq) + nact + len(ereq) + len(rreq), nsteps_checked))
