"""C43 — MJX reproduces the MuJoCo C engine (kernel level: three-way correspondence C function / Coq model / MJX function)."""
import json, math, os, subprocess, time
from concurrent.futures import ThreadPoolExecutor
import framework as F
import c12_common as CU
import c43_models as MM

META = {
    "id": "C43", "category": "proof", "design_ref": "DESIGN.md section 4, C43",
    "technique": "three-way float correspondence: the Gallina kernels proved for C12 (constraint row law), C13 (sphere/capsule/plane colliders, "
                 "contact frame), C05 (Euler advance, activation update), C24 (quaternion algebra) are evaluated at binary64 inside Coq on the same "
                 "inputs as BOTH the C function built from the working tree and the MJX function imported from the working tree's mjx/; "
                 "Coq proofs over R that the MJX formulation of the row law / plane-sphere collider equals the C formulation; whole-pipeline "
                 "comparison of repo-MJX with the tree's C engine on mjSpec-built models (support)",
    "text": "filled in below",
    "note": "Trusted: Coq kernel + standard-library real-number axioms; hand-written models Model/ConstraintUpdate.v, Model/CollidePrim.v, Model/Integrate.v, "
            "Model/Spatial.v (owned by C12/C13/C05/C24) and Model/MjxKernels.v; drivers c12_update.c, c13_prim.c, c05_integ.c, c43_dump.c (C side, built "
            "from the tree), c43_mjx.py (MJX side; jax/numpy and the mujoco wheel 3.13.0 as the library MJX imports: MjModel container and XML parser); "
            "the MJCF printer of c43_models.py (checked per model by comparing the two compiled models field by field).",
    "assumptions": ["theorems are over the real numbers; IEEE rounding is outside every theorem (float runs compared at 2^-30 scaled)",
                    "MJX runs in float64 on the CPU (jax_enable_x64); its default float32 mode is not examined",
                    "whole-pipeline runs use models parsed from MJCF by the installed wheel (3.13.0) and are compared with the C engine of this tree only "
                    "after the two compiled models were found equal field by field"],
}
META["text"] = (
    "PARTIAL (kernel level, as designed).  The property is a statement about two implementations; what is proved is about the common Gallina models: "
    "(a) re-exported with explicit statements in Props/C43.v: the constraint row law's force is minus the gradient of its cost (C12), plane-sphere / "
    "sphere-sphere / plane-capsule contacts report the true geometry (C13), the semi-implicit Euler update order and quaternion normalisation (C05), "
    "MJX rotate / quat_integrate / quat_sub equal the C functions on unit quaternions (C24); (b) new: the MJX formulation of the friction-loss row, of the "
    "elliptic-cone zone test and of the dim-3 elliptic block (solver.py: masks instead of branches, r = 1/D instead of efc_R, Dm with a max(.., mjMINVAL) "
    "guard) equals the C formulation for mu > 0, frictionloss > 0, D R = 1 (C43_mjx_fric_row, C43_mjx_zones, C43_mjx_block3), and MJX's plane-sphere "
    "formula equals mjraw_PlaneSphere (C43_mjx_plane_sphere).  TIED on every run: each kernel is evaluated at binary64 inside Coq on the same inputs as the "
    "C function of the working tree (drivers of C12/C13/C05) AND the MJX function of the working tree (solver.Context.create -> _update_constraint; "
    "collision_primitive.plane_sphere / sphere_sphere / plane_capsule / sphere_capsule / capsule_capsule; forward._advance / _integrate_pos / "
    "_next_activation; constraint._kbi against efc_KBIP of one-row models), tolerance 2^-30 scaled (residuals lying exactly on a cone-zone boundary are compared on the C side only: inside one jit+vmap call "
    "XLA evaluates MJX's zone masks in several fusions and they can disagree at such measure-zero points; counted in the evidence); two implementations that agree with one model on the same inputs agree with each other.  "
    "MJX's sphere_capsule and capsule_capsule regularise the closest-point computation with + 1e-6 (math.closest_segment_point): they are compared at 1e-4 relative on dist/pos and 2^-8 on the normal (segments of half-length >= 0.15, capsule axes at least 37 degrees and 0.6 (r1 + r2) apart) and "
    "the measured deviation from the C kernel is recorded (it exceeds floating-point tolerance; reported as an observation).  SUPPORT (no theorem): whole "
    "pipeline: a C driver builds models of a restricted family (free/ball/hinge/slide trees, springs, dampers, armature, motors and position actuators, "
    "fixed and spatial tendons with stiffness, damping and dead-band spring ranges in states below / inside / above the band, every kind of constraint row (joint "
    "equalities, friction loss, joint limits, contacts) with its own solref in the standard and in the direct form and its own solimp, rows active and moving, "
    "sphere/capsule/plane contacts with condim 1 and 3, pyramidal and elliptic cones, Euler/RK4/implicitfast) through the mjSpec API of this tree and dumps "
    "xpos, xquat, qM, qfrc_bias, qfrc_passive, qfrc_actuator, contacts, efc_J, efc_aref, efc_D, qacc and the next state; the harness prints the equivalent MJCF, "
    "the wheel parses it, repo-MJX put_model/forward/step run on it and the outputs are compared at 1e-6 relative (counts in the evidence; put_model raising "
    "NotImplementedError is accepted).  sensordata of frame sensors with and without reference frames on different moving bodies (bodies, inertial frames, sites), site, joint, ball, subtree, actuator "
    "and clock sensors is compared too.  NOT COVERED: contact / touch / rangefinder / camera sensors, tendon wrapping geoms and limits, equality constraints, meshes/convex collisions, whole-pipeline equivalence as a theorem, "
    "put_model's feature gate.")

PY = "/venv/bin/python"
TOL = "0x1p-30"
ELL, PYR = 7, 6


def fl(x):
    return F.fhex(x)


def flist(xs):
    return "[" + "; ".join(fl(x) for x in xs) + "]"


def flat(a):
    if isinstance(a, (list, tuple)):
        o = []
        for x in a:
            o += flat(x)
        return o
    return [float(a)]


def rel(a, b):
    a, b = flat(a), flat(b)
    if len(a) != len(b):
        return float("inf")
    if not a:
        return 0.0
    if any(x != x for x in a + b):
        return float("inf")
    return max(abs(x - y) for x, y in zip(a, b)) / (1 + max(max(abs(x) for x in a), max(abs(y) for y in b)))


def run_mjx(ctx, jobs, timeout):
    drv = os.path.join(F.VERIF, "harness", "drivers", "c43_mjx.py")
    env = dict(os.environ, JAX_PLATFORMS="cpu")
    for attempt in range(3):
        try:
            r = subprocess.run([PY, drv, ctx.repo], input=json.dumps({"jobs": jobs}), capture_output=True, text=True, timeout=timeout, env=env)
        except subprocess.TimeoutExpired:
            return None, "timeout after %ds" % timeout
        # XLA/LLVM aborts (rc -6) when the machine is momentarily out of memory for its JIT sections: an environment
        # condition, not an answer of the code under test - wait and run the same jobs again
        if r.returncode != 0 and "Cannot allocate memory" in r.stderr and attempt < 2:
            ctx.cov["support"]["mjx_driver_retries_after_ENOMEM"] = ctx.cov["support"].get("mjx_driver_retries_after_ENOMEM", 0) + 1
            time.sleep(30 * (attempt + 1))
            continue
        break
    if r.returncode != 0:
        return None, "rc=%d %s" % (r.returncode, r.stderr[-1500:])
    try:
        return json.loads(r.stdout)["jobs"], ""
    except (ValueError, KeyError):
        return None, "unparsable output: " + r.stdout[-300:] + r.stderr[-500:]


# ================================================================================================ kernel 1: constraint row law
def cu_config(rng, cone):
    """row composition with ONE cone type and ONE impratio (they are model options in MJX); D, R, mu related as mj_makeImpedance sets them"""
    cfg = {"D": [], "R": [], "fl": [], "type": [], "id": [], "con": [], "related": True, "src": "synthetic(c43)", "cone": cone}
    nice = rng.random() < 0.4
    impratio = (2.0 ** (2 * rng.randrange(-1, 3))) if nice else rng.choice([1.0, 1.0, 0.3, 4.5, 17.0])
    if not cone:
        impratio = 1.0
    cfg["impratio"] = impratio

    def rnd_R():
        return 2.0 ** rng.randrange(-12, 3) if nice else 10 ** rng.uniform(-4, 1)

    def row(tp, idd, R=None, fl=0.0):
        R = rnd_R() if R is None else R
        cfg["R"].append(R); cfg["D"].append(1.0 / R); cfg["fl"].append(fl); cfg["type"].append(tp); cfg["id"].append(idd)
    cfg["ne"] = rng.choice([0, 0, 1, 2, 3])
    cfg["nf"] = rng.choice([0, 1, 1, 2, 3])
    for _ in range(cfg["ne"]):
        row(0, rng.randrange(4))
    for _ in range(cfg["nf"]):
        row(rng.choice([1, 2]), rng.randrange(4), fl=(2.0 ** rng.randrange(-4, 3)) if nice else 10 ** rng.uniform(-2, 1))
    nrows = rng.choice([1, 2, 2, 3, 4])
    for k in range(nrows):
        kind = rng.choice(["limit", "frictionless", "fric", "fric", "fric"])
        if cone and k == nrows - 1 and not any(c["dim"] > 1 for c in cfg["con"]):
            kind = "fric"           # an elliptic composition has at least one frictional contact
        if kind == "limit":
            row(rng.choice([3, 4]), rng.randrange(4))
            continue
        fr = [2.0 ** rng.randrange(-6, 2) for _ in range(5)] if nice else \
             [rng.uniform(0.2, 1.2), 0.0, 10 ** rng.uniform(-3, -1), 10 ** rng.uniform(-4, -1), 0.0]
        if not nice:
            fr[1] = fr[0] if rng.random() < 0.6 else rng.uniform(0.2, 1.2)
            fr[4] = fr[3] if rng.random() < 0.6 else 10 ** rng.uniform(-4, -1)
        c = len(cfg["con"])
        if kind == "frictionless":
            cfg["con"].append({"dim": 1, "mu": 0.0, "fr": fr, "adr": len(cfg["D"])})
            row(5, c)
            continue
        dim = rng.choice([3, 3, 4, 6])
        R0 = rnd_R()
        R1 = R0 / max(1e-15, impratio)
        mu = fr[0] * math.sqrt(R1 / R0)
        cfg["con"].append({"dim": dim, "mu": mu, "fr": fr, "adr": len(cfg["D"]), "nice": nice})
        if not cone:
            for _ in range(2 * (dim - 1)):
                row(PYR, c, R=2 * mu * mu * R0)
        else:
            row(ELL, c, R=R0)
            for j in range(1, dim):
                row(ELL, c, R=(R1 if j == 1 else R1 * fr[0] * fr[0] / (fr[j - 1] * fr[j - 1])))
    return CU.finish_cfg(cfg)


CU_PRE = CU.COQ_PRE + """
Definition zeros36 (h : list float) : bool := forallb (fun x => fclose tol x 0%float) h.
(* top-left dim x dim block of a row-major 6x6 matrix *)
Definition block6 (dim : nat) (h : list float) : list float :=
  flat_map (fun r => firstn dim (skipn (6 * r) h)) (seq 0 dim).
(* MJX: contacts with dim > 1, in contact order, each with its 6x6 cone Hessian (zero outside the middle zone) *)
Fixpoint hs_mjx (con : list (Z*float*list float)) (adrs : list Z) (sts : list Z) (hs_model : list (list float)) (hx : list (list float)) : bool :=
  match con, adrs with
  | (dim, _, _) :: con', adr :: adrs' =>
      if (dim <=? 1)%Z then hs_mjx con' adrs' sts hs_model hx
      else match hx with
           | h :: hx' =>
               if (nth (Z.to_nat adr) sts 0%Z =? 4)%Z then
                 match hs_model with
                 | hm :: hs' => andb (fclose_list tol (block6 (Z.to_nat dim) h) hm) (hs_mjx con' adrs' sts hs' hx')
                 | nil => false
                 end
               else andb (zeros36 h) (hs_mjx con' adrs' sts hs_model hx')
           | nil => false
           end
  | nil, nil => match hx with nil => true | _ => false end
  | _, _ => false
  end.
Definition act_of (st : Z) : Z := if (st =? 1)%Z then 1%Z else 0%Z.
(* MJX case: (elliptic, ne, nf, con, adrs, rows, jar, (cost, force, active, hs), strict) *)
Definition chk_x (c : bool * Z * Z * list (Z*float*list float) * list Z * list (float*float*float*Z*Z) * list float *
                      (float * list float * list Z * list (list float)) * bool) : bool :=
  match c with (ell, ne, nf, con, adrs, rows, jar, (cost, fs, act, hx), strict) =>
    match constraint_update (T:=float) ell ne nf con rows jar with
    | Some (cost', fs', sts', hs') =>
        andb (fclose tol cost cost') (andb (fclose_list tol fs fs')
          (if zlist_eqb act (map act_of sts') then (if ell && strict then hs_mjx con adrs sts' hs' hx else true) else negb strict))
    | None => false
    end
  end.
Definition chk_cu (c : bool * (bool * Z * Z * list (Z*float*list float) * list (float*float*float*Z*Z) * list float *
                    (float * list float * list Z * list (list float)) * bool) *
                   (bool * Z * Z * list (Z*float*list float) * list Z * list (float*float*float*Z*Z) * list float *
                      (float * list float * list Z * list (list float)) * bool)) : bool :=
  match c with (isx, cc, cx) => if isx then chk_x cx else chk cc end.
"""


def cu_lit_c(c):
    return CU.coq_case(c)


def cu_lit_x(c):
    cfg, o = c["cfg"], c["xout"]
    con = "[" + "; ".join("(%d%%Z, %s, [%s])" % (k["dim"], fl(k["mu"]), "; ".join(fl(x) for x in k["fr"])) for k in cfg["con"]) + "]"
    adrs = "[" + "; ".join("%d%%Z" % k["adr"] for k in cfg["con"]) + "]"
    rows = "[" + "; ".join("(%s, %s, %s, %d%%Z, %s%%Z)" % (fl(cfg["D"][i]), fl(cfg["R"][i]), fl(cfg["fl"][i]), cfg["type"][i], str(cfg["id"][i]))
                           for i in range(cfg["nefc"])) + "]"
    res = "(%s, %s, [%s], [%s])" % (fl(o["cost"]), flist(o["force"]), "; ".join("%d%%Z" % s for s in o["active"]),
                                    "; ".join(flist(h) for h in o["h"]))
    strict = "false" if c.get("tag") == "boundary" else "true"
    return ("(%s, %d%%Z, %d%%Z, (%s : list (Z*float*list float)), (%s : list Z), (%s : list (float*float*float*Z*Z)), (%s : list float), "
            "(%s : float * list float * list Z * list (list float)), %s)" %
            ("true" if cfg["cone"] else "false", cfg["ne"], cfg["nf"], con, adrs, rows, flist(c["jar"]), res, strict))


DUMMY_C = "(false, 0%Z, 0%Z, (nil : list (Z*float*list float)), (nil : list (float*float*float*Z*Z)), (nil : list float), (0%float, (nil : list float), (nil : list Z), (nil : list (list float))), true)"
DUMMY_X = "(false, 0%Z, 0%Z, (nil : list (Z*float*list float)), (nil : list Z), (nil : list (float*float*float*Z*Z)), (nil : list float), (0%float, (nil : list float), (nil : list Z), (nil : list (list float))), true)"


# ================================================================================================ kernel 2: collision primitives
PLANE, SPHERE, CAPSULE = 0, 2, 3
PAIRS = {"plane_sphere": (0, PLANE, SPHERE), "sphere_sphere": (1, SPHERE, SPHERE), "plane_capsule": (2, PLANE, CAPSULE),
         "sphere_capsule": (3, SPHERE, CAPSULE), "capsule_capsule": (4, CAPSULE, CAPSULE)}
LOOSE = {"sphere_capsule", "capsule_capsule"}       # MJX regularises the segment closest-point computation with + 1e-6


def rquat(rng):
    q = [rng.gauss(0, 1) for _ in range(4)]
    n = math.sqrt(sum(x * x for x in q))
    return [x / n for x in q]


def q2m(q):
    w, x, y, z = q
    return [w * w + x * x - y * y - z * z, 2 * (x * y - w * z), 2 * (x * z + w * y),
            2 * (x * y + w * z), w * w - x * x + y * y - z * z, 2 * (y * z - w * x),
            2 * (x * z - w * y), 2 * (y * z + w * x), w * w - x * x - y * y + z * z]


def seg_seg_dist(p1, d1, l1, p2, d2, l2):
    """distance between the segments p1 + s d1 (|s| <= l1) and p2 + t d2 (|t| <= l2), d1, d2 unit (dense sampling + local refinement)"""
    best = float("inf")
    n = 40
    for i in range(n + 1):
        s = -l1 + 2 * l1 * i / n if l1 > 0 else 0.0
        a = [p + s * d for p, d in zip(p1, d1)]
        # closest point of segment 2 to a (exact)
        t = sum((x - y) * d for x, y, d in zip(a, p2, d2))
        t = max(-l2, min(l2, t))
        b = [p + t * d for p, d in zip(p2, d2)]
        best = min(best, math.sqrt(sum((x - y) ** 2 for x, y in zip(a, b))))
        if l1 <= 0:
            break
    return best


def prim_case(rng, pair):
    """two geoms at a small signed distance; for the pairs whose MJX kernel is regularised the two axes stay at least 0.6 (r1 + r2) apart
    (the contact normal is the normalised difference of the two closest points: ill-conditioned when the axes nearly intersect)"""
    for _ in range(200):
        a = prim_case_raw(rng, pair)
        _, t1, t2 = PAIRS[pair]
        if pair not in LOOSE:
            return a
        z1, z2 = [a[5], a[8], a[11]], [a[20], a[23], a[26]]
        d = seg_seg_dist(a[0:3], z1, a[13] if t1 == CAPSULE else 0.0, a[15:18], z2, a[28])
        if d >= 0.6 * (a[12] + a[27]):
            return a
    return a


def prim_case_raw(rng, pair):
    """two geoms at a small signed distance (mostly penetrating or within a small margin); capsule axes in general position"""
    _, t1, t2 = PAIRS[pair]
    m1, m2 = q2m(rquat(rng)), q2m(rquat(rng))
    s1 = [rng.uniform(0.05, 0.3), rng.uniform(0.15, 0.4), 0.0]
    s2 = [rng.uniform(0.05, 0.3), rng.uniform(0.15, 0.4), 0.0]
    if t1 == CAPSULE and t2 == CAPSULE:
        # the regularised MJX kernel divides by (1 - (a1.a2)^2) + 1e-6: keep the axes away from parallel
        while abs(m1[2] * m2[2] + m1[5] * m2[5] + m1[8] * m2[8]) > 0.8:
            m2 = q2m(rquat(rng))
    p1 = [rng.uniform(-1, 1) for _ in range(3)]
    gap = rng.uniform(-0.05, 0.05)
    z1 = [m1[2], m1[5], m1[8]]
    z2 = [m2[2], m2[5], m2[8]]
    if t1 == PLANE:
        s1 = [1.0, 1.0, 0.1]
        ext = s2[0] if t2 == SPHERE else s2[0] + s2[1] * abs(sum(a * b for a, b in zip(z1, z2)))
        lat = [rng.uniform(-1, 1) for _ in range(3)]
        d = sum(a * b for a, b in zip(lat, z1))
        lat = [a - d * b for a, b in zip(lat, z1)]
        p2 = [p + l + (ext + gap) * n for p, l, n in zip(p1, lat, z1)]
    else:
        u = [rng.gauss(0, 1) for _ in range(3)]
        n = math.sqrt(sum(x * x for x in u))
        u = [x / n for x in u]
        r = s1[0] + s2[0] + gap
        # a point on (or near) each segment, then separate along u
        a1 = rng.uniform(-1, 1) * s1[1] if t1 == CAPSULE else 0.0
        a2 = rng.uniform(-1, 1) * s2[1] if t2 == CAPSULE else 0.0
        q1 = [p + a1 * z for p, z in zip(p1, z1)]
        q2 = [a + r * b for a, b in zip(q1, u)]
        p2 = [a - a2 * z for a, z in zip(q2, z2)]
    return p1 + m1 + s1 + p2 + m2 + s2


PRIM_PRE = "\n".join([
    "Definition g (l : list float) (i : nat) : float := nth i l 0%float.",
    "Definition V (l : list float) (i : nat) : vec3 float := (g l i, g l (i+1), g l (i+2)).",
    "Definition M (l : list float) (i : nat) : mat3 float := (g l i, g l (i+1), g l (i+2), g l (i+3), g l (i+4), g l (i+5), g l (i+6), g l (i+7), g l (i+8)).",
    "Definition big : float := 0x1p40%float.",
    "Definition collide (op : Z) (a : list float) (mg : float) : list (precon float) :=",
    "  let p1 := V a 0 in let m1 := M a 3 in let p2 := V a 15 in let m2 := M a 18 in",
    "  if (op =? 0)%Z then rawPlaneSphere mg p1 m1 p2 (g a 27)",
    "  else if (op =? 1)%Z then rawSphereSphere mg p1 m1 (g a 12) p2 m2 (g a 27)",
    "  else if (op =? 2)%Z then planeCapsule mg p1 m1 p2 m2 (g a 27) (g a 28)",
    "  else if (op =? 3)%Z then sphereCapsule mg p1 m1 (g a 12) p2 m2 (g a 27) (g a 28)",
    "  else capsuleCapsule mg p1 m1 (g a 12) (g a 13) p2 m2 (g a 27) (g a 28).",
    "Definition cl (cs : list (precon float)) : list float := flat_map pc2l cs.",
    "(* C side: (dist pos normal tangent) of every emitted contact with the margin of the case *)",
    "Definition chk_c (op : Z) (a : list float) (out : list float) : bool := fclose_list %s (cl (collide op a (g a 30))) out." % TOL,
    "(* MJX side: every slot (dist, pos, frame) whatever the distance: model with an unbounded margin; frame = mj_setContact's frame *)",
    "Definition slot (tolp toln : float) (withframe : bool) (c : precon float) (o : list float) : bool :=",
    "  let '(d, p, n, t) := c in",
    "  andb (andb (fclose_list tolp (d :: v2l p) (firstn 4 o)) (fclose_list toln (v2l n) (firstn 3 (skipn 4 o))))",
    "       (if withframe then match makeFrame n t with Some (x, y, z) => fclose_list toln (v2l x ++ v2l y ++ v2l z) (skipn 4 o) | None => false end else true).",
    "Fixpoint slots (tolp toln : float) (wf : bool) (cs : list (precon float)) (os : list (list float)) : bool :=",
    "  match cs, os with nil, nil => true | c :: cs', o :: os' => andb (slot tolp toln wf c o) (slots tolp toln wf cs' os') | _, _ => false end.",
    "(* regularised kernels: dist and pos at 1e-4, normal and frame at 2^-8 (closest points 1e-5 off, axes >= 0.06 apart) *)",
    "Definition chk_x (op : Z) (a : list float) (os : list (list float)) (loose wf : bool) : bool :=",
    "  if loose then slots 0x1.a36e2eb1c432dp-14%float 0x1p-8%float wf (collide op a big) os",
    "  else slots %s%%float %s%%float wf (collide op a big) os." % (TOL, TOL),
    "Definition chk_prim (c : bool * Z * list float * list float * list (list float) * bool * bool) : bool :=",
    "  match c with (isx, op, a, out, os, loose, wf) => if isx then chk_x op a os loose wf else chk_c op a out end.",
]) + "\n"


# ================================================================================================ kernel 3: integrators
def bits(x):
    import struct
    return struct.unpack("<Q", struct.pack("<d", float(x)))[0]


def unbits(t):
    import struct
    return struct.unpack("<d", struct.pack("<Q", int(t, 16)))[0]


def hxs(tokens):
    return [unbits(t) for t in tokens]


INT_PRE = ("Definition js_of (l : list Z) := map jtype_of_Z l.\n"
           "Definition tol : float := %s%%float.\n"
           "(* (isx, types, h, qpos, qvel, qacc, t0, qpos', qvel', t') *)\n"
           "Definition chk_euler (c : bool * list Z * float * list float * list float * list float * float * list float * list float * float) : bool :=\n"
           "  match c with (isx, ts, h, qp, qv, qa, t0, qp1, qv1, t1) =>\n"
           "    let s := euler (T:=float) (js_of ts) h {| qpos := qp; qvel := qv; time := t0 |} qa in\n"
           "    andb (fclose_list tol (qvel s) qv1) (andb (fclose tol (time s) t1) (fclose_list tol (qpos s) qp1)) end.\n"
           "(* (exact, h, act, act_dot, prm0, limited, lo, hi, result) *)\n"
           "Definition chk_act (c : bool * float * float * float * float * bool * float * float * float) : bool :=\n"
           "  match c with (ex, h, a, ad, p0, lim, lo, hi, r) => fclose tol (nextActivation (T:=float) ex h a ad p0 lim lo hi) r end.\n" % TOL)

KB_PRE = ("Definition tolk : float := %s%%float.\n"
          "(* (refsafe, h, s0, s1, dmax, K and B of the C engine, k and b of MJX) *)\n"
          "Definition chk_kb (c : bool * float * float * float * float * float * float * float * float) : bool :=\n"
          "  match c with (rs, h, s0, s1, dmax, kc, bc, kx, bx) =>\n"
          "    let '(k1, b1) := c_kb (T:=float) rs h s0 s1 dmax in let '(k2, b2) := mjx_kb (T:=float) rs h s0 s1 dmax in\n"
          "    andb (andb (fclose tolk k1 kc) (fclose tolk b1 bc)) (andb (andb (fclose tolk k2 kx) (fclose tolk b2 bx)) (andb (fclose tolk k1 kx) (fclose tolk b1 bx))) end.\n" % TOL)

FEATS = [0x7FFFF, 0x1 | 0x2 | 0x4 | 0x40 | 0x80 | 0x1000, 0x2 | 0x4 | 0x40 | 0x80 | 0x400, 0x1 | 0x8000 | 0x40 | 0x80]


# ================================================================================================ whole pipeline (support)
STATE_FIELDS = ["xpos", "xquat", "xipos", "qM", "qfrc_bias", "qfrc_passive", "qfrc_actuator", "qacc_smooth", "ten_length", "sensordata", "actuator_force", "qfrc_gravcomp"]
DYN_FIELDS = ["qacc", "qfrc_constraint", "next_qpos", "next_qvel"]


def compare_pipeline(M, c, x, stats, worst, notes):
    """returns list of (what, diff, tol, state index) failures; c = C dump, x = MJX reply"""
    fails = []
    fam = M["family"]
    tol = 1e-4 if fam == "capsules" else 1e-6
    if "notimpl" in x:
        stats["notimplemented"] = stats.get("notimplemented", 0) + 1
        notes.append("put_model NotImplementedError: " + x["notimpl"][:80])
        return fails
    if "error" in x or "error" in c:
        stats["harness_error"] = stats.get("harness_error", 0) + 1
        notes.append("error: %s %s" % (x.get("error"), c.get("error")))
        return [("harness: model could not be run on one side", float("inf"), 0, -1)]
    mm = [f for f in c["model"] if rel(c["model"][f], x["model"][f]) > 1e-9]
    mm += [k for k in c["opt"] if k in x["opt"] and rel(c["opt"][k], x["opt"][k]) > 1e-12]
    if c["dims"] != x["dims"] or mm:
        stats["model_mismatch"] = stats.get("model_mismatch", 0) + 1
        notes.append("compiled models differ (%s): %s" % (fam, ",".join(mm[:6]) or "dims"))
        return fails
    stats["models_compared"] = stats.get("models_compared", 0) + 1
    nv = c["dims"]["nv"]
    for si, (sc, sx) in enumerate(zip(c["states"], x["states"])):
        if "error" in sc:
            notes.append("C state error " + sc["error"][:80])
            continue
        stats["states_compared"] = stats.get("states_compared", 0) + 1
        for f in STATE_FIELDS + DYN_FIELDS:
            d = rel(sc[f], sx[f])
            key = fam + ":" + f
            worst[key] = max(worst.get(key, 0.0), d)
            stats["field_comparisons"] = stats.get("field_comparisons", 0) + 1
            # outputs of the iterative solver (and what is integrated from them) with active contacts: both engines stop at their own convergence test
            # (tolerance 1e-10 on the cost improvement), which leaves 1e-6..1e-5 relative in qacc on stacked / elliptic-cone problems; everything the
            # solver is GIVEN (kinematics, contacts, efc_J, efc_aref, efc_D) stays at the base tolerance
            ftol = tol
            if f in DYN_FIELDS and sc["contact"]:
                ftol = max(tol, 1e-4 if M["opt"]["cone"] == 1 else 1e-5)
            if not d <= ftol:
                what = f
                if f == "sensordata" and len(sc[f]) == len(sx[f]) and M.get("sensors"):
                    i = max(range(len(sc[f])), key=lambda k: abs(sc[f][k] - sx[f][k]))
                    adr, dim = c["model"]["sensor_adr"], c["model"]["sensor_dim"]
                    k = [q for q in range(len(adr)) if adr[q] <= i < adr[q] + dim[q]]
                    if k and k[0] < len(M["sensors"]):
                        t, ot, on, rt, rn = M["sensors"][k[0]]
                        what = "sensordata (sensor %d: %s objtype=%s obj=%s reftype=%s ref=%s; C %r MJX %r)" % (
                            k[0], t, ot, MM.sname(on), rt, MM.sname(rn), sc[f][adr[k[0]]:adr[k[0]] + dim[k[0]]], sx[f][adr[k[0]]:adr[k[0]] + dim[k[0]]])
                fails.append((what, d, ftol, si))
        # equality / friction-loss / limit rows: MJX keeps a static row per candidate (zero Jacobian when inactive); every C row is matched
        # with the MJX row of the same class whose Jacobian is nearest, then J, aref, D and pos are compared
        cls_c = [(0, sc["ne"]), (sc["ne"], sc["ne"] + sc["nf"]), (sc["ne"] + sc["nf"], sc["ne"] + sc["nf"] + sc["nl"])]
        cls_x = [(0, sx["ne"]), (sx["ne"], sx["ne"] + sx["nf"]), (sx["ne"] + sx["nf"], sx["ne"] + sx["nf"] + sx["nl"])]
        Jc_all, Jx_all = flat(sc["efc_J"]), flat(sx["efc_J"])
        for cname, (c0, c1), (x0, x1) in zip(("equality", "friction", "limit"), cls_c, cls_x):
            usedx = set()
            for i in range(c0, c1):
                Ji = Jc_all[i * nv:(i + 1) * nv]
                cand = [k for k in range(x0, x1) if k not in usedx]
                if not cand:
                    fails.append(("%s row %d of the C engine has no MJX counterpart" % (cname, i), float("inf"), 0, si))
                    continue
                k = min(cand, key=lambda k: sum((a - b) ** 2 for a, b in zip(Ji, Jx_all[k * nv:(k + 1) * nv])))
                usedx.add(k)
                stats["row_comparisons"] = stats.get("row_comparisons", 0) + 1
                for what, a, b in (("efc_J", Ji, Jx_all[k * nv:(k + 1) * nv]), ("efc_aref", [sc["efc_aref"][i]], [sx["efc_aref"][k]]),
                                   ("efc_D", [sc["efc_D"][i]], [sx["efc_D"][k]]), ("efc_pos", [sc["efc_pos"][i] - sc["efc_margin"][i]], [sx["efc_pos"][k]])):
                    if what == "efc_pos" and cname != "limit":
                        continue
                    d = rel(a, b)
                    key = fam + ":" + cname + "." + what
                    worst[key] = max(worst.get(key, 0.0), d)
                    if not d <= tol:
                        fails.append(("%s row %s" % (cname, what), d, tol, si))
        xc = sx["contact"]
        act = [i for i in range(len(xc["dist"])) if xc["dist"][i] < xc["includemargin"][i]]
        if len(act) != len(sc["contact"]):
            fails.append(("number of active contacts (C %d, MJX %d)" % (len(sc["contact"]), len(act)), float("inf"), 0, si))
            continue
        used = set()
        for cc in sc["contact"]:
            cand = [i for i in act if i not in used and sorted(xc["geom"][i]) == sorted(cc["geom"])]
            if not cand:
                fails.append(("contact of geoms %s missing in MJX" % cc["geom"], float("inf"), 0, si))
                continue
            i = min(cand, key=lambda k: sum((a - b) ** 2 for a, b in zip(xc["pos"][k], cc["pos"])))
            used.add(i)
            stats["contacts_compared"] = stats.get("contacts_compared", 0) + 1
            flip = xc["geom"][i] != cc["geom"]
            for what, a, b in (("contact.dist", cc["dist"], xc["dist"][i]), ("contact.pos", cc["pos"], xc["pos"][i]),
                               ("contact.frame", cc["frame"], xc["frame"][i])):
                if flip and what == "contact.frame":
                    continue
                d = rel(a, b)
                key = fam + ":" + what
                worst[key] = max(worst.get(key, 0.0), d)
                if not d <= tol:
                    fails.append((what, d, tol, si))
            if flip or cc["dim"] != xc["dim"][i]:
                continue
            n = 1 if cc["dim"] == 1 else (cc["dim"] if M["opt"]["cone"] == 1 else 2 * (cc["dim"] - 1))
            ca, xa = cc["efc_address"], xc["efc_address"][i]
            Jc, Jx = flat(sc["efc_J"])[ca * nv:(ca + n) * nv], flat(sx["efc_J"])[xa * nv:(xa + n) * nv]
            for what, a, b in (("efc_J", Jc, Jx), ("efc_aref", sc["efc_aref"][ca:ca + n], sx["efc_aref"][xa:xa + n]),
                               ("efc_D", sc["efc_D"][ca:ca + n], sx["efc_D"][xa:xa + n])):
                d = rel(a, b)
                key = fam + ":" + what
                worst[key] = max(worst.get(key, 0.0), d)
                stats["efc_block_comparisons"] = stats.get("efc_block_comparisons", 0) + 1
                if not d <= tol:
                    fails.append((what, d, tol, si))
    return fails


JDOTV_SIG = {"site": "mjx constraint equality", "class": "jdotv-correction-missing"}


def jdotv_replay(ctx, M, states, c, x, sup):
    """C engine of this tree: efc_aref of connect / weld rows = -B vel - K I pos - Jdot*v (mj_Jdotv); MJX has no such term.  The replay reports
    under JDOTV_SIG only when the difference is exactly of that class: MJX's aref equals -B vel - K I pos evaluated from the C engine's own
    efc_KBIP, efc_vel, efc_pos, every other stage output up to efc_J agrees, and the C value differs.  Until the coordinator registers the
    signature the result is recorded in the evidence instead of being emitted."""
    rec = {"registered": any(k.get("property") == "C43" and k.get("match") == JDOTV_SIG for k in ctx.kf.get("findings", [])), "states": []}
    sup["jdotv_replay"] = rec
    if "error" in c or "error" in x or "notimpl" in x:
        ctx.broken.append(("oracle", "fixed replay connect_moving could not be run", str(c.get("error")) + str(x.get("error")) + str(x.get("notimpl"))))
        return
    for si, (sc, sx) in enumerate(zip(c["states"], x["states"])):
        ne = sc["ne"]
        pre = max(rel(sc[f], sx[f]) for f in ("xpos", "xquat", "qM", "qfrc_bias", "qfrc_passive", "qacc_smooth"))
        nv = c["dims"]["nv"]
        dJ = rel(flat(sc["efc_J"])[:ne * nv], flat(sx["efc_J"])[:ne * nv])
        formula = [-sc["efc_KBIP"][4 * i + 1] * sc["efc_vel"][i] - sc["efc_KBIP"][4 * i] * sc["efc_KBIP"][4 * i + 2] * (sc["efc_pos"][i] - sc["efc_margin"][i]) for i in range(ne)]
        d_x_formula = rel(formula, sx["efc_aref"][:ne])
        d_c_x = rel(sc["efc_aref"][:ne], sx["efc_aref"][:ne])
        exact = pre <= 1e-9 and dJ <= 1e-9 and d_x_formula <= 1e-9
        rec["states"].append({"aref_c_vs_mjx": float("%.3g" % d_c_x), "mjx_vs_formula_without_jdotv": float("%.3g" % d_x_formula),
                              "qacc_c_vs_mjx": float("%.3g" % rel(sc["qacc"], sx["qacc"])), "exactly_this_class": bool(exact and d_c_x > 1e-6)})
        if d_c_x > 1e-6:
            if exact and not rec["registered"]:
                continue            # candidate finding reported to the coordinator; recorded in the evidence
            ctx.violation("impl_violation", {"family": "connect_moving", "mjcf": MM.to_xml(M), "state": states[si], "quantity": "efc_aref of connect rows"},
                          expected="MJX efc_aref equals the C engine's (1e-6 relative)", observed="relative difference %.3g" % d_c_x, theorem=None,
                          signature=JDOTV_SIG if exact else {"site": "mjx pipeline", "quantity": "efc_aref"},
                          note="fixed replay; exactly_this_class=%s" % exact)


ICLAMP_SIG = {"site": "mjx derivative.deriv_smooth_vel", "class": "clamped-actuator-velocity-derivative"}


def implicit_clamp_replay(ctx, M, states, c, x, sup):
    """C mjd_actuator_vel skips an actuator whose force is clamped by forcerange; MJX deriv_smooth_vel keeps gain_vel / bias_vel, so an implicitfast step
    of a saturated velocity / position servo differs.  exactly_this_class: every forward output agrees (1e-9), the actuator force sits on its forcerange
    bound, and only the implicitfast next state differs.  Repaired in /repo (1ffe69b25); the replay stays in the corpus and alarms under ICLAMP_SIG if the difference returns."""
    rec = {"registered": any(k.get("property") == "C43" and k.get("match") == ICLAMP_SIG for k in ctx.kf.get("findings", [])), "states": []}
    sup["implicit_clamp_replay"] = rec
    if "error" in c or "error" in x or "notimpl" in x:
        ctx.broken.append(("oracle", "fixed replay implicit_clamped_servo could not be run", str(c.get("error")) + str(x.get("error")) + str(x.get("notimpl"))))
        return
    lo, hi = M["acts"][0]["forcerange"]
    for si, (sc, sx) in enumerate(zip(c["states"], x["states"])):
        pre = max(rel(sc[f], sx[f]) for f in ("xpos", "qM", "qfrc_bias", "qfrc_passive", "qfrc_actuator", "actuator_force", "qacc"))
        sat = sc["actuator_force"][0] in (lo, hi)
        dn = max(rel(sc["next_qvel"], sx["next_qvel"]), rel(sc["next_qpos"], sx["next_qpos"]))
        exact = pre <= 1e-9 and sat
        rec["states"].append({"forward_outputs_c_vs_mjx": float("%.3g" % pre), "actuator_force": sc["actuator_force"][0], "next_state_c_vs_mjx": float("%.3g" % dn),
                              "exactly_this_class": bool(exact and dn > 1e-6)})
        if dn > 1e-6:
            ctx.violation("impl_violation", {"family": "implicit_clamped_servo", "mjcf": MM.to_xml(M), "state": states[si], "quantity": "next state (implicitfast)"},
                          expected="MJX next state equals the C engine's (1e-6 relative)", observed="relative difference %.3g" % dn, theorem=None,
                          signature=ICLAMP_SIG if exact else {"site": "mjx pipeline", "quantity": "next_qvel"},
                          note="fixed replay; exactly_this_class=%s" % exact)


# ================================================================================================ the check
def run(ctx):
    rng = ctx.rng
    quick = ctx.tier == "quick"
    tm = ctx.cov["support"].setdefault("timing_s", {})
    t_last = [time.time()]

    def lap(label):
        now = time.time()
        tm[label] = round(now - t_last[0], 1)
        t_last[0] = now

    targets = ["Lib/Eqb.vo", "Lib/Num.vo", "Lib/NumF.vo", "Lib/NumR.vo", "Model/Spatial.vo", "Model/ConstraintUpdate.vo", "Model/CollidePrim.vo",
               "Model/Integrate.vo", "Model/MjxKernels.vo"]
    pool = ThreadPoolExecutor(max_workers=10)
    fut_props = pool.submit(ctx.coq_props, F.STD_AXIOMS, None, targets)

    exe12 = ctx.driver("c12_update", ["c12_update.c"])
    exe13 = ctx.driver("c13_prim", ["c13_prim.c"])
    exe05 = ctx.driver("c05_integ", ["c05_integ.c"])
    exe43 = ctx.driver("c43_dump", ["c43_dump.c"])
    lap("build")
    if None in (exe12, exe13, exe05, exe43):
        fut_props.result()
        return

    # ------------------------------------------------------------------ whole-pipeline job first (longest MJX run)
    fams = ["connect_moving", "implicit_clamped_servo", "tendons", "solparams", "welded", "sensors", "actuation", rng.choice(["smooth", "contact1", "contact3", "spheres"])] if quick else \
           (["connect_moving", "implicit_clamped_servo"] + ["tendons"] * 4 + ["solparams"] * 8 + ["welded"] * 6 + ["sensors"] * 5 + ["actuation"] * 8 + ["smooth"] * 6 + ["contact1"] * 4 + ["contact3"] * 5 + ["spheres"] * 4 + ["capsules"] * 3)
    pmodels, pinp, pjobs = [], "", []
    for fam in fams:
        M = MM.reorder_depth_first(MM.make_model(rng, fam))
        states = [MM.random_state(M, rng, k) for k in range(2 if quick else 3)]
        pmodels.append((M, states))
        pinp += MM.to_lines(M, states)
        pjobs.append({"op": "pipeline", "xml": MM.to_xml(M), "states": states})
    # one MJX process per 8 models, three at a time: every jitted model keeps executable sections mapped, and a process
    # that compiles a few dozen distinct models runs out of mappable memory ("LLVM ERROR: Unable to allocate section memory")
    pipe_pool = ThreadPoolExecutor(max_workers=3)
    fut_pipe = [pipe_pool.submit(run_mjx, ctx, pjobs[k:k + 8], 3000) for k in range(0, len(pjobs), 8)]
    rc, pout, perr = ctx.run(exe43, pinp, timeout=600)
    pc = []
    if rc != 0:
        ctx.broken.append(("oracle", "driver c43_dump failed", "rc=%s %s" % (rc, perr[-500:])))
    else:
        pc = [json.loads(l) for l in pout.split("\n") if l.strip()]

    # ------------------------------------------------------------------ kernel inputs and C outputs
    # K1
    ncfg, njar = (2, 16) if quick else (16, 40)
    cu_cases, cu_jobs = [], []
    for k in range(ncfg):
        cfg = cu_config(rng, cone=k % 2)
        jars, tags = [], []
        for i in range(njar):
            b = i % 5 == 4
            jars.append(CU.boundary_jar(rng, cfg) if b else CU.random_jar(rng, cfg))
            tags.append("boundary" if b else "random")
        cu_jobs.append({"op": "cu", "cone": cfg["cone"], "impratio": cfg["impratio"], "ne": cfg["ne"], "nf": cfg["nf"], "D": cfg["D"],
                        "fl": cfg["fl"], "con": [{"dim": c["dim"], "fr": c["fr"], "adr": c["adr"]} for c in cfg["con"] if c["dim"] > 1] if cfg["cone"] else [],
                        "jars": jars})
        for jar, tag in zip(jars, tags):
            cu_cases.append({"cfg": cfg, "jar": jar, "flgH": 1 if cfg["cone"] else 0, "tag": tag, "job": k})
    outs = CU.run_raw(ctx, exe12, [(c["cfg"], c["jar"], c["flgH"]) for c in cu_cases])
    if outs is None:
        fut_props.result()
        return
    for c, o in zip(cu_cases, outs):
        c["out"] = o
    # K2
    nprim = 20 if quick else 300
    prim_cases, prim_jobs = [], []
    for pair in PAIRS:
        cs = [prim_case(rng, pair) for _ in range(nprim)]
        prim_jobs.append({"op": "prim", "pair": pair, "cases": cs})
        for a in cs:
            prim_cases.append({"pair": pair, "a": a, "margin": rng.choice([0.0, 0.02, 0.1])})
    inp = "".join("PAIR %d %d %s\n" % (PAIRS[c["pair"]][1], PAIRS[c["pair"]][2], " ".join(float(x).hex() for x in c["a"] + [c["margin"]])) for c in prim_cases)
    rc, out, err = ctx.run(exe13, inp)
    lines = out.strip("\n").split("\n") if out.strip() else []
    if rc != 0 or len(lines) != len(prim_cases):
        ctx.broken.append(("correspondence", "driver c13_prim failed (PAIR)", "rc=%s lines=%d/%d %s" % (rc, len(lines), len(prim_cases), err[-500:])))
        fut_props.result()
        return
    for c, line in zip(prim_cases, lines):
        t = line.split()
        n = int(t[0]) if t and t[0] != "ERR" else -1
        c["cout"] = [float.fromhex(v) for v in t[1:1 + 10 * n]] if n >= 0 else None
    # K3
    models = [(rng.randrange(1, 10 ** 6), FEATS[k % len(FEATS)], 1 + rng.randrange(5)) for k in range(8 if quick else 24)]
    ereq = [(mo, r) for mo in (models[:3] if quick else models) for r in range(1 if quick else 4)]
    areq = [(mo, r) for mo in models for r in range(2 if quick else 4)]
    inp = "".join("E %d %d %d %d\n" % (mo[0], mo[1], mo[2], r) for mo, r in ereq) + "".join("A %d %d %d %d\n" % (mo[0], mo[1], mo[2], r) for mo, r in areq)
    rc, out, err = ctx.run(exe05, inp, timeout=600)
    lines = out.split("\n")
    if rc != 0 or len(lines) < len(ereq) + len(areq):
        ctx.broken.append(("correspondence", "driver c05_integ failed", "rc=%s %s" % (rc, err[-500:])))
        fut_props.result()
        return
    eul_cases, eul_jobs, act_cases, act_jobs = [], [], [], []
    nskip_dyn = [0]
    for (mo, r), line in zip(ereq, lines):
        parts = line.split("|")
        if "ERR" in line or len(parts) != 9:
            continue
        types = list(map(int, parts[0].split()))[1:]
        h = hxs(parts[1].split())[0]
        qpos, qvel, qacc = hxs(parts[2].split()[1:]), hxs(parts[3].split()[1:]), hxs(parts[4].split())
        t0 = hxs(parts[5].split())[0]
        qpos1, qvel1, t1 = hxs(parts[6].split()), hxs(parts[7].split()), hxs(parts[8].split())[0]
        if not types:
            continue
        eul_cases.append({"model": mo, "rep": r, "types": types, "h": h, "qpos": qpos, "qvel": qvel, "qacc": qacc, "t0": t0, "c": (qpos1, qvel1, t1)})
        eul_jobs.append({"op": "euler", "types": types, "cases": [qpos + qvel + qacc + [t0, h]]})
    byh = {}
    for (mo, r), line in zip(areq, lines[len(ereq):]):
        t = line.split()
        if line.startswith("ERR") or not t:
            continue
        n = int(t[0])
        for k in range(n):
            f = t[1 + 9 * k: 10 + 9 * k]
            dyn, lim = int(f[0]), int(f[5])
            h, a, ad, prm0 = hxs(f[1:5]); lo, hi, res = hxs(f[6:9])
            w = {"dyn": dyn, "h": h, "act": a, "act_dot": ad, "prm0": prm0, "lim": lim, "lo": lo, "hi": hi, "c": res, "model": mo, "rep": r}
            if dyn in (1, 2, 3, 4):       # mjx DynType: INTEGRATOR, FILTER, FILTEREXACT, MUSCLE (USER / DCMOTOR / PID are not supported by MJX)
                byh.setdefault(h, []).append(w)
            else:
                nskip_dyn[0] += 1
    for hh, keep in sorted(byh.items()):
        keep = keep[:12] if quick else keep[:60]
        act_jobs.append({"op": "act", "acts": [[w["dyn"], w["prm0"], w["lim"], w["lo"], w["hi"]] for w in keep], "h": hh,
                         "cases": [[w["act"] for w in keep] + [w["act_dot"] for w in keep]]})
        act_cases.append(keep)
    # K4: stiffness / damping / impedance of the reference acceleration: one limited slide joint per case, violated by `viol`
    kb_cases, kinp = [], ""
    for k in range(30 if quick else 400):
        Mk = {"family": "kb", "bodies": [], "wgeoms": [], "acts": [], "wsites": [], "tendons": [], "eqs": [], "collide": False,
              "opt": {"timestep": rng.choice([0.001, 0.002, 0.005, 0.01]), "gravity": [0.0, 0.0, -9.81], "cone": 0, "integrator": 0, "solver": 2, "iterations": 100,
                      "impratio": 1.0, "tolerance": 1e-10, "disableflags": rng.choice([0, 1 << 12])}}
        sr, si = MM.rand_solref(rng), MM.rand_solimp(rng)
        if k % 7 == 6:
            si[0] = si[1]                       # flat impedance
        Mk["bodies"].append({"parent": -1, "pos": [0, 0, 1], "quat": [1, 0, 0, 0], "sites": [], "geoms": [MM.geom(2, [0.05])],
                             "joints": [MM.joint(2, axis=[1, 0, 0], limited=True, rng_=(-0.2, 0.3), solref_limit=sr, solimp_limit=si)]})
        viol = rng.choice([rng.uniform(0.0005, 0.1), si[2] * rng.uniform(0.05, 1.5), si[2] * si[3]])
        st = {"qpos": [0.3 + viol], "qvel": [rng.uniform(-0.5, 0.5)], "ctrl": []}
        kinp += MM.to_lines(Mk, [st])
        kb_cases.append({"M": Mk, "state": st, "solref": sr, "solimp": si, "h": Mk["opt"]["timestep"], "refsafe": not Mk["opt"]["disableflags"]})
    rc, kout, kerr2 = ctx.run(exe43, kinp, timeout=600)
    klines = [l for l in kout.split("\n") if l.strip()]
    if rc != 0 or len(klines) != len(kb_cases):
        ctx.broken.append(("correspondence", "driver c43_dump failed (K/B/I cases)", "rc=%s lines=%d/%d %s" % (rc, len(klines), len(kb_cases), kerr2[-300:])))
        kb_cases = []
    kb_jobs = []
    for c, l in zip(kb_cases, klines):
        r = json.loads(l)
        stt = r["states"][0] if r.get("states") else {}
        if stt.get("nl") != 1 or stt.get("nefc") != 1:
            c["skip"] = True
            continue
        c["c"] = stt["efc_KBIP"][:3]
        c["pos"] = stt["efc_pos"][0] - stt["efc_margin"][0]
    for flag in (True, False):
        cs = [c for c in kb_cases if not c.get("skip") and c["refsafe"] == flag]
        if cs:
            kb_jobs.append({"op": "kbi", "refsafe": flag, "cases": [c["solref"] + c["solimp"] + [c["pos"], c["h"]] for c in cs]})
    lap("c_drivers")

    # ------------------------------------------------------------------ MJX kernel run
    fk1 = pool.submit(run_mjx, ctx, cu_jobs + act_jobs + kb_jobs, 1500 if quick else 3000)
    fk2 = pool.submit(run_mjx, ctx, prim_jobs + eul_jobs, 1500 if quick else 3000)
    (r1, e1), (r2, e2) = fk1.result(), fk2.result()
    kerr = e1 or e2
    kres = None if (r1 is None or r2 is None) else (r1[:len(cu_jobs)] + r2[:len(prim_jobs)] + r2[len(prim_jobs):] + r1[len(cu_jobs):len(cu_jobs) + len(act_jobs)])
    kbres = [] if r1 is None else r1[len(cu_jobs) + len(act_jobs):]
    lap("mjx_kernels")
    props_ok = fut_props.result()
    if not props_ok:
        F.coq_make(targets)
    lap("coq_props_wait")
    if kres is None:
        ctx.broken.append(("correspondence", "driver c43_mjx.py (kernels) failed", kerr))
        return
    sup = ctx.cov["support"]
    skipped = {}

    def job_fail(j, r, what):
        if "notimpl" in r:
            skipped[what + " NotImplementedError"] = skipped.get(what + " NotImplementedError", 0) + 1
            return True
        if "error" in r:
            skipped[what + " " + r["error"][:60]] = skipped.get(what + " " + r["error"][:60], 0) + 1
            return True
        return False

    # ---- K1 literals
    lits1, back1 = [], []
    ncu = 0
    nbound_x = [0, 0]
    for k, (j, r) in enumerate(zip(cu_jobs, kres[:len(cu_jobs)])):
        cs = [c for c in cu_cases if c["job"] == k]
        if job_fail(j, r, "cu"):
            ctx.broken.append(("correspondence", "MJX solver.Context.create could not be run on a synthetic row composition", json.dumps(r)[:600]))
            continue
        for i, c in enumerate(cs):
            c["xout"] = {"cost": r["cost"][i], "force": r["force"][i], "active": r["active"][i], "h": r["h"][i]}
    for c in cu_cases:
        lits1.append("(false, %s, %s)" % (cu_lit_c(c), DUMMY_X)); back1.append(("C", c))
        # jars lying EXACTLY on a zone boundary are compared on the C side only: under jit + vmap XLA evaluates the zone masks in several
        # fusions with different floating-point contraction, so on the boundary itself the masks of one MJX call can be mutually inconsistent
        # (observed: normal force from the middle zone, tangential force 0); off the boundary the masks are stable
        if "xout" in c and c["tag"] != "boundary":
            lits1.append("(true, %s, %s)" % (DUMMY_C, cu_lit_x(c))); back1.append(("MJX", c))
            ncu += 1
        elif "xout" in c:
            nbound_x[0] += 1
            if rel(c["out"]["force"], c["xout"]["force"]) > 1e-6:
                nbound_x[1] += 1
    fut1 = pool.submit(ctx.coq_eval, "c43_cu", CU.COQ_IMPORTS, lits1, "chk_cu", 120, 1500, CU_PRE)

    # ---- K2 literals
    lits, back = [], []
    loose_dev, loose_dev_n = {}, {}
    off = len(cu_jobs)
    for k, (j, r) in enumerate(zip(prim_jobs, kres[off:off + len(prim_jobs)])):
        pair = j["pair"]
        cs = [c for c in prim_cases if c["pair"] == pair]
        if job_fail(j, r, "prim " + pair):
            ctx.broken.append(("correspondence", "MJX collision_primitive.%s could not be run" % pair, json.dumps(r)[:600]))
            continue
        for c, o in zip(cs, r["out"]):
            c["xout"] = o
    for c in prim_cases:
        op = PAIRS[c["pair"]][0]
        a31 = c["a"] + [c["margin"]]
        if c["cout"] is not None:
            lits.append("(false, %d%%Z, %s, %s, (nil : list (list float)), false, false)" % (op, F.flist(a31), F.flist(c["cout"]) if c["cout"] else "[]%float"))
            back.append(("C", c))
        if "xout" in c:
            a = c["a"]
            wf = True
            if c["pair"] == "plane_capsule":
                n = [a[5], a[8], a[11]]; ax = [a[20], a[23], a[26]]
                d = sum(x * y for x, y in zip(n, ax))
                wf = math.sqrt(max(0.0, sum((x - d * y) ** 2 for x, y in zip(ax, n)))) >= 0.55
            lits.append("(true, %d%%Z, %s, []%%float, [%s], %s, %s)" % (op, F.flist(a31), "; ".join(F.flist(o) for o in c["xout"]),
                                                                      "true" if c["pair"] in LOOSE else "false", "true" if wf else "false"))
            back.append(("MJX", c))
            # measured deviation MJX - C on dist/pos/normal (both implementations, no model involved)
            if c["cout"] and len(c["cout"]) == 10 * len(c["xout"]):
                d = max(rel(c["cout"][10 * q:10 * q + 4], c["xout"][q][:4]) for q in range(len(c["xout"])))
                loose_dev[c["pair"]] = max(loose_dev.get(c["pair"], 0.0), d)
                dn = max(rel(c["cout"][10 * q + 4:10 * q + 7], c["xout"][q][4:7]) for q in range(len(c["xout"])))
                loose_dev_n[c["pair"]] = max(loose_dev_n.get(c["pair"], 0.0), dn)
    fut2 = pool.submit(ctx.coq_eval, "c43_prim", "From Coq Require Import ZArith PrimFloat Bool.\nFrom MJV Require Import Lib.Num Lib.NumF Model.Spatial Model.CollidePrim.\nOpen Scope nat_scope.",
                       lits, "chk_prim", 150, 1500, PRIM_PRE)

    # ---- K3 literals
    off += len(prim_jobs)
    lits_e, back_e = [], []
    for c, j, r in zip(eul_cases, eul_jobs, kres[off:off + len(eul_jobs)]):
        base = "%s, %s, %s, %s, %s, %s" % (F.zlist(c["types"]), fl(c["h"]), F.flist(c["qpos"]), F.flist(c["qvel"]), F.flist(c["qacc"]), fl(c["t0"]))
        q1, v1, t1 = c["c"]
        lits_e.append("(false, %s, %s, %s, %s)" % (base, F.flist(q1), F.flist(v1), fl(t1))); back_e.append(("C", c))
        if job_fail(j, r, "euler"):
            continue
        o = r["out"][0]
        nq, nv = len(c["qpos"]), len(c["qvel"])
        c["x"] = (o[:nq], o[nq:nq + nv], o[nq + nv])
        lits_e.append("(true, %s, %s, %s, %s)" % (base, F.flist(c["x"][0]), F.flist(c["x"][1]), fl(c["x"][2]))); back_e.append(("MJX", c))
    pre_i = "From Coq Require Import ZArith List Bool PrimFloat.\nImport ListNotations.\nFrom MJV Require Import Lib.Num Lib.NumF Model.Integrate.\n"
    fut3 = pool.submit(ctx.coq_eval, "c43_euler", pre_i, lits_e, "chk_euler", 20, 1500, "Open Scope float_scope.\n" + INT_PRE)
    off += len(eul_jobs)
    lits_a, back_a = [], []
    for keep, j, r in zip(act_cases, act_jobs, kres[off:off + len(act_jobs)]):
        xo = None if job_fail(j, r, "act") else r["out"][0]
        for k, w in enumerate(keep):
            base = "%s, %s, %s, %s, %s, %s, %s, %s" % ("true" if w["dyn"] == 3 else "false", fl(w["h"]), fl(w["act"]), fl(w["act_dot"]), fl(w["prm0"]),
                                                       "true" if w["lim"] else "false", fl(w["lo"]), fl(w["hi"]))
            lits_a.append("(%s, %s)" % (base, fl(w["c"]))); back_a.append(("C", w))
            if xo is not None:
                w["x"] = xo[k]
                lits_a.append("(%s, %s)" % (base, fl(xo[k]))); back_a.append(("MJX", w))
    fut4 = pool.submit(ctx.coq_eval, "c43_act", pre_i, lits_a, "chk_act", 400, 1500, "Open Scope float_scope.\n" + INT_PRE)

    # ---- K4 literals
    lits_k, back_k = [], []
    for j, r in zip(kb_jobs, kbres):
        cs = [c for c in kb_cases if not c.get("skip") and c["refsafe"] == j["refsafe"]]
        if job_fail(j, r, "kbi"):
            ctx.broken.append(("correspondence", "MJX constraint._kbi could not be run", json.dumps(r)[:600]))
            continue
        for c, o in zip(cs, r["out"]):
            c["x"] = o
            lits_k.append("(%s, %s, %s, %s, %s, %s, %s, %s, %s)" % ("true" if c["refsafe"] else "false", fl(c["h"]), fl(c["solref"][0]), fl(c["solref"][1]), fl(c["solimp"][1]),
                                                                   fl(c["c"][0]), fl(c["c"][1]), fl(o[0]), fl(o[1])))
            back_k.append(c)
            if rel([c["c"][2]], [o[2]]) > 1e-9:
                ctx.violation("impl_violation", {"op": "constraint impedance", "solref": c["solref"], "solimp": c["solimp"], "pos_minus_margin": c["pos"], "timestep": c["h"]},
                              expected="impedance of the C engine (efc_KBIP[2]): %r" % c["c"][2], observed="mjx constraint._kbi: %r" % o[2], theorem=None,
                              signature={"site": "mjx constraint._kbi", "quantity": "impedance"}, note="C function and MJX function compared directly (no model)")
    fut5 = pool.submit(ctx.coq_eval, "c43_kb", "From Coq Require Import ZArith List Bool PrimFloat.\nImport ListNotations.\nFrom MJV Require Import Lib.Num Lib.NumF Model.Spatial Model.ConstraintUpdate Model.MjxKernels.\n",
                       lits_k, "chk_kb", 400, 1500, "Open Scope float_scope.\n" + KB_PRE)

    # ---- results of the four model evaluations
    fails = fut1.result()
    seen = set()
    for i in fails:
        side, c = back1[i]
        key = (side, c["cfg"]["cone"], c["tag"])
        if key in seen:
            continue
        seen.add(key)
        ctx.violation("correspondence", dict(CU.case_json(c), side=side, cone=c["cfg"]["cone"], impratio=c["cfg"]["impratio"]),
                      expected="output of Model/ConstraintUpdate.v (float run, tolerance 2^-30 scaled)",
                      observed=(CU.out_json(c["out"]) if side == "C" else {k: (v if k != "h" else "...") for k, v in c["xout"].items()}),
                      found_input=(side == "MJX" and "out" in c and rel(c["out"]["force"], c["xout"]["force"]) > 1e-6), theorem="correspondence constraint row law (C12_gradient)",
                      signature={"site": "mj_constraintUpdate_impl" if side == "C" else "mjx solver._update_constraint"},
                      note="%s and the Coq model disagree on this input%s" % (side, "; the MJX output also differs from the C output (1e-6)" if side == "MJX" else ""))
    ncorr = len(fails)
    lap("coq_cu")
    fails = fut2.result()
    seen = set()
    for i in fails:
        side, c = back[i]
        if (side, c["pair"]) in seen:
            continue
        seen.add((side, c["pair"]))
        both = side == "MJX" and c["cout"] and len(c["cout"]) == 10 * len(c["xout"]) and \
            max(rel(c["cout"][10 * q:10 * q + (4 if c["pair"] in LOOSE else 7)], c["xout"][q][:(4 if c["pair"] in LOOSE else 7)]) for q in range(len(c["xout"]))) > (1e-4 if c["pair"] in LOOSE else 1e-6)
        ctx.violation("correspondence", {"pair": c["pair"], "side": side, "args_pos1_mat1_size1_pos2_mat2_size2": c["a"], "margin": c["margin"]},
                      expected="contacts of Model/CollidePrim.v (float run)", observed=c["cout"] if side == "C" else c["xout"], found_input=bool(both),
                      theorem="correspondence collision primitive " + c["pair"], signature={"site": ("mjc_" if side == "C" else "mjx collision_primitive.") + c["pair"]},
                      note="%s and the Coq model disagree on this input%s" % (side, "; MJX also differs from the C function" if both else ""))
    ncorr += len(fails)
    nprim_x = sum(1 for s, _ in back if s == "MJX")
    sup["mjx_vs_c_max_deviation_dist_pos"] = {k: float("%.3g" % v) for k, v in loose_dev.items()}
    sup["mjx_vs_c_max_deviation_normal"] = {k: float("%.3g" % v) for k, v in loose_dev_n.items()}
    sup["regularised_kernels_note"] = ("mjx sphere_capsule / capsule_capsule use math.closest_segment_point / closest_segment_to_segment_points whose denominators carry "
                                       "+ 1e-6: compared with the model at 1e-4 relative only (everything else at 2^-30); the measured deviation from mjc_SphereCapsule / mjc_CapsuleCapsule is above")
    lap("coq_prim")

    fails = fut3.result()
    for i in fails[:4]:
        side, c = back_e[i]
        both = side == "MJX" and rel(c["c"][0], c["x"][0]) > 1e-6
        ctx.violation("correspondence", {"op": "Euler advance", "side": side, "model": {"seed": c["model"][0], "feat": c["model"][1], "nbody": c["model"][2]}, "rep": c["rep"],
                                         "jnt_type": c["types"], "h": c["h"], "qpos": c["qpos"], "qvel": c["qvel"], "qacc": c["qacc"]},
                      expected="Model/Integrate.v euler", observed={"qpos": (c["c"] if side == "C" else c["x"])[0], "qvel": (c["c"] if side == "C" else c["x"])[1]},
                      found_input=bool(both), theorem="correspondence Euler advance (C05_euler_order)",
                      signature={"site": "mj_Euler" if side == "C" else "mjx forward._advance"})
    ncorr += len(fails)
    fails = fut4.result()
    for i in fails[:4]:
        side, w = back_a[i]
        both = side == "MJX" and rel([w["c"]], [w["x"]]) > 1e-6
        ctx.violation("correspondence", {"op": "next activation", "side": side, "dyntype": w["dyn"], "h": w["h"], "act": w["act"], "act_dot": w["act_dot"],
                                         "dynprm0": w["prm0"], "actlimited": w["lim"], "actrange": [w["lo"], w["hi"]]},
                      expected="Model/Integrate.v nextActivation", observed=w["c"] if side == "C" else w["x"], found_input=bool(both),
                      theorem="correspondence activation update (C05_act_clamp_after)",
                      signature={"site": "mj_nextActivation" if side == "C" else "mjx forward._next_activation"})
    ncorr += len(fails)
    fails = fut5.result()
    for i in fails[:4]:
        c = back_k[i]
        both = rel(c["c"][:2], c["x"][:2]) > 1e-6
        ctx.violation("correspondence", {"op": "K, B of the reference acceleration", "solref": c["solref"], "solimp": c["solimp"], "timestep": c["h"], "refsafe": c["refsafe"],
                                         "mjcf": MM.to_xml(c["M"]), "state": c["state"]},
                      expected="Model/MjxKernels.v c_kb / mjx_kb (float run)", observed={"C_efc_KBIP": c["c"], "mjx_kbi": c["x"]}, found_input=bool(both),
                      theorem="correspondence K/B (C43_mjx_kb, C43_kb_meaning)", signature={"site": "mjx constraint._kbi" if both else "K/B model"},
                      note="C engine, MJX and the Coq model are compared pairwise%s" % ("; MJX differs from the C engine" if both else ""))
    ncorr += len(fails)
    lap("coq_integ")

    # ------------------------------------------------------------------ whole pipeline (support)
    px = []
    for f in fut_pipe:
        r, e = f.result()
        if r is None:
            ctx.broken.append(("oracle", "driver c43_mjx.py (pipeline) failed", e))
            px = None
            break
        px += r
    lap("mjx_pipeline_wait")
    stats, worst, notes = {}, {}, []
    tail_cases = []
    if px is not None and pc and len(pc) == len(pmodels) == len(px):
        for (M, states), c, x in zip(pmodels, pc, px):
            if M.get("known") == "jdotv":
                jdotv_replay(ctx, M, states, c, x, sup)
                continue
            if M.get("known") == "implicit_clamp":
                implicit_clamp_replay(ctx, M, states, c, x, sup)
                continue
            if M["family"] == "actuation" and "states" in c and "states" in x and "model" in c and "error" not in c:
                # per-dof tie of the actuation tail: joint-space force of the actuators on the joint (gear * actuator_force of THAT engine), gravcomp force,
                # flags and range of the compiled C model -> Model/MjxKernels.v act_tail, against qfrc_actuator of the same engine
                types_, dofadr, a0 = [j["type"] for b in M["bodies"] for j in b["joints"]], [], 0
                for t in types_:
                    dofadr.append(a0); a0 += {0: 6, 1: 3, 2: 1, 3: 1}[t]
                for sc_, sx_ in zip(c["states"], x["states"]):
                    for side, st in (("C", sc_), ("MJX", sx_)):
                        if "actuator_force" not in st:
                            continue
                        for jn in range(len(types_)):
                            frc = sum(a["gear"] * st["actuator_force"][k] for k, a in enumerate(M["acts"]) if a["joint"] == jn)
                            dv = dofadr[jn]
                            tail_cases.append((side, M, jn, [frc, st["qfrc_gravcomp"][dv], c["model"]["jnt_actfrcrange"][2 * jn], c["model"]["jnt_actfrcrange"][2 * jn + 1],
                                                             st["qfrc_actuator"][dv]], bool(c["model"]["jnt_actgravcomp"][jn]), bool(c["model"]["jnt_actfrclimited"][jn])))
            found = compare_pipeline(M, c, x, stats, worst, notes)
            found.sort(key=lambda t: not (t[0].startswith("number of active contacts") or "missing in MJX" in t[0]))      # structural differences first
            for what, d, tol, si in found[:3]:
                ctx.violation("impl_violation", {"family": M["family"], "mjcf": MM.to_xml(M), "state": states[si] if si >= 0 else None, "quantity": what},
                              expected="MJX (working tree, float64) equals the C engine of the working tree within %g relative" % tol,
                              observed="relative difference %s" % d, theorem=None, signature={"site": "mjx pipeline", "quantity": what.split(" ")[0]},
                              note="support oracle: whole-pipeline comparison on a model built through mjSpec (C) and MJCF (MJX); no theorem covers this")
    elif px is not None and pc:
        ctx.broken.append(("oracle", "pipeline replies do not line up", "%d models, %d C dumps, %d MJX replies" % (len(pmodels), len(pc), len(px))))
    if tail_cases:
        tl = ["(%s, %s, %s)" % (F.flist(a), "true" if g else "false", "true" if lm else "false") for _, _, _, a, g, lm in tail_cases]
        tf = ctx.coq_eval("c43_tail", "From Coq Require Import ZArith List Bool PrimFloat.\nImport ListNotations.\nFrom MJV Require Import Lib.Num Lib.NumF Model.Spatial Model.ConstraintUpdate Model.MjxKernels.\n",
                          tl, "chk_tail", 400, 900, "Open Scope float_scope.\nDefinition g (l : list float) (i : nat) : float := nth i l 0%%float.\n"
                          "Definition chk_tail (c : list float * bool * bool) : bool := let '(a, gc, lm) := c in "
                          "fclose %s (act_tail (T:=float) (g a 0) (g a 1) gc lm (g a 2) (g a 3)) (g a 4).\n" % TOL)
        seen_t = set()
        for i in tf:
            side, Mt, jn, a, gflag, lm = tail_cases[i]
            if side in seen_t:
                continue
            seen_t.add(side)
            ctx.violation("correspondence", {"op": "actuation tail", "side": side, "joint": jn, "joint_space_actuator_force": a[0], "qfrc_gravcomp": a[1],
                                             "actuatorfrcrange": a[2:4], "actuatorgravcomp": gflag, "actuatorfrclimited": lm, "mjcf": MM.to_xml(Mt)},
                          expected="Model/MjxKernels.v act_tail (gravcomp added, then clamped)", observed="qfrc_actuator = %r" % a[4], found_input=(side == "MJX"),
                          theorem="correspondence actuation tail (C43_act_tail)", signature={"site": "mj_fwdActuation" if side == "C" else "mjx forward.fwd_actuation"})
        sup["actuation_tail_cases"] = len(tail_cases)
    sup["pipeline_counts"] = stats
    sup["pipeline_worst_relative_difference"] = {k: float("%.3g" % v) for k, v in sorted(worst.items())}
    sup["pipeline_notes"] = sorted(set(notes))[:12]
    sup["pipeline_tolerance"] = ("1e-6 relative (scaled by 1 + max |.|); family 'capsules' 1e-4 because of MJX's regularised segment-point kernels; solver outputs (qacc, "
                                 "qfrc_constraint, next state) in states with active contacts 1e-5 (pyramidal) / 1e-4 (elliptic): convergence of two iterative solvers")
    sup["skipped_mjx_jobs"] = skipped
    sup["mjx_row_law_cases_exactly_on_a_zone_boundary"] = {"not_compared": nbound_x[0], "of_which_mjx_force_differs_from_c_by_more_than_1e-6": nbound_x[1],
                                                         "note": "XLA fusion artefact at measure-zero points: zone masks evaluated inconsistently inside one jit+vmap call"}
    sup["activations_with_dyntype_unsupported_by_mjx"] = nskip_dyn[0]
    ctx.cov["evaluations"] = len(cu_cases) + ncu + len(lits) + len(lits_e) + len(lits_a) + len(lits_k)
    sup["kb_cases"] = len(lits_k)
    ctx.cov["distinct_nontrivial"] = ncu + nprim_x + sum(1 for s, _ in back_e if s == "MJX") + sum(1 for s, _ in back_a if s == "MJX")
    ctx.cov["rule"] = ("every kernel input is run through the C function of the tree, the MJX function of the tree and the Coq model: constraint row law "
                       "(synthetic compositions of equality / friction-loss / limit / frictionless / pyramidal rows and elliptic contacts of dim 3, 4, 6, one cone "
                       "type and impratio per composition; random jars and jars on zone boundaries); five collider pairs at small signed distances; Euler "
                       "advance and activation update on mjgen models; distinct_nontrivial counts the MJX-side cases")
    ctx.cov["samples"] = [CU.case_json(cu_cases[0]), {"pair": prim_cases[0]["pair"], "args": prim_cases[0]["a"]},
                          {"euler_types": eul_cases[0]["types"] if eul_cases else None}]
    ctx.cov["correspondence_disagreements"] = ncorr
    ctx.cov["explanation"] = ("kernels: %d C-side and %d MJX-side cases of the row law, %d collider cases, %d Euler and %d activation cases against the Coq models; "
                              "pipeline (support): %s" % (len(cu_cases), ncu, len(lits), len(lits_e), len(lits_a), json.dumps(stats)))
