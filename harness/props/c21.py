"""C21 — allocation failure never causes undefined behaviour (PARTIAL: allocation/cleanup protocol)."""
import os, re, sys
import framework as F

sys.path.insert(0, os.path.join(F.VERIF, "translate"))
import c21_scan as S  # noqa: E402

META = {
    "id": "C21", "category": "proof", "design_ref": "DESIGN.md section 5 (listed there as not applicable; built as a partial claim in round 2)",
    "technique": "Coq proof about an executable protocol model (interaction trees over a failure oracle; universal statements reduced to a "
                 "finite path enumeration by a proved lemma) + fail-closed source scan selecting the model variant + trace validation of the "
                 "real library under allocation-fault injection through mju_user_malloc/mju_user_free, one forked child per schedule",
    "text": "PARTIAL. Proved (Coq, no axioms): (1) the trace monitor safe_trace used on implementation traces is sound and complete for the declarative "
            "small-step definition of a safe trace, and an accepted trace has no double free, frees/uses only live blocks and never uses NULL "
            "(C21_monitor_sound, C21_no_double_free, C21_free_only_live, C21_no_null_or_dangling_use, C21_live_set); (2) for EVERY failure oracle "
            "nat->bool (any subset of allocation attempts failing), both handler modes of the documented contract (default handler: process exit; "
            "handler that longjmps), every scenario (mj_copyModel new/in place, mj_loadModelBuffer for each of 10 accept/reject classes, mj_saveModel "
            "to a file, mj_makeData/mj_copyData/mj_resetData/mj_deleteData with 0/1/2 plugin instances, the engine calls of mjCModel::Compile with "
            "retry, the IN-PLACE remake of an mjData owned by the caller (mj_makeRawData + mj_initPlugin + mj_resetData as in mjCModel::MakeData) "
            "followed by mj_deleteData also after a failure, and compile + make data + in-place mj_recompile followed by what the caller must do) "
            "and all 64 source variants: the model's trace is safe, contains an error or NULL return iff an attempted allocation failed or the "
            "file is rejected, the live set at a normal end is exactly what the caller owns, and constructor+destructor leaves the heap empty "
            "(C21_protocol_safe, C21_failure_iff_abnormal, C21_leak_free, C21_ctor_dtor_empty; C21_inplace_failure_deletable: a failed in-place "
            "construction leaves an object whose deletion frees every live block exactly once; safe_clause_holds/leak_clause_holds name the "
            "variants where the clauses hold, and C21_inplace_dangling_buffer_refuted / C21_inplace_plugin_refuted show they fail elsewhere); the universal quantifier over oracles is discharged by "
            "C21_oracles_are_paths (every oracle follows one of the finitely many paths of the loop-free program, proved by induction) plus vm_compute "
            "over the paths; plugin counts are bounded by 2 in the statement. (3) The leak clause is proved FALSE of the faithful model where the "
            "code is defective (C21_compile_leak_refuted: mju_malloc raises the error itself, so under the compiler's longjmp handler the struct "
            "allocated by mj_makeModel/mj_makeRawData before the failing buffer allocation is lost; C21_compile_plugin_leak_refuted; "
            "C21_load_structs_leak_refuted). Tied: the source scan (translate/c21_scan.py) checks the ordered allocation/free/error/return tokens of the 19 "
            "modelled functions (21 with mjCModel::MakeData and mj_recompile) against the lists the model was written against and selects the variant; the real library's event trace "
            "(allocations with size class, frees, error/warning handler calls, returns, exit status) equals the model's trace for every single "
            "fault k and for seeded random multi-fault sets on mjgen and plugin models. Observed only: absence of NULL dereference / crash "
            "(wait status of the forked child; freed blocks are quarantined and poisoned; in the thorough tier a second pass runs the driver LINKED with "
            "the AddressSanitizer/LeakSanitizer runtime - library code is not instrumented because include/mujoco/mjsan.h does not compile with gcc under "
            "-fsanitize=address, so only the runtime's malloc/free/memcpy/memset interceptors and the leak check at the end of each completed scenario "
            "apply; LeakSanitizer's verdict is compared with the live set of the hooks), no allocation through mju_malloc during "
            "mj_step/mj_forward/mj_inverse/mj_resetData beyond the modelled ones on these models, mj_compile returning NULL with a non-empty error. Leaks are judged only on runs that "
            "return to the caller (NULL/error return, compile path); blocks live when mju_error ends the process or leaves through the harness' own "
            "longjmp handler are NOT counted as leaks. Not covered: the XML parser (not buildable here), failures of C++ new in the compiler, "
            "Python bindings, mjv_makeScene, mju_boxQPmalloc, mj_printFormattedData, flex collision scratch buffers, mesh/composite/flexcomp "
            "buffers of the compiler (listed in coverage.support.call_sites), handlers that return (outside the documented contract), "
            "the rejected-size exits of an in-place mj_makeModel, threadpool creation (C++ new). When the model itself runs into undefined behaviour "
            "(in-place scenarios of a defective variant) the tie requires agreement only up to that point and the run is reported as a violation.",
    "note": "Trusted: Coq kernel; hand-written model Model/AllocProto.v (per-site transcription; Use events are the model's reading of where the code "
            "dereferences, they are not observable in implementation traces); the token scan compares shapes, not full control flow; gcc, the fork/"
            "shared-memory trace recorder of harness/drivers/c21_alloc.c; size-class identification of allocation sites. All theorems closed under "
            "the global context.",
    "assumptions": ["allocation sizes are positive at every modelled site (true of every compiled model: nbody >= 1, narena > 0)",
                    "error handlers do not return (documented contract of mju_error); the returning-handler mode appears only in an Example",
                    "the harness plugin (init allocates one block through mju_malloc, destroy frees it) stands for plugin state allocation",
                    "tie is trace equality on the schedules of this run: all single faults + seeded random multi-fault sets"],
}

SITE_NAMES = ["mjModel", "mjModel.buffer", "mjData", "mjData.buffer", "mjData.arena", "plugin.init", "resetData.plugin_state",
              "resetData.plugin_data", "copyData.save_plugin_data", "saveModel.tmpbuf", "writeResource.vfs"]
LREJ = ["LR_none", "LR_header", "LR_mk_early", "LR_mk_names", "LR_nbuffer", "LR_namesmap", "LR_structs", "LR_array", "LR_toolarge", "LR_validate"]
API = {"CM": "mj_copyModel", "LD": "mj_loadModelBuffer", "SV": "mj_saveModel", "DT": "mj_makeData/mj_copyData", "ST": "mj_step", "CP": "mj_compile",
       "IP": "mj_makeRawData(in place)", "RC": "mj_recompile"}
FOREIGN_ID = 4095

PRE = r"""
Definition V : variant := {| v_mbuf := %s; v_dbuf := %s; v_darena := %s; v_lstructs := %s; v_dnull := %s; v_npl := %s |}.
Definition norm (cls : list nat) (e : event) : event :=
  match e with
  | Alloc k s => Alloc k (nth s cls 98)
  | AllocFail k s => AllocFail k (nth s cls 98)
  | Warn _ => Warn 0
  | x => x
  end.
Definition opt_eqb (a b : option nat) : bool :=
  match a, b with Some x, Some y => Nat.eqb x y | None, None => true | _, _ => false end.
Definition ev_eqb (a b : event) : bool :=
  match a, b with
  | Alloc k s, Alloc k' s' => Nat.eqb k k' && Nat.eqb s s'
  | AllocFail k s, AllocFail k' s' => Nat.eqb k k' && Nat.eqb s s'
  | Free k, Free k' => Nat.eqb k k'
  | Use p, Use q => opt_eqb p q
  | Error c, Error c' => Nat.eqb c c'
  | Warn c, Warn c' => Nat.eqb c c'
  | Return RetOk, Return RetOk => true
  | Return RetNull, Return RetNull => true
  | _, _ => false
  end.
Fixpoint tr_eqb (a b : trace) : bool :=
  match a, b with
  | [], [] => true
  | x :: r, y :: s => ev_eqb x y && tr_eqb r s
  | _, _ => false
  end.
(* frees of distinct live blocks commute: runs of consecutive Free events are compared as sorted runs *)
Fixpoint ins (k : nat) (l : list nat) : list nat :=
  match l with [] => [k] | x :: r => if Nat.leb k x then k :: l else x :: ins k r end.
Fixpoint canon (t : trace) (pending : list nat) : trace :=
  match t with
  | Free k :: r => canon r (ins k pending)
  | e :: r => map Free pending ++ e :: canon r []
  | [] => map Free pending
  end.
(* errors caught by the compiler's own handler (class >= 100) are not visible to the global handler *)
Definition drop_err (t : trace) : trace := filter (fun e => match e with Error c => Nat.ltb c 100 | _ => true end) t.
(* longest prefix of a trace that the monitor accepts *)
Fixpoint safe_prefix (h : list nat) (t : trace) : trace :=
  match t with
  | [] => []
  | e :: r => match step_heap h e with Some h' => e :: safe_prefix h' r | None => [] end
  end.
Fixpoint is_prefix (a b : trace) : bool :=
  match a, b with
  | [], _ => true
  | x :: r, y :: s => ev_eqb x y && is_prefix r s
  | _, _ => false
  end.
Definition model_safe (c : scenario * hmode * list nat * list nat * bool * nat * trace) : bool :=
  let '(sc, md, fails, _, _, _, _) := c in
  safe_trace (trace_of (run (scenario_prog V md sc) (oracle_of fails) 0)).
Definition end_kind (r : res (list nat)) : nat := match r with Val _ => 0 | Raised => 1 | Exited => 2 end.
Definition tie (c : scenario * hmode * list nat * list nat * bool * nat * trace) : bool :=
  let '(sc, md, fails, cls, iscp, endk, impl) := c in
  let x := run (scenario_prog V md sc) (oracle_of fails) 0 in
  let full := trace_of x in
  if safe_trace full
  then tr_eqb (canon (drop_err (map (norm cls) (observable full))) []) (canon impl []) && Nat.eqb (end_kind (value_of x)) endk
  else (* the model itself runs into undefined behaviour (free/use of a dead block): the implementation must agree up to
          that point, what it does afterwards is unconstrained *)
       is_prefix (drop_err (map (norm cls) (observable (safe_prefix [] full)))) impl.
"""
IMPORTS = "From Coq Require Import List Bool Arith.\nFrom MJV Require Import Model.AllocProto Proof.AllocProtoProof."


def coq_bool(b):
    return "true" if b else "false"


def coq_scenario(scen, np, rej):
    n = "NP%d" % np
    return {"CM": "SC_COPYMODEL false", "LD": "SC_LOAD %s false" % LREJ[rej], "SV": "SC_SAVE", "DT": "SC_DATA %s false" % n,
            "ST": "SC_STEP %s" % n, "CP": "SC_COMPILE %s false" % n, "IP": "SC_INPLACE %s" % n, "RC": "SC_RECOMPILE %s" % n}[scen]


class Run:
    __slots__ = ("scen", "mode", "idx", "rej", "fails", "tokens", "trailer", "status", "line")


def parse_runs(out):
    sizes, runs, other = {}, [], []
    for line in out.split("\n"):
        if line.startswith("SIZES "):
            t = line.split()
            sizes[int(t[1])] = {k: int(v) for k, v in (x.split("=") for x in t[2:])}
        elif line.startswith("RUN "):
            parts = [p.strip() for p in line.split("|")]
            if len(parts) < 4:
                other.append(line); continue
            h = parts[0].split()
            r = Run()
            r.scen, r.mode, r.idx, r.rej = h[1], h[2], int(h[3]), int(h[4])
            r.fails = [] if parts[1] == "-" else [int(x) for x in parts[1].split(",")]
            r.tokens = parts[2].split()
            r.trailer = parts[3] if len(parts) > 4 else ""
            r.status = parts[-1]
            r.line = line
            runs.append(r)
        elif line.strip():
            other.append(line)
    return sizes, runs, other


def size_table(sz):
    """site -> size, and size -> class (rank among the distinct sizes)."""
    site_size = [sz["model"], sz["mbuf"], sz["data"], sz["dbuf"], sz["arena"], sz["plug"], 8 * sz["npluginstate"],
                 8 * sz["nplugin"], 8 * sz["nplugin"], sz["save"], sz["vfs"]]
    distinct = sorted(set(site_size))
    cls = {s: i for i, s in enumerate(distinct)}
    # the edited model of the RC scenario has its own buffer sizes: same sites
    cls.setdefault(sz.get("mbuf2", -1), cls[sz["mbuf"]])
    cls.setdefault(sz.get("dbuf2", -1), cls[sz["dbuf"]])
    return site_size, cls


def to_events(r, cls):
    """implementation tokens -> (coq events, end kind, problems, failed attempt sizes)"""
    evs, probs = [], []
    endk = None
    failed = []
    for t in r.tokens:
        m = re.fullmatch(r"A(\d+):(\d+)", t)
        if m:
            evs.append("Alloc %s %d" % (m.group(1), cls.get(int(m.group(2)), 99))); continue
        m = re.fullmatch(r"X(\d+):(\d+)", t)
        if m:
            evs.append("AllocFail %s %d" % (m.group(1), cls.get(int(m.group(2)), 99))); failed.append(int(m.group(2))); continue
        m = re.fullmatch(r"F(\d+)", t)
        if m:
            evs.append("Free %s" % m.group(1)); continue
        m = re.fullmatch(r"FF(\d+)", t)
        if m:
            evs.append("Free %s" % m.group(1)); probs.append("double free of block %s" % m.group(1)); continue
        if t == "G":
            evs.append("Free %d" % FOREIGN_ID); probs.append("free of a pointer that MuJoCo's allocator never returned"); continue
        m = re.fullmatch(r"E(\d+)", t)
        if m:
            evs.append("Error %s" % m.group(1)); continue
        if t == "W":
            evs.append("Warn 0"); continue
        if t == "R1":
            evs.append("Return RetOk"); continue
        if t == "R0":
            evs.append("Return RetNull"); continue
        if re.fullmatch(r"C\d", t):
            continue
        if t == "END":
            endk = 0; continue
        if t == "J":
            endk = 1; continue      # overwritten by a later END when the scenario caught the error itself (RC, IP)
        probs.append("unexpected token %s" % t)
    return evs, endk, probs, failed


def oracle(r, site_size):
    """independent checks of one implementation run against the property text; returns list of (kind, detail, signature)."""
    out = []
    toks = r.tokens
    size_name = {}
    for i, s in enumerate(site_size):
        size_name.setdefault(s, SITE_NAMES[i])
    sig_site = API.get(r.scen, r.scen)
    xs = [t for t in toks if t.startswith("X")]
    failed_names = [size_name.get(int(t.split(":")[1]), "size %s" % t.split(":")[1]) for t in xs]
    base_sig = {"site": sig_site}
    if r.scen == "LD":
        base_sig["reject"] = LREJ[r.rej][3:]
    if r.scen in ("DT", "ST", "CP", "IP", "RC"):
        base_sig["plugin"] = False   # overwritten by caller
    # crash
    if r.status.startswith("sig:") or (r.status.startswith("exit:") and r.status not in ("exit:0", "exit:1")):
        out.append(("crash", "child ended with %s" % r.status, dict(base_sig, kind="crash-after-alloc-failure" if xs else "crash",
                                                                    failed=failed_names[:1])))
        return out
    for t in toks:
        if t.startswith("FF"):
            out.append(("double-free", "block %s freed twice" % t[2:], dict(base_sig, kind="double-free", failed=failed_names[:1])))
        if t == "G":
            out.append(("foreign-free", "free of a pointer not handed out by the allocator", dict(base_sig, kind="foreign-free", failed=failed_names[:1])))
        if t == "HANDLER-RETURNED":
            out.append(("no-exit", "default error handler returned", dict(base_sig, kind="default-handler-returned")))
    # failure must surface: after a failed attempt, an error/NULL return must come before the next non-NULL return / normal end
    pending = None
    for t in toks:
        if t.startswith("X"):
            pending = pending or t
        elif re.fullmatch(r"[EC]\d+", t) or t in ("R0", "J", "W"):
            pending = None
        elif (t == "R1" or t == "END") and pending:
            out.append(("silent-failure", "allocation attempt %s failed but the call went on to %s without error or NULL return" % (pending, t),
                        dict(base_sig, kind="failure-not-surfaced", failed=failed_names[:1])))
            pending = None
    # the default handler terminates the process with EXIT_FAILURE
    if r.mode == "E" and any(re.fullmatch(r"E\d+", t) for t in toks) and r.status != "exit:1":
        out.append(("exit-status", "error raised under the default handler but the process ended with %s" % r.status,
                    dict(base_sig, kind="default-handler-status")))
    # compile: NULL return must come with an error message about the allocation
    if r.scen in ("CP", "RC"):
        for i, t in enumerate(toks):
            if t == "R0" and (i == 0 or not re.fullmatch(r"C[12]", toks[i - 1])):
                out.append(("compile-no-error", "mj_compile returned NULL with an empty error message", dict(base_sig, kind="null-without-message")))
    # leak: the scenario destroyed every object it created and returned normally (not judged when an error left
    # through the harness' own longjmp handler on the way: temporaries live at that point are not counted)
    if "END" in toks and "J" not in toks:
        m = re.search(r"live:([\d,]*)", r.trailer)
        live = [int(x) for x in m.group(1).split(",") if x] if m else None
        if live is None:
            out.append(("trailer", "no live-set trailer", dict(base_sig, kind="harness")))
        elif live:
            sizes = {}
            for t in toks:
                mm = re.fullmatch(r"A(\d+):(\d+)", t)
                if mm:
                    sizes[int(mm.group(1))] = int(mm.group(2))
            leaked = sorted(set(size_name.get(sizes.get(b), "size %s" % sizes.get(b)) for b in live))
            if xs:
                sig = dict(base_sig, kind="leak-after-engine-alloc-failure", failed=failed_names[0])
                if r.scen == "RC":
                    sig["site"] = "mj_compile"     # a leak judged here (no error through the global handler) happened inside mjCModel::Compile
            else:
                sig = dict(base_sig, kind="leak-on-rejected-file" if r.scen == "LD" else "leak")
            out.append(("leak", "blocks %s (%s) still live after the scenario destroyed every object it was given" % (live, ", ".join(leaked)), sig))
    return out


def run(ctx):
    import time
    rng = ctx.rng
    tm = {}
    t0 = time.time()
    ctx.coq_props(allowed_axioms=(), extra_targets=["Model/AllocProto.vo", "Proof/AllocProtoProof.vo"])
    tm["coq_props"] = round(time.time() - t0, 1); t0 = time.time()
    # ---------------------------------------------------------------- source scan -> variant
    scan_ok = True
    try:
        variant, info = S.scan(ctx.repo)
    except F.TranslatorError as e:
        ctx.broken.append(("translator", "allocation-site scan (translate/c21_scan.py)", str(e)))
        scan_ok = False
        # keep going with the variant read off leniently: the monitor and the oracles still search for a failing schedule
        variant = getattr(e, "variant", None) or {"v_mbuf": False, "v_dbuf": False, "v_darena": False, "v_lstructs": False, "v_dnull": False, "v_npl": False}
        info = {"functions": {}, "allocators": {}}
    try:
        inv = S.inventory(ctx.repo)
    except OSError as e:
        inv = {}
        ctx.broken.append(("translator", "call-site inventory", str(e)))
    sites = []
    for f, lst in sorted(inv.items()):
        per = {}
        for (ln, fn) in lst:
            per[fn] = per.get(fn, 0) + 1
        for fn, n in sorted(per.items()):
            sites.append({"file": f, "function": fn, "calls": n, "modelled": (f, fn) in S.MODELLED})
        exp = S.INVENTORY.get(f, "absent")
        if f == "src/engine/engine_io.c" and exp != per:
            ctx.broken.append(("translator", "allocation call sites of src/engine/engine_io.c changed",
                               "found %s, model written against %s" % (per, exp)))
        elif exp == "absent":
            ctx.cov["support"].setdefault("new_alloc_files", []).append(f)
    ctx.cov["support"]["call_sites"] = sites
    ctx.cov["support"]["variant"] = variant
    ctx.cov["support"]["scanned_functions"] = sorted(info["functions"].keys())

    # ---------------------------------------------------------------- implementation runs
    tm["scan"] = round(time.time() - t0, 1); t0 = time.time()
    exe = ctx.driver("c21_alloc", ["c21_alloc.c"])
    if exe is None:
        return
    tm["build"] = round(time.time() - t0, 1); t0 = time.time()
    savepath = os.path.join(ctx.scratch, "c21_save_%d.mjb" % os.getpid())
    quick = ctx.tier == "quick"
    ALL = 0x7FFFF
    if ctx.replay and isinstance(ctx.replay.get("case"), dict) and ctx.replay["case"].get("run"):
        lines = list(ctx.replay["case"].get("models", [])) + [ctx.replay["case"]["run"]]
        model_lines = {int(l.split()[1]): l for l in lines if l.startswith("MODEL")}
    else:
        gens = [(rng.randrange(1, 10 ** 6), ALL, 4), (rng.randrange(1, 10 ** 6), 0x0F, 3), (rng.randrange(1, 10 ** 6), ALL & ~0x8, 6)]
        if not quick:
            for _ in range(6):
                gens.append((rng.randrange(1, 10 ** 6), rng.randrange(0, ALL + 1), rng.randrange(2, 9)))
        model_lines = {}
        for i, (sd, ft, nb) in enumerate(gens):
            model_lines[i] = "MODEL %d gen %d %d %d" % (i, sd, ft, nb)
        p1, p2 = len(gens), len(gens) + 1
        model_lines[p1] = "MODEL %d plug 1" % p1
        model_lines[p2] = "MODEL %d plug 2" % p2
        nr = 3 if quick else 8
        lines = [model_lines[i] for i in sorted(model_lines)]
        for i in range(len(gens)):
            sd = rng.randrange(1, 10 ** 6)
            for mode in "EJ":
                lines.append("SWEEP CM %s %d 0 %d %d" % (mode, i, nr, sd))
                lines.append("SWEEP SV %s %d 0 %d %d" % (mode, i, nr, sd + 1))
                lines.append("SWEEP DT %s %d 0 %d %d" % (mode, i, nr, sd + 2))
                lines.append("SWEEP CP %s %d 0 %d %d" % (mode, i, nr, sd + 3))
                lines.append("SWEEP IP %s %d 0 %d %d" % (mode, i, nr, sd + 30))
                if i == 0 or not quick:
                    lines.append("SWEEP RC %s %d 0 %d %d" % (mode, i, nr, sd + 31))
                for rej in range(len(LREJ)):
                    if i == 0 or rej in (0, 6) or not quick:
                        lines.append("SWEEP LD %s %d %d %d %d" % (mode, i, rej, 1 if rej else nr, sd + 4 + rej))
            lines.append("SWEEP ST J %d 0 %d %d" % (i, nr, sd + 20))
        for i in (p1, p2):
            sd = rng.randrange(1, 10 ** 6)
            for mode in "EJ":
                lines.append("SWEEP DT %s %d 0 %d %d" % (mode, i, nr, sd))
                lines.append("SWEEP CP %s %d 0 %d %d" % (mode, i, nr, sd + 1))
                lines.append("SWEEP IP %s %d 0 %d %d" % (mode, i, nr, sd + 30))
                if (i == p1 and mode == "J") or not quick:
                    lines.append("SWEEP RC %s %d 0 %d %d" % (mode, i, nr, sd + 31))
            lines.append("SWEEP ST J %d 0 %d %d" % (i, nr, sd + 2))
            lines.append("SWEEP CM J %d 0 1 %d" % (i, sd + 3))
    def run_driver(executable, env=None, only_models=None):
        """the MODEL lines go to each of up to 4 driver processes, the SWEEP/RUN lines are dealt round-robin"""
        from concurrent.futures import ThreadPoolExecutor
        mlines = [l for l in lines if l.startswith("MODEL")]
        jobs = [l for l in lines if not l.startswith("MODEL") and (only_models is None or int(l.split()[3]) in only_models)]
        nproc = max(1, min(4, len(jobs)))
        chunks = [jobs[i::nproc] for i in range(nproc)]

        def one(i):
            return ctx.run(executable, "\n".join(mlines + chunks[i]) + "\n", timeout=540, args=["%s.%d" % (savepath, i)], env=env)
        with ThreadPoolExecutor(max_workers=nproc) as ex:
            res = list(ex.map(one, range(nproc)))
        for i in range(nproc):
            try:
                os.remove("%s.%d" % (savepath, i))
            except OSError:
                pass
        rc_ = max((r[0] for r in res), key=abs)
        out_ = "\n".join(r[1] for r in res)
        # SIZES lines repeat in every process: keep one copy
        seen, keep = set(), []
        for l in out_.split("\n"):
            if l.startswith("SIZES "):
                if l in seen:
                    continue
                seen.add(l)
            keep.append(l)
        return rc_, "\n".join(keep), "\n".join(r[2][-400:] for r in res)

    rc, out, err = run_driver(exe)
    asan_out = None
    if ctx.tier == "thorough" and not ctx.replay:
        # second pass, same schedules, executable linked with the AddressSanitizer/LeakSanitizer runtime
        try:
            ctx._lib = None          # libraries are pruned by concurrent builds: make sure the archive exists
            with F.Lock("drv_c21_alloc_asan"):
                exe_a = F.B.build_driver("c21_alloc_asan", ["c21_alloc.c"], ctx.repo, ctx.lib(), extra=("-DC21_ASAN",),
                                         link_extra=("-fsanitize=address",))
            env = dict(os.environ, ASAN_OPTIONS="exitcode=77:detect_leaks=1:abort_on_error=0", LSAN_OPTIONS="exitcode=0:print_suppressions=0")
            tm["driver"] = round(time.time() - t0, 1); t0 = time.time()
            # the sanitizer pass (leak check per child) is several times slower: first mjgen model + the two plugin models
            rca, asan_out, erra = run_driver(exe_a, env, only_models={0, len(model_lines) - 2, len(model_lines) - 1})
            tm["driver_asan"] = round(time.time() - t0, 1); t0 = time.time()
            if rca != 0:
                ctx.cov["support"]["asan_driver_rc"] = "%s %s" % (rca, erra[-300:])
        except RuntimeError as e:
            ctx.cov["support"]["asan"] = "ASan-linked driver did not build: " + str(e)[-300:]
    try:
        os.remove(savepath)
    except OSError:
        pass
    if not ctx.replay:
        # outside the contract, support only: with a handler that RETURNS the model predicts a NULL dereference in mj_copyModel
        # (Example C21_ex_returning_handler_unsafe); the implementation indeed dies with a signal
        rcd, outd, _ = ctx.run(exe, model_lines[0] + "\nRUN CM R 0 0 0\n", timeout=120, args=[savepath + ".r"])
        demo = [l for l in outd.split("\n") if l.startswith("RUN ")]
        ctx.cov["support"]["returning_handler_demo"] = demo[0][:200] if demo else "not run"
    tm.setdefault("driver", round(time.time() - t0, 1)); t0 = time.time()
    sizes, runs, other = parse_runs(out)
    if rc != 0 or not runs or any(o.startswith(("BADLINE", "FORKFAIL", "MMAPFAIL")) for o in other):
        ctx.broken.append(("correspondence", "driver c21_alloc failed", "rc=%s other=%s err=%s" % (rc, other[:5], err[-800:])))
        return
    failed_models = [o for o in other if o.startswith("MODELFAIL")]
    if failed_models:
        ctx.cov["support"]["models_not_compiled"] = failed_models[:5]

    # ---------------------------------------------------------------- oracles + Coq cases
    mon_cases, mon_runs, tie_cases, tie_runs = [], [], [], []
    distinct = set()
    nviol = 0
    sigcount = {}
    flagged = set()
    for r in runs:
        sz = sizes.get(r.idx)
        if sz is None:
            continue
        site_size, cls = size_table(sz)
        np_ = sz["nplugin"]
        evs, endk, probs, failed = to_events(r, cls)
        case = {"models": [model_lines[r.idx]] if r.idx in model_lines else [],
                "run": "RUN %s %s %d %d %s" % (r.scen, r.mode, r.idx, r.rej, ",".join(map(str, r.fails)) or "-"),
                "scenario": API.get(r.scen), "handler": {"E": "default (exit)", "J": "longjmp"}.get(r.mode, r.mode),
                "failing_attempts": r.fails, "nplugin": np_, "reject": LREJ[r.rej]}
        for (what, detail, sig) in oracle(r, site_size):
            flagged.add(id(r))
            if "plugin" in sig:
                sig["plugin"] = bool(np_)
            failed_site = sig.pop("failed", None)
            if failed_site:
                case = dict(case, failed_site=failed_site if isinstance(failed_site, str) else (failed_site[0] if failed_site else None))
            key = "impl_violation " + " ".join("%s=%s" % kv for kv in sorted(sig.items()))
            sigcount[key] = sigcount.get(key, 0) + 1
            nviol += 1
            if nviol <= 40:
                ctx.violation("impl_violation", case,
                              expected="failure surfaces as error/NULL; no crash, double free or leak on a run that returns to the caller",
                              observed="%s: %s | trace: %s | %s %s" % (what, detail, " ".join(r.tokens), r.trailer, r.status),
                              theorem="C21_leak_free" if what == "leak" else "C21_protocol_safe", signature=sig, found_input=True)
        for p in probs:
            if p.startswith("unexpected token"):
                ctx.broken.append(("correspondence", "driver trace not understood", p + " in " + r.line[:300]))
        mon_cases.append("[" + "; ".join(evs) + "]")
        mon_runs.append((r, case))
        if endk is None:
            endk = 2 if r.status == "exit:1" else 9
        clslist = "[" + "; ".join(str(cls[s]) for s in site_size) + "]"
        impl = evs
        if True:
            tie_cases.append("(%s, %s, [%s], %s, %s, %d, [%s])" % (
                coq_scenario(r.scen, min(np_, 2), r.rej), "HExit" if r.mode == "E" else "HJump",
                "; ".join(map(str, r.fails)), clslist, coq_bool(r.scen == "CP"), endk, "; ".join(impl)))
            tie_cases[-1] = tie_cases[-1].replace(", [], ", ", (@nil nat), ", 1)      # a shard of fault-free runs must still type-check
            tie_runs.append((r, case))
        if r.fails:
            distinct.add((r.scen, r.mode, np_, r.rej, tuple(t.split(":")[0][0] + ":" + str(cls.get(int(t.split(":")[1]), 99))
                                                            for t in r.tokens if t[0] in "AX" and ":" in t)))

    # ASan/LSan pass: same oracles; LeakSanitizer's verdict at a completed scenario must agree with the live set of the hooks
    if asan_out is not None:
        sizes_a, runs_a, other_a = parse_runs(asan_out)
        n_lsan, n_agree, lsan_only = 0, 0, []
        for r in runs_a:
            sz = sizes_a.get(r.idx)
            if sz is None:
                continue
            site_size, cls = size_table(sz)
            case = {"models": [model_lines[r.idx]] if r.idx in model_lines else [],
                    "run": "RUN %s %s %d %d %s" % (r.scen, r.mode, r.idx, r.rej, ",".join(map(str, r.fails)) or "-"), "asan": True}
            for (what, detail, sig) in oracle(r, site_size):
                if "plugin" in sig:
                    sig["plugin"] = bool(sz["nplugin"])
                sig.pop("failed", None)
                key = "asan impl_violation " + " ".join("%s=%s" % kv for kv in sorted(sig.items()))
                sigcount[key] = sigcount.get(key, 0) + 1
                if sigcount[key] <= 3:
                    ctx.violation("impl_violation", case, expected="no sanitizer report, crash, double free or leak",
                                  observed="%s: %s | trace: %s | %s %s" % (what, detail, " ".join(r.tokens), r.trailer, r.status),
                                  theorem="C21_protocol_safe", signature=sig, found_input=True)
            m = re.search(r"lsan=(\d)", r.trailer)
            if "END" in r.tokens and m:
                n_lsan += 1
                live = re.search(r"live:([\d,]*)", r.trailer)
                has_live = bool(live and live.group(1))
                if (m.group(1) == "1") == has_live:
                    n_agree += 1
                elif m.group(1) == "1":
                    lsan_only.append(case["run"])
        ctx.cov["support"]["asan"] = {"runs": len(runs_a), "completed_scenarios_leak_checked": n_lsan, "lsan_agrees_with_hook_live_set": n_agree,
                                      "lsan_reports_leak_not_seen_by_hooks": lsan_only[:10]}
    # one evaluation inside Coq per run: the proved monitor accepts the implementation trace AND the model generates the same trace;
    # the failing runs are then evaluated again to tell the two apart
    pre = PRE % tuple(coq_bool(variant[k]) for k in ("v_mbuf", "v_dbuf", "v_darena", "v_lstructs", "v_dnull", "v_npl"))
    pre += "\nDefinition both (c : scenario * hmode * list nat * list nat * bool * nat * trace) : bool :=\n" \
           "  let '(_, _, _, _, _, _, impl) := c in safe_trace impl && tie c.\n"
    assert len(tie_cases) == len(mon_cases)
    failing = ctx.coq_eval("c21both", IMPORTS, tie_cases, "both", pre=pre, shard=200)
    bad, dis = [], []
    if failing:
        sub = failing[:400]
        b2 = ctx.coq_eval("c21mon", IMPORTS, [mon_cases[i] for i in sub], "fun t => safe_trace t", shard=100)
        bad = [sub[j] for j in b2]
        d2 = ctx.coq_eval("c21tie", IMPORTS, [tie_cases[i] for i in sub], "tie", pre=pre, shard=100)
        dis = [sub[j] for j in d2]
        if len(failing) > len(sub):
            dis += failing[len(sub):]
    # runs on which the MODEL runs into undefined behaviour (only the in-place scenarios can): the implementation followed the model up to
    # that point (checked by tie); it must then have shown a violation to one of the oracles, otherwise the defect is reported from the model
    ip_idx = [i for i, (r, _) in enumerate(tie_runs) if r.scen in ("IP", "RC")]
    if ip_idx:
        unsafe = ctx.coq_eval("c21unsafe", IMPORTS, [tie_cases[i] for i in ip_idx], "model_safe", pre=pre, shard=200)
        n_unsafe = 0
        for j in unsafe:
            r, case = tie_runs[ip_idx[j]]
            n_unsafe += 1
            if id(r) not in flagged:
                sz = sizes.get(r.idx)
                sig = {"site": API.get(r.scen), "plugin": bool(sz and sz["nplugin"]), "kind": "use-or-free-of-dead-block-after-alloc-failure"}
                key = "impl_violation " + " ".join("%s=%s" % kv for kv in sorted(sig.items()))
                sigcount[key] = sigcount.get(key, 0) + 1
                ctx.violation("impl_violation", case, expected="the object left by a failed in-place construction is deletable",
                              observed="the model (which the implementation trace follows event for event up to this point) frees or reads a block "
                                       "that is no longer live: " + " ".join(r.tokens) + " | " + r.status,
                              theorem="C21_inplace_failure_deletable", signature=sig, found_input=True)
        ctx.cov["support"]["model_unsafe_runs"] = n_unsafe
    for i in bad[:10]:
        r, case = mon_runs[i]
        # already reported by the python oracle when it is a double/foreign free; otherwise report here
        if not any(t.startswith("FF") or t == "G" for t in r.tokens):
            ctx.violation("impl_violation", case, expected="safe_trace (proved monitor) accepts the implementation trace",
                          observed=" ".join(r.tokens) + " | " + r.status, theorem="C21_monitor_sound",
                          signature={"site": API.get(r.scen), "kind": "monitor-rejects-trace"}, found_input=True)
    for i in dis[:6]:
        r, case = tie_runs[i]
        ctx.violation("correspondence", case, expected="trace generated by Model/AllocProto.v (variant %s) for the same scenario and schedule" % variant,
                      observed=" ".join(r.tokens) + " | " + r.status, found_input=False, theorem="correspondence c21_alloc",
                      signature={"site": API.get(r.scen), "kind": "trace-differs-from-model"},
                      note="implementation trace and model trace differ; the oracles on the implementation trace decide whether this is a defect")
    if bad:
        sigcount["monitor-rejections"] = len(bad)
    if dis:
        sigcount["correspondence trace-differs-from-model"] = len(dis)
        sigcount["correspondence by scenario"] = sorted(set(tie_runs[i][0].scen + ":" + tie_runs[i][0].mode for i in dis))
    ctx.cov["support"]["violation_signatures"] = sigcount
    tm["coq_eval"] = round(time.time() - t0, 1)
    ctx.cov["support"]["phase_wall_s"] = tm
    ctx.cov["evaluations"] = len(runs)
    ctx.cov["distinct_nontrivial"] = len(distinct)
    ctx.cov["rule"] = ("per base model (mjgen models of varied features + two plugin models) and scenario: the fault-free run, one run per "
                       "allocation attempt k failing (all k up to the observed count), seeded random multi-fault sets; handler modes default-exit and "
                       "longjmp; distinct non-trivial = distinct (scenario, mode, plugin count, reject class, sequence of size-classed alloc/fail events) "
                       "with at least one injected fault")
    pick = [mon_runs[i][1] for i in (0, len(mon_runs) // 2, len(mon_runs) - 1)] if mon_runs else []
    ctx.cov["samples"] = pick
    ctx.cov["correspondence_disagreements"] = len(dis)
    ctx.cov["monitor_rejections"] = len(bad)
    ctx.cov["support"]["runs_by_scenario"] = {k: sum(1 for r in runs if r.scen == k) for k in API}
    ctx.cov["support"]["max_attempts_in_a_run"] = max((sum(1 for t in r.tokens if t[0] in "AX" and ":" in t) for r in runs), default=0)
    ctx.cov["support"]["step_allocations"] = "none observed beyond mj_makeData/mj_resetData/mj_deleteData in the ST scenario" if not dis else "see disagreements"
    ctx.cov["explanation"] = ("protocol theorems proved for every oracle/variant/scenario; source scan selected variant %s (%s); %d implementation runs "
                              "under fault injection compared event-for-event with the model and checked by the proved monitor" %
                              (variant, "scan ok" if scan_ok else "SCAN BROKEN", len(runs)))
