"""C33 — compilation is deterministic and copy-invariant."""
import hashlib, re
import framework as F

META = {
    "id": "C33", "category": "proof", "design_ref": "DESIGN.md section 4, C33",
    "technique": "Coq proof by inductive invariant over the reachable states of a lock-step model of the compiler's "
                 "mutex/condition-variable work queue + instance of the C02 schedule-independence theorem for asset tasks + "
                 "trace validation of the unmodified user_threadpool.cc under a controlled-scheduler shim + byte-level "
                 "differential oracle on mj_compile / mj_copySpec / mj_copyModel / usethread / mj_recompile through mjSpec",
    "text": "PROVED in Coq (Props/C33.v) for the model Model/UserPool.v of user_threadpool.cc (sequentially consistent, one critical "
            "section under m_ per step, condition-variable waits as guards), for ANY number of workers, ANY number of Schedule "
            "calls and batches and ANY interleaving: no task is entered twice, only scheduled task indices are entered, every "
            "task left was entered, none is left twice (C33_pool_once); WaitCount(v) can return only after v tasks have been left, "
            "and with v = number of tasks scheduled so far (the way user_model.cc calls it) exactly the tasks 0..v-1 have been "
            "left, the queue holds no task and no worker holds or runs one (C33_wait_after_all); while fewer completions are "
            "counted than tasks scheduled and the pool is not being destroyed some worker step is enabled (C33_worker_progress). "
            "C33_schedule_independent is the C02 theorem instantiated with 'asset a is owned by task a': for asset tasks that "
            "write only their own asset and read only their own asset and data no task writes, the compiled assets are the same "
            "for every schedule and equal to the serial loop (pool disabled) at every location -- that mjCMesh::Compile / "
            "mjCTexture::Compile satisfy this footprint hypothesis is NOT proved; it is searched by the oracle. C33_copyModel "
            "cites C31_roundtrip: a copy realised as load(save(m)) is the source model and saves to the same bytes, for every "
            "well-formed layout table. "
            "TIE: the unmodified user_threadpool.cc of the working tree is compiled against harness/drivers/c33_shim.h "
            "(std::thread/std::mutex from the C03 shim plus a controlled std::condition_variable whose notify_one wakes one "
            "seeded-random waiter); every logged total order of critical sections, task begin/end and API returns is mapped to "
            "model events and must be accepted step by step by the model's executable step function inside Coq and end with all "
            "workers joined; an independent Python oracle checks the property text on the logs (each task once, WaitCount returns "
            "after the last task end, WorkerId stable, final count, DEADLOCK/LIVELOCK watchdog). "
            "ORACLE on the implementation through mjSpec (the failing-input search): specs built from mjgen trees plus several "
            "meshes given as vertex/face arrays (first one large, others small, so completion order differs from index order), "
            "builtin meshes, procedural textures (every type x builtin x mark, random-dot marks frequent and repeated) + materials, a height field, delayed actuators, a muscle rig whose length "
            "ranges are computed through the pool (second use of the pool; mixed motor/muscle actuator lists), optionally "
            "length ranges for all actuators: mj_saveModel bytes of  compile twice / compile of an mj_copySpec copy and of a "
            "copy of the copy / a copy made before the first compile / mj_copyModel / load(save) / usethread 0 and 1 (repeated, real threads) / mj_recompile of the "
            "unchanged spec  must all be identical, every mj_copySpec copy must have as many elements of every kind as its source "
            "(counted on the spec, before compiling), and so must the first compile in a fresh process, after three other "
            "specs were compiled in the process, and inside the batch run (no hidden state carried between compiles); mj_recompile must keep time, qpos, qvel, act, ctrl, mocap_pos, mocap_quat -- every component preset to pairwise "
            "distinct non-default values on models with several mocap bodies / actuators / multi-dof joints (class "
            "saved-state-lost, always alarms) and also after an edit that appends a body. KNOWN FINDING C33-F1: the other "
            "mjSTATE_INTEGRATION components (history, qacc_warmstart, qfrc_applied, xfrc_applied, eq_active, userdata) are reset "
            "by mj_recompile (class unsaved-integration-state-reset; fixed corpus in both tiers). "
            "NOT covered: qhull is stubbed in this build, so meshes are attached to non-colliding geoms (no convex hulls, no "
            "mesh collision data); file-based assets (PNG/OBJ/STL decoders) are not exercised; controlled schedules of the real "
            "compile tasks (the compile oracle runs real threads; only the queue protocol runs under the controlled scheduler); "
            "lost wake-ups are outside the Coq model (watchdog only); uninitialised-memory nondeterminism.  Specs the compiler "
            "rejects (e.g. 'Unstable lengthrange simulation') are compared too: the accept/reject DECISION must agree for a second "
            "compile, a spec copy and usethread 0/1 (one variant producing a model while another fails is a violation); the "
            "wording of the error text is outside the property and differences are only recorded as observations "
            "(support.rejection_text_observations); a compile that does not return within the per-process timeout is an alarm "
            "(mj_setLengthRange used to loop forever on unstable simulations, repaired in /repo 400c5148c; the two inputs are in "
            "the fixed corpus).",
    "note": "Trusted: Coq kernel; hand-written model Model/UserPool.v; the shim scheduler (shim_atomic.h, c33_shim.h) and the mapping "
            "of log lines to model events in c33.py; drivers c33_pool.cc / c33_compile.cc; g++. All theorems closed under the "
            "global context.  Cites C02 (Proof/ParMapProof.v) and C31 (Proof/MJBProof.v decode_encode).",
    "assumptions": ["sequential consistency; one critical section per step; condition-variable wait modelled as a guard",
                    "asset compile tasks write only their own asset (hypothesis of C33_schedule_independent, searched by the byte oracle)",
                    "tie is trace validation / differential runs on the cases of this run"],
}

FEAT_ALL = 1 + 2 + 4 + 8 + 16 + 32 + 64 + 128 + 256 + 512 + 1024 + 8192 + 65536 + 131072   # 206847
REQUIRED = ("time", "qpos", "qvel", "act", "ctrl", "mocap_pos", "mocap_quat")


# ------------------------------------------------------------------ pool protocol (trace validation)
def pool_cases(ctx):
    rng = ctx.rng
    q = ctx.tier == "quick"
    cases = []

    def add(n, ops, mode=None):
        m = rng.randrange(4) if mode is None else mode
        cases.append({"seed": rng.randrange(1, 2 ** 31), "mode": m, "victim": rng.randrange(0, n + 1), "nthreads": n, "ops": ops})
    for n in ((1, 2, 3) if q else (1, 2, 3, 4, 5, 8)):
        for k in ((1, 2, 5, 9) if q else (1, 2, 3, 5, 9, 17, 40)):
            for mode in range(4):
                for _ in range(4 if q else 8):
                    add(n, [("S", k), ("W", 0)], mode)
    for _ in range(40 if q else 400):
        n = rng.choice((1, 2, 3, 4))
        ops = []
        for _ in range(rng.randrange(1, 6)):
            ops.append(("S", rng.choice((0, 1, 2, 3, 6))) if rng.random() < 0.6 else ("W", 0))
        add(n, ops)
    add(2, [])                       # construct and destroy
    add(3, [("W", 0)])               # WaitCount(0) on a fresh pool
    add(1, [("S", 4)])               # destroyed with tasks never waited for: the workers still drain the queue
    cases.sort(key=lambda c: (len(c["ops"]), sum(x for _, x in c["ops"]), c["nthreads"]))
    return cases


def pool_line(c):
    return "%d %d %d %d %d %s\n" % (c["seed"], c["mode"], c["victim"], c["nthreads"], len(c["ops"]),
                                    " ".join(("S %d" % k) if o == "S" else "W" for o, k in c["ops"]))


def run_pool(ctx, exe, cases):
    res = []
    i = 0
    while i < len(cases):
        rc, out, err = ctx.run(exe, "".join(pool_line(c) for c in cases[i:]), timeout=600)
        blocks = out.split("CASE ")[1:]
        got = 0
        for b in blocks:
            lines = b.strip().split("\n")
            evs, status = [], None
            for ln in lines[1:]:
                tk = ln.split()
                if not tk:
                    continue
                if tk[0] == "END":
                    status = (tk[1], int(tk[2]))
                    break
                evs.append((int(tk[0]), tk[1], [int(x) for x in tk[2:5]]))
            if status is None:
                status = ("CRASH rc=%s %s" % (rc, err[-200:]), -1)
            res.append((status, evs))
            got += 1
            if status[0] != "OK":
                break
        if got == 0:
            res.append((("CRASH rc=%s %s" % (rc, err[-200:]), -1), []))
            got = 1
        i += got
    return res[:len(cases)]


def to_model_events(evs):
    """map a shim log to the event vocabulary of Model/UserPool.v.  A critical section of a thread runs from its `lk` to
    the first `ul` that is not followed by that thread parking on a condition variable (`cw`); its model event is placed
    at that `ul`.  Main thread: a section inside Schedule -> ESchedule, inside the destructor -> EDestroy, WaitCount
    returns at `rW`, joins at `jn`.  Worker k: its sections alternate take / count (the worker loop is take; [task]; count),
    task begin/end come from the task bodies."""
    nxt = {}
    last = {}
    for i in range(len(evs) - 1, -1, -1):
        t = evs[i][0]
        nxt[i] = last.get(t)
        last[t] = i
    out = []
    ctx_main = None
    nsec = {}
    for i, (t, k, a) in enumerate(evs):
        if t == 0:
            if k in ("cS", "cW", "cD"):
                ctx_main = k[1]
            elif k in ("rS", "rD"):
                ctx_main = None
            elif k == "rW":
                ctx_main = None
                out.append("EWaitRet %d" % a[0])
            elif k == "jn":
                out.append("EJoin %d%%nat" % (a[0] - 1))
            elif k == "ul":
                j = nxt[i]
                if j is not None and evs[j][1] == "cw":
                    continue
                if ctx_main == "S":
                    out.append("ESchedule")
                elif ctx_main == "D":
                    out.append("EDestroy")
        else:
            w = t - 1
            if k == "ul":
                j = nxt[i]
                if j is not None and evs[j][1] == "cw":
                    continue
                n = nsec.get(w, 0)
                nsec[w] = n + 1
                out.append(("ETake %d%%nat" if n % 2 == 0 else "ECount %d%%nat") % w)
            elif k == "tb":
                out.append("EBegin %d%%nat %d" % (w, a[0]))
            elif k == "te":
                out.append("EEnd %d%%nat %d" % (w, a[0]))
    return out


def pool_oracle(c, status, evs):
    bad = []
    if status[0] != "OK":
        bad.append(("deadlock" if status[0] in ("DEADLOCK", "LIVELOCK") else "abnormal-end", status[0]))
    nsched = 0
    begun, ended, open_ = {}, set(), {}
    for idx, (t, k, a) in enumerate(evs):
        if k == "cS":
            nsched += 1
        elif k == "tb":
            task = a[0]
            if task in begun:
                bad.append(("task-run-twice", "task %d" % task))
            if not (0 <= task < nsched):
                bad.append(("task-not-scheduled", "task %d of %d" % (task, nsched)))
            begun[task] = t
            if t == 0:
                bad.append(("task-on-main-thread", "task %d" % task))
            if a[1] != t - 1:
                bad.append(("worker-id", "WorkerId %d on thread %d" % (a[1], t)))
            if t in open_:
                bad.append(("nested-task", "thread %d" % t))
            open_[t] = task
        elif k == "te":
            task = a[0]
            if open_.get(t) != task:
                bad.append(("end-without-begin", "task %d thread %d" % (task, t)))
            open_.pop(t, None)
            if task in ended:
                bad.append(("task-ended-twice", "task %d" % task))
            ended.add(task)
        elif k == "rW":
            missing = [x for x in range(a[0]) if x not in ended]
            if missing:
                bad.append(("wait-returned-early", "WaitCount(%d) returned with tasks %s not finished" % (a[0], missing[:8])))
    if status[0] == "OK":
        # every scheduled task ran exactly once before the destructor returned
        missing = [x for x in range(nsched) if x not in ended]
        if missing:
            bad.append(("task-lost", "tasks %s never ran" % missing[:8]))
        waited = bool(c["ops"]) and c["ops"][-1][0] == "W"
        if (waited and status[1] != nsched) or status[1] > nsched or status[1] < 0:
            bad.append(("count", "GetCount() = %d before the destructor, %d tasks scheduled, %s" % (status[1], nsched, "all waited for" if waited else "not waited for")))
    return bad


# ------------------------------------------------------------------ compile oracle
def compile_cases(ctx):
    rng = ctx.rng
    q = ctx.tier == "quick"
    cases = []
    # fixed corpus (both tiers): KNOWN finding C33-F1 shows on these (delayed actuators / applied forces / eq_active / userdata)
    cases.append({"seed": 4, "feat": FEAT_ALL, "nbody": 6, "nmesh": 2, "ntex": 2, "flags": 16, "reps": 1})
    cases.append({"seed": 1, "feat": FEAT_ALL, "nbody": 6, "nmesh": 4, "ntex": 3, "flags": 22, "reps": 1})
    # previously non-terminating inputs (mj_setLengthRange loop, repaired in /repo 400c5148c): now deterministic rejections;
    # a hang is a regression (TIMEOUT alarms)
    cases.append({"seed": 365416, "feat": 280819, "nbody": 7, "nmesh": 0, "ntex": 0, "flags": 9, "reps": 1})
    cases.append({"seed": 343637, "feat": 498587, "nbody": 4, "nmesh": 0, "ntex": 2, "flags": 42, "reps": 2})
    cases.append({"seed": 11, "feat": FEAT_ALL, "nbody": 5, "nmesh": 0, "ntex": 1, "flags": 64 | 16, "reps": 1})   # several mocap bodies, delayed actuators
    cases.append({"seed": 3, "feat": 9, "nbody": 3, "nmesh": 0, "ntex": 0, "flags": 192, "reps": 1})   # extras rig + mocap bodies, tiny tree
    cases.append({"seed": 7, "feat": 9, "nbody": 3, "nmesh": 0, "ntex": 0, "flags": 256, "reps": 1})   # frames rig on a tiny tree
    for i in range(10 if q else 50):
        feat = 0
        for b in (1, 2, 4, 8, 16, 32, 64, 128, 256, 512, 1024, 2048, 4096, 8192, 16384, 32768, 65536, 131072, 262144):
            if rng.random() < 0.6:
                feat |= b
        flags = rng.choice((0, 2, 4, 6, 16, 18, 20, 22, 8, 10))
        if i % 3 != 2:
            flags |= 256   # frames rig: nested frames, alternative orientations, elements attached to inner frames
        if i % 4 != 3:
            flags |= 128   # extras rig: spatial tendons (site / sphere / cylinder / pulley wraps) + pair, exclude, numeric, text, tuple, camera, light
        if i % 3 != 1:
            flags |= 64    # 2..4 extra mocap bodies: stride-3 and stride-4 index spaces differ from the second body on
            feat |= 128    # activations
        if i % 2 == 0:
            flags |= 32    # muscle rig: length ranges of the muscles through the pool (default LRopt.mode)
            if i % 4 == 0:
                feat |= 64  # mjgen actuators (motors etc.) come first in the actuator list
        if i % 5 == 4:
            flags |= 1     # length ranges through the pool (may fail to converge: such cases are skipped)
            feat |= 64
        cases.append({"seed": rng.randrange(1, 10 ** 6), "feat": feat, "nbody": rng.choice((2, 4, 7, 10)),
                      "nmesh": rng.choice((0, 2, 3, 5, 8)), "ntex": rng.choice((0, 1, 2, 4)), "flags": flags, "reps": 2 if q else 3})
    return cases


def compile_line(c):
    return "%d %d %d %d %d %d %d\n" % (c["seed"], c["feat"], c["nbody"], c["nmesh"], c["ntex"], c["flags"], c["reps"])


def _run_compile_batch(ctx, exe, cases, timeout):
    rc, out, err = ctx.run(exe, "".join(compile_line(c) for c in cases), timeout=timeout)
    blocks = re.split(r"^CASE \d+\n", out, flags=re.M)[1:]
    res = []
    for b in blocks[:len(cases)]:
        ls = b.strip().split("\n")
        end = [l for l in ls if l.startswith("END ")]
        if not end:
            res.append(("TIMEOUT" if rc == -999 else "CRASH rc=%s %s" % (rc, err.strip()[-300:]), ls))
            break
        res.append((end[-1][4:].strip(), ls))
    if not res:
        res.append(("TIMEOUT" if rc == -999 else "CRASH rc=%s %s" % (rc, err.strip()[-300:]), []))
    return res


def run_compile(ctx, exe, cases):
    """cases whose compile simulates length ranges (flags & 1: all actuators, flags & 32: muscle rig) run one per process
    under a 120 s timeout, so that a non-terminating compile (a regression of /repo 400c5148c) costs little and names its
    input; after the first time-out the remaining ones are not run.  The others run in chunks; a chunk that is killed is
    re-run case by case."""
    res = [None] * len(cases)
    lrmask = 1 | 32
    plain = [i for i, c in enumerate(cases) if not (c["flags"] & lrmask)]
    lr = [i for i, c in enumerate(cases) if c["flags"] & lrmask]
    hung = False
    for i in lr:
        if hung:
            res[i] = ("SKIPPED", [])
            continue
        res[i] = _run_compile_batch(ctx, exe, [cases[i]], 120)[0]
        hung = res[i][0] == "TIMEOUT"
    for k in range(0, len(plain), 6):
        idx = plain[k:k + 6]
        r = _run_compile_batch(ctx, exe, [cases[i] for i in idx], 300)
        for i, x in zip(idx, r):
            res[i] = x
        redo = idx[len(r) - 1:] if r[-1][0] == "TIMEOUT" or r[-1][0].startswith("CRASH") else idx[len(r):]
        for i in redo:
            res[i] = _run_compile_batch(ctx, exe, [cases[i]], 200)[0]
    return res


def run(ctx):
    ctx.coq_props(allowed_axioms=(), extra_targets=["Model/UserPool.vo"])
    replay = getattr(ctx, "replay", None)
    rcase = replay.get("case") if replay else None
    # ---- pool protocol
    pexe = ctx.driver("c33_pool", ["c33_pool.cc"], with_lib=False)
    pcases = []
    if pexe is not None:
        if rcase is not None:
            pcases = [dict(rcase, ops=[tuple(o) for o in rcase["ops"]])] if "ops" in rcase else []
        else:
            pcases = pool_cases(ctx)
    pres = run_pool(ctx, pexe, pcases) if pcases else []
    if len(pres) < len(pcases):
        ctx.broken.append(("correspondence", "driver c33_pool produced %d of %d logs" % (len(pres), len(pcases)), ""))
    coq_cases, idxmap = [], []
    distinct, nontriv, nevents, nviol = set(), 0, 0, 0
    for i, (c, (status, evs)) in enumerate(zip(pcases, pres)):
        bad = pool_oracle(c, status, evs)
        for what, detail in bad[:1]:
            nviol += 1
            if nviol <= 6:
                ctx.violation("impl_violation", c, expected="every scheduled task runs exactly once and WaitCount returns only after all of them",
                              observed="%s: %s" % (what, detail), theorem="C33_pool_once / C33_wait_after_all / C33_worker_progress",
                              signature={"site": "user_threadpool.cc", "what": what},
                              note="log tail: " + " | ".join("%d %s %s" % (t, k, a) for t, k, a in evs[-12:]))
        if status[0] != "OK":
            continue
        mev = to_model_events(evs)
        if mev is None:
            ctx.broken.append(("correspondence", "unknown condition-variable object in the log", str(c)))
            continue
        nevents += len(mev)
        h = hashlib.sha256(repr(mev).encode()).hexdigest()
        if h not in distinct:
            distinct.add(h)
            # non-trivial: at some moment two different workers are inside tasks
            inside, multi = set(), False
            for (t, k, a) in evs:
                if k == "tb":
                    inside.add(t); multi = multi or len(inside) >= 2
                elif k == "te":
                    inside.discard(t)
            nontriv += multi
        coq_cases.append("(%d%%nat, [%s])" % (c["nthreads"], "; ".join(mev)))
        idxmap.append(i)
    fails = ctx.coq_eval("c33", "From Coq Require Import ZArith.\nFrom MJV Require Import Model.UserPool.\nOpen Scope Z_scope.",
                         coq_cases, "fun c => accepts (fst c) (snd c)", shard=max(40, min(300, len(coq_cases) // 8 + 1))) if coq_cases else []
    for j in fails[:5]:
        i = idxmap[j]
        c, (status, evs) = pcases[i], pres[i]
        ok, out = ctx.coq_run("c33_prefix", "From Coq Require Import ZArith List.\nFrom MJV Require Import Model.UserPool.\nImport ListNotations.\nOpen Scope Z_scope.\n"
                              "Eval vm_compute in run_prefix (init (fst %s)) (snd %s) 0.\n" % (coq_cases[j], coq_cases[j]))
        m = re.search(r"=\s*(-?\d+)", out)
        at = int(m.group(1)) if m else -2
        mev = to_model_events(evs)
        ctx.violation("correspondence", c, expected="model Model/UserPool.v accepts the event log and ends with all workers joined",
                      observed="model rejects event %d: %s (context: %s)" % (at, mev[at] if 0 <= at < len(mev) else "end state not quiescent",
                                                                          " | ".join(mev[max(0, at - 6):at + 1])),
                      found_input=False, theorem="trace validation c33_pool",
                      note="implementation log is not a behaviour of the proved model, but it satisfies the oracle")
    # ---- compile oracle
    cexe = ctx.driver("c33_compile", ["c33_compile.cc"])
    ccases = []
    if cexe is not None:
        if rcase is not None:
            ccases = [rcase] if "nmesh" in rcase else []
        else:
            ccases = compile_cases(ctx)
    if nviol and rcase is None:
        # the work queue itself already violates the property on the controlled schedules (lost tasks / early return /
        # deadlock): the threaded compiles of the oracle may hang, so they are not run
        ctx.cov["support"]["compile_oracle"] = "skipped: the work-queue protocol run already reported %d violations" % nviol
        ccases = []
    cres = run_compile(ctx, cexe, ccases) if ccases else []
    if len(cres) < len(ccases):
        ctx.broken.append(("correspondence", "driver c33_compile produced %d of %d results" % (len(cres), len(ccases)), ""))
    # the compiled model is a function of the spec alone, not of what the process (or thread) compiled before: the hash of
    # the first compile in a fresh process, after three other specs were compiled, and in the batch run must agree
    def first_hash(ls):
        h = [l.split()[1] for l in ls if l.startswith("HASH ")]
        return h[0] if h else ("REJECTED" if any(l.startswith("END REJ") for l in ls) else None)
    nhist = 0
    if cexe is not None and ccases:
        hist = _run_compile_batch(ctx, cexe, [dict(c, reps=-4) for c in ccases if not (c["flags"] & 33)], 300)
        hist_idx = [i for i, c in enumerate(ccases) if not (c["flags"] & 33)]
        for k, i in enumerate(hist_idx):
            if k >= len(hist) or cres[i] is None or cres[i][0] in ("TIMEOUT", "SKIPPED") or cres[i][0].startswith("CRASH"):
                continue
            c = ccases[i]
            fresh = _run_compile_batch(ctx, cexe, [dict(c, reps=-1)], 120)[0]
            hs = {"fresh process": first_hash(fresh[1]), "after 3 other compiles": first_hash(hist[k][1]), "batch run": first_hash(cres[i][1])}
            nhist += 1
            if len(set(hs.values())) > 1 and None not in hs.values():
                ctx.violation("impl_violation", c, expected="the same model bytes whatever was compiled before in the process",
                              observed={"fnv1a64 of mj_saveModel bytes of the first compile": hs}, theorem="C33 oracle (compile is a function of the spec)",
                              signature={"site": "mj_compile", "what": "model-depends-on-process-history"},
                              note="replay: c33_compile lines with reps=-1 (fresh) and reps=-4 (three other specs compiled first)")
    ncmp, nstate, nocompile, threaded, known = 0, 0, 0, 0, 0
    nrej = 0
    textnotes = {"count": 0, "first_line_differs": 0, "trailing_warning_lines_differ": 0,
                 "note": "observation only, not part of the property: when every variant rejects the spec the error TEXT may differ; with usethread=1 "
                         "warnings raised by the length-range simulation on pool workers are not captured into the error text because LRfunc does "
                         "not install the compiler's thread-local log handler (CompileMesh/CompileTexture do)"}
    assets = {"mesh": 0, "tex": 0, "hfield": 0}
    for c, (status, ls) in zip(ccases, cres):
        if status == "SKIPPED":
            continue
        if status in ("REJECTED", "REJDIFF"):
            nocompile += 1
            for l in ls:
                t = l.split(None, 3)
                if t[0] != "REJ":
                    continue
                nrej += 1
                if t[2] == "1":
                    continue
                first = [x for x in ls if x.startswith("NOTE ")]
                detail = t[3] if len(t) > 3 else ""
                if detail.startswith("(compiled)"):
                    ctx.violation("impl_violation", c, expected="every variant rejects the spec as the first compile did: " + (first[0][5:] if first else ""),
                                  observed=l, theorem="C33 oracle (accept/reject decision is deterministic and copy-invariant)",
                                  signature={"site": "usethread" if t[1].startswith("usethread") else t[1], "what": "accept-reject-differs"})
                else:
                    # all variants reject: no model is produced and the wording of the error text is outside the property
                    textnotes["count"] += 1
                    textnotes["first_line_differs" if t[2] == "0" else "trailing_warning_lines_differ"] += 1
                    textnotes.setdefault("example", {"case": c, "first_compile": first[0][5:] if first else "", "variant": t[1], "variant_text": detail})
            continue
        if status == "TIMEOUT":
            ctx.violation("impl_violation", c, expected="mj_compile returns (a model or an error)", observed="no result within the per-process timeout (120 s for length-range cases)",
                          theorem="C33 oracle (termination of compile; regression of /repo 400c5148c if in mj_setLengthRange)",
                          signature={"site": "mj_compile", "what": "hang"}, note=" | ".join(ls[-4:]))
            continue
        if status.startswith("CRASH"):
            ctx.violation("impl_violation", c, expected="compile / copy / recompile complete", observed=status, theorem="C33 oracle",
                          signature={"site": "mj_compile", "what": "crash"}, note=" | ".join(ls[-4:]))
            continue
        info = [l for l in ls if l.startswith("INFO ")]
        if info:
            t = info[0].split()
            d = dict(zip(t[1::2], t[2::2]))
            assets["mesh"] += int(d["nmesh"]); assets["tex"] += int(d["ntex"]); assets["hfield"] += int(d["nhfield"])
            if int(d["nmesh"]) + int(d["ntex"]) >= 2:
                threaded += 1
        for l in ls:
            t = l.split()
            if t[0] == "CMP":
                ncmp += 1
                if t[2] != "1":
                    what = t[1]
                    site = {"twice": "mj_compile", "copyspec": "mj_copySpec", "copyspec2": "mj_copySpec", "copyfresh": "mj_copySpec", "copymodel": "mj_copyModel",
                            "saveload": "mj_saveModel/mj_loadModelBuffer", "usethread0": "usethread", "usethread1": "usethread",
                            "recompile": "mj_recompile"}.get(what, what)
                    ctx.violation("impl_violation", c, expected="mj_saveModel bytes identical to the first compilation of the spec",
                                  observed=l, theorem="C33_schedule_independent / C33_copyModel" if what != "twice" else "C33 (determinism)",
                                  signature={"site": site, "what": "accept-reject-differs" if "compile-failed" in l else "model-bytes-differ"})
            elif t[0] == "FRM":
                ncmp += 1
                if t[2] != "1":
                    ctx.violation("impl_violation", c, expected="sites/geoms attached to nested frames sit at the composition of the frame poses written in the spec (recomputed by the driver), on every compile",
                                  observed=l, theorem="C33_frame_compile_idempotent (a later compile keeps the accumulated parent transform)",
                                  signature={"site": {"first": "mj_compile", "twice": "mj_compile", "copyspec": "mj_copySpec", "recompile": "mj_recompile"}.get(t[1], t[1]),
                                             "what": "frame-placement-wrong"})
            elif t[0] == "CNT":
                ncmp += 1
                if t[2] != "1":
                    ctx.violation("impl_violation", c, expected="an mj_copySpec copy has as many elements of every kind as its source",
                                  observed=l, theorem="C33_copy_list_complete (elements whose references resolve are all copied)",
                                  signature={"site": "mj_copySpec", "what": "copy-drops-elements"})
            elif t[0] == "STATE":
                nstate += 1
                if t[2] != "1":
                    name = t[1]
                    if name.startswith("opt:"):
                        known += 1
                        ctx.violation("impl_violation", c, expected="mj_getState(mjSTATE_INTEGRATION) unchanged by mj_recompile",
                                      observed=[x for x in ls if x.startswith("STATE opt:") and x.split()[2] != "1"],
                                      theorem="C33 oracle (mj_recompile keeps the integration state)",
                                      signature={"site": "mj_recompile", "class": "unsaved-integration-state-reset"})
                    else:
                        ctx.violation("impl_violation", c, expected="mj_recompile keeps time, qpos, qvel, act, ctrl, mocap of the given mjData",
                                      observed=l, theorem="C33 oracle (mj_recompile keeps the simulation state)",
                                      signature={"site": "mj_recompile", "class": "saved-state-lost", "component": name})
    ctx.cov["evaluations"] = len(pcases) + len(ccases)
    ctx.cov["distinct_nontrivial"] = nontriv + threaded
    ctx.cov["pool_logs"] = {"cases": len(pcases), "distinct_event_logs": len(distinct), "with_two_workers_inside_tasks": nontriv,
                            "events_replayed_in_coq": nevents, "rejected_by_model": len(fails)}
    ctx.cov["compile_cases"] = {"cases": len(ccases), "rejected_specs": nocompile, "with_at_least_2_pool_tasks": threaded,
                                "byte_comparisons": ncmp, "state_comparisons": nstate, "assets": assets}
    ctx.cov["rule"] = ("pool: histories of Schedule xk / WaitCount (single batches k x workers x 4 scheduler modes, random multi-batch histories, "
                       "degenerate ones) each under a seeded scheduler; non-trivial = distinct log with two workers inside tasks at once. "
                       "compile: mjgen feature masks x nbody x (nmesh, ntex, hfield/builtin/history/lengthrange flags); non-trivial = spec with >= 2 "
                       "mesh+texture tasks (the work queue runs); fixed corpus of two cases for KNOWN finding C33-F1")
    ctx.cov["samples"] = ([pcases[0], pcases[-1]] if pcases else []) + (ccases[:1] + ccases[-1:] if ccases else [])
    ctx.cov["correspondence_disagreements"] = len(fails)
    ctx.cov["support"]["oracle_violations_pool"] = nviol
    ctx.cov["support"]["known_finding_C33_F1_cases"] = known
    ctx.cov["compile_cases"]["rejection_comparisons"] = nrej
    ctx.cov["compile_cases"]["process_history_comparisons"] = nhist
    ctx.cov["support"]["rejection_text_observations"] = textnotes
    ctx.cov["explanation"] = ("Work-queue theorems proved for every interleaving of the lock-step model and tied to user_threadpool.cc by replaying "
                              "%d implementation logs (%d events) in Coq; determinism / copy invariance searched by %d byte comparisons of saved "
                              "models and %d state comparisons" % (len(coq_cases), nevents, ncmp, nstate))
