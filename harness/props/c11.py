"""C11 — constraint forces are admissible (after mj_forward with every solver and cone)."""
import math, time
import framework as F
import c12_common as CU

META = {
    "id": "C11", "category": "proof", "design_ref": "DESIGN.md section 4, C11",
    "technique": "Coq proof over R of admissibility of the force law (Model/ConstraintUpdate.v, shared with C12) and of the pyramid "
                 "decode / contact-force slice laws + float correspondence runs against mj_constraintUpdate_impl, mj_contactForce, "
                 "mju_encodePyramid/mju_decodePyramid + admissibility oracle on efc_force after mj_forward for every solver and cone",
    "text": "PROVED over R for the model Model/ConstraintUpdate.v of the force law mj_constraintUpdate_impl (shared with C12), for every row composition, contact dimension and residual vector meeting cu_wf with positive efc_D and non-zero friction coefficients: C11_admissible — friction-loss rows |f| <= frictionloss; limit, frictionless and pyramidal rows f >= 0; elliptic contacts f0 >= 0 and sum_j (f_j/friction_j)^2 <= f0^2 in every zone (equality in the middle zone); the three row kinds also separately (C11_friction_bound, C11_unilateral, C11_elliptic). C11_decode_cone: mju_decodePyramid of non-negative edge forces lies in the friction pyramid; C11_decode_encode: decode(encode(f)) = f exactly on the forces with f[i+1]/mu[i] <= f[0]/(dim-1) (encodePyramid clips from above only, so it is NOT an inverse outside that set — observed on about a quarter of the engine's pyramidal contacts; no property clause depends on it); C11_contact_force: mj_contactForce for elliptic cones is the zero-padded efc_force slice at efc_address with the contact's adhesion subtracted from the normal. C11_contact_addresses / C11_contact_force_rowless: in the model of mj_instantiateContact's bookkeeping a contact has efc_address >= 0 exactly when it is included, its address is the first of its own rows, excluded contacts (in the gap, no dofs affected, passive) get -1, and mj_contactForce of a contact without address is zero (tied by an exact run against efc_address / exclude / mj_contactForce of every contact of the engine records). C11_noslip_friction / C11_noslip_pyramid: the dry-friction row update of solNoSlip/solPGS (force and bound of the same efc row) stays within [-frictionloss, frictionloss] and equals mju_clip; the noslip update of a pair of opposing pyramid edges keeps both edges >= 0 and their sum. TIED: a fail-closed reader of those projections in engine_solver.c (accepted spellings only, same-row index), mju_clip bit-exact against the model, float runs of the model against mj_constraintUpdate_impl (engine states), mj_contactForce, mju_decodePyramid, mju_encodePyramid; and the observation that after CG/Newton efc_force equals the force law at jar = J*qacc - aref (1e-6). ORACLE on implementation output after mj_forward for PGS, CG, Newton x pyramidal, elliptic on two model families: mjgen models (noslip, islands on/off, adhesion, saturating loads on some seeds) and an island family (2-5 disconnected jointed trees plus resting free bodies, each its own island, frictionloss / friction / condim differing per island in ascending, descending, random and one-large patterns, saturating loads, noslip 0/3/5/20/50, per-island and monolithic solves) so that island-local row positions differ from efc indices: all inequalities with 1e-9 slack, qfrc_constraint = J' efc_force (mj_mulJacTVec, 1e-9), mj_contactForce consistent with efc_force, where a contact's rows are identified from efc_type / efc_id alone (not from efc_address): the rows naming contact c must be the right number of contiguous rows of the right type starting at contact[c].efc_address of an included contact, and a contact that owns no rows (static-static or same-body explicit pairs under a sparse Jacobian, in-gap pairs) must have efc_address = -1, exclude != 0 and a zero mj_contactForce; both families vary the Jacobian option (dense / sparse / auto) and the island family places such row-less contacts before and after ordinary ones. NOT PROVED: that the PGS / noslip iterates are admissible (projectCone is C10's subject) and that solvers terminate with the force-law output — both are observed by the oracle/tie only; qfrc_constraint = J' f is oracle only; floating-point rounding.",
    "note": "Trusted: Coq kernel + std-lib real-number axioms; hand-written model Model/ConstraintUpdate.v; correspondence harness "
            "(gcc, drivers c11_forces.c / c12_update.c, Coq PrimFloat evaluation). IEEE rounding is outside every theorem.",
    "assumptions": ["theorems are over the real numbers; float runs of the same definitions are compared with a scaled tolerance",
                    "that the efc_force left by mj_forward is the output of the force law (primal solvers) or a projected iterate (PGS, noslip) is observed, not proved"],
}

SOLVER = {0: "PGS", 1: "CG", 2: "Newton"}


def parse_records(out):
    recs = []
    for line in out.split("\n"):
        t = line.split()
        if not t or t[0] != "F":
            continue
        seed, cone, solver, noslip, island, adhes, step, nv, ne, nf, nefc, ncon, niter, nisland, sparse = [int(x) for x in t[1:16]]
        p = 16
        def nums(n):
            nonlocal p
            v = [float.fromhex(x) for x in t[p:p + n]]; p += n
            return v
        def ints(n):
            nonlocal p
            v = [int(x) for x in t[p:p + n]]; p += n
            return v
        tp, idd = ints(nefc), ints(nefc)
        floss, force, D, R, jar = nums(nefc), nums(nefc), nums(nefc), nums(nefc), nums(nefc)
        state = ints(nefc)
        qfrc, jtf = nums(nv), nums(nv)
        con = []
        for c in range(ncon):
            dim = ints(1)[0]; mu = nums(1)[0]; fr = nums(5); adr = ints(1)[0]; exc = ints(1)[0]; adh = nums(1)[0]; cf = nums(6); rt = nums(6)
            con.append({"dim": dim, "mu": mu, "fr": fr, "adr": adr, "exclude": exc, "adhesion": adh, "cf": cf, "rt": rt})
        cfg = CU.finish_cfg({"ne": ne, "nf": nf, "D": D, "R": R, "fl": floss, "type": tp, "id": idd, "con": con, "jar": jar, "related": True,
                             "src": "%s seed=%d cone=%s solver=%s noslip=%d island=%d nisland=%d sparse=%d adhesion=%d step=%d" % (
                                 "islands(c11)" if seed >= 1000000 else "mjgen(c11)", seed % 1000000,
                                 "elliptic" if cone else "pyramidal", SOLVER.get(solver, solver), noslip, island, nisland, sparse, adhes, step)})
        recs.append({"cfg": cfg, "seed": seed, "cone": cone, "solver": solver, "noslip": noslip, "island": island, "adhes": adhes, "step": step,
                     "force": force, "state": state, "qfrc": qfrc, "jtf": jtf, "niter": niter, "nisland": nisland, "sparse": sparse})
    return recs


def decode_py(pyr, mu, dim):
    if dim == 1:
        return [pyr[0]]
    f0 = 0.0
    for i in range(2 * (dim - 1)):
        f0 += pyr[i]
    return [f0] + [(pyr[2 * i] - pyr[2 * i + 1]) * mu[i] for i in range(dim - 1)]


def _norm(txt):
    import re
    txt = re.sub(r"//[^\n]*", "", txt)
    return re.sub(r"\s+", "", txt)


# accepted spellings (whitespace/comment-insensitive) of the per-row projections modelled by noslip_fric_update /
# noslip_pyr_pair / mju_clip in Model/ConstraintUpdate.v: force and bound must be those of the same efc row i
FRIC_FORMS = {
    "if(force[i]<-floss[i]){force[i]=-floss[i];}elseif(force[i]>floss[i]){force[i]=floss[i];}",
    "force[i]=mju_clip(force[i],-floss[i],floss[i]);",
    "force[i]=mju_max(-floss[i],mju_min(floss[i],force[i]));",
}
PYR_FORMS = {
    "if(y<-mid){force[j]=0;force[j+1]=2*mid;}elseif(y>mid){force[j]=2*mid;force[j+1]=0;}else{force[j]=mid+y;force[j+1]=mid-y;}",
}


def source_tie(ctx):
    """fail-closed reader of the dry-friction and pyramid-pair projections of solNoSlip / solPGS in
    src/engine/engine_solver.c (the code next to the force law that noslip_fric_update / noslip_pyr_pair model)."""
    import os, re
    path = os.path.join(ctx.repo, "src/engine/engine_solver.c")
    try:
        src = open(path).read()
    except OSError as e:
        ctx.broken.append(("translator", "cannot read src/engine/engine_solver.c", str(e)))
        return 0
    def line_of(pos):
        return src.count("\n", 0, pos) + 1
    def section(start_marker, end_marker, frm=0):
        a = src.find(start_marker, frm)
        if a < 0:
            return None, -1, -1
        b = src.find(end_marker, a)
        if b < 0:
            return None, a, -1
        return src[a + len(start_marker):b], a, b
    n = 0
    a0 = src.find("static void solNoSlip(")
    p0 = src.find("static void solPGS(")
    if a0 < 0 or p0 < 0:
        ctx.broken.append(("translator", "cannot read src/engine/engine_solver.c: solNoSlip / solPGS not found", ""))
        return 0
    checks = [
        ("solNoSlip dry-friction row", "// impose interval constraints", "// add to improvement", a0, FRIC_FORMS),
        ("solNoSlip pyramid pair", "// clamp and assign", "// accumulate improvement", a0, None),
        ("solPGS momentum projection of friction-loss rows", "// friction loss: project onto bounds", "// contact force: project onto friction cone", p0, None),
    ]
    for what, m0, m1, frm, forms in checks:
        body, a, b = section(m0, m1, frm)
        if body is None:
            ctx.broken.append(("translator", "cannot read src/engine/engine_solver.c: %s: markers not found" % what, ""))
            continue
        nb = _norm(body)
        if what.endswith("pyramid pair"):
            ok = any(nb.rstrip("}") == f.rstrip("}") for f in PYR_FORMS)
        elif what.startswith("solPGS momentum"):
            m = re.fullmatch(r"for\(intc=ne;c<ne\+nf;c\+\+\)\{inti=efclist\?efclist\[c\]:c;(.*)\}", nb)
            ok = bool(m) and m.group(1) in FRIC_FORMS
        else:
            ok = nb in forms
        n += 1
        if not ok:
            ctx.broken.append(("translator", "cannot read src/engine/engine_solver.c:%d %s is not one of the modelled forms "
                               "(force and bound of the same efc row)" % (line_of(a), what), body.strip()[:300]))
    # PGS sweep: simple rows
    body, a, b = section("// impose interval and inequality constraints", "// elliptic cone constraint", p0)
    n += 1
    want = "if(c>=ne&&c<ne+nf){if(force[i]<-floss[i]){force[i]=-floss[i];}elseif(force[i]>floss[i]){force[i]=floss[i];}}elseif(c>=ne+nf){if(force[i]<0){force[i]=0;}}}"
    alt = "if(c>=ne&&c<ne+nf){force[i]=mju_clip(force[i],-floss[i],floss[i]);}elseif(c>=ne+nf){if(force[i]<0){force[i]=0;}}}"
    alt2 = "if(c>=ne&&c<ne+nf){force[i]=mju_clip(force[i],-floss[i],floss[i]);}elseif(c>=ne+nf){force[i]=mju_max(0,force[i]);}}"
    if body is None or _norm(body) not in (want, alt, alt2):
        ctx.broken.append(("translator", "cannot read src/engine/engine_solver.c:%d solPGS projection of simple rows is not one of the modelled forms" % (line_of(a) if a >= 0 else 0),
                           (body or "").strip()[:300]))
    return n


def run(ctx):
    quick = ctx.tier == "quick"
    tm = {}
    t0 = time.time()
    ctx.coq_props(allowed_axioms=F.STD_AXIOMS, extra_targets=["Lib/Num.vo", "Lib/NumF.vo", "Lib/Eqb.vo", "Model/ConstraintUpdate.vo"])
    exe = ctx.driver("c11_forces", ["c11_forces.c"])
    exe12 = ctx.driver("c12_update", ["c12_update.c"])
    if exe is None or exe12 is None:
        return
    tm["coq_props+build"] = round(time.time() - t0, 1); t0 = time.time()
    s0, s1 = 1, (73 if quick else 421)
    i0, i1 = 1, (121 if quick else 601)
    rp = getattr(ctx, "replay", None)
    if rp and isinstance(rp.get("case"), dict) and isinstance(rp["case"].get("replay"), dict):
        sd = int(rp["case"]["replay"]["seed"])                    # --replay: only the recorded model
        if sd >= 1000000:
            s0, s1, i0, i1 = 0, 0, sd - 1000000, sd - 1000000 + 1
        else:
            s0, s1, i0, i1 = sd, sd + 1, 0, 0
    out = ""
    for args in ([str(s0), str(s1)], ["isl", str(i0), str(i1)]):
        if args[-2] == args[-1]:
            continue
        rc, o1, err = ctx.run(exe, "", args=args)
        if rc != 0:
            ctx.broken.append(("correspondence", "driver c11_forces failed", "rc=%s %s" % (rc, err[-500:])))
            return
        out += o1 + "\n"
    recs = parse_records(out)
    if len(recs) < 20 and (s1 - s0) + (i1 - i0) > 1:
        ctx.broken.append(("correspondence", "driver c11_forces produced too few records", out[-300:]))
        return
    tm["mj_forward runs"] = round(time.time() - t0, 1); t0 = time.time()
    # ---------------------------------------------------------------- admissibility oracle on implementation output
    stats = CU.Stats()
    SL = 1e-9
    for r in recs:
        cfg, f = r["cfg"], r["force"]
        sig0 = {"solver": SOLVER.get(r["solver"]), "cone": "elliptic" if r["cone"] else "pyramidal", "noslip": bool(r["noslip"])}
        case0 = {"src": cfg["src"], "replay": {"seed": r["seed"], "step": r["step"]}}
        def viol(what, row, expected, observed, theorem):
            ctx.violation("impl_violation", dict(case0, row=row, efc_type=cfg["type"][row] if row is not None else None), expected=expected, observed=observed,
                          theorem=theorem, signature=dict(sig0, site="mj_forward", oracle=what))
            stats.add(what + " FAILED")
        for kind, i, dim, c in cfg["blocks"]:
            if not all(math.isfinite(f[i + j]) for j in range(dim)):
                viol("finite", i, "finite efc_force", f[i], "C11_admissible")
                continue
            if kind == "fric":
                fl = cfg["fl"][i]
                if not abs(f[i]) <= fl + SL * (1 + fl):
                    viol("friction-bound", i, "|efc_force| <= frictionloss = %r" % fl, f[i], "C11_friction_bound")
                else:
                    stats.add("friction-bound")
            elif kind == "uni":
                if not f[i] >= -SL:
                    viol("unilateral", i, "efc_force >= 0", f[i], "C11_unilateral")
                else:
                    stats.add("unilateral type %d" % cfg["type"][i])
            elif kind == "ell":
                fr = cfg["con"][c]["fr"]
                tn = math.sqrt(sum((f[i + j] / fr[j - 1]) ** 2 for j in range(1, dim)))
                if not (f[i] >= -SL and tn <= f[i] + SL * (1 + abs(f[i]))):
                    viol("elliptic-cone", i, "f0 >= 0 and |(f_j/friction_j)| <= f0", {"f0": f[i], "tangential_norm": tn, "force": f[i:i + dim], "friction": fr[:dim - 1]}, "C11_elliptic")
                else:
                    stats.add("elliptic-cone dim %d" % dim)
        # qfrc_constraint = J' efc_force
        sc = 1 + max([abs(x) for x in r["qfrc"]] + [0.0])
        dmax = max([abs(a - b) for a, b in zip(r["qfrc"], r["jtf"])] + [0.0])
        if not dmax <= SL * sc:
            viol("qfrc=JTf", None, "qfrc_constraint = J' efc_force", {"max_abs_diff": dmax}, "C11 qfrc_constraint")
        else:
            stats.add("qfrc=JTf")
        # contact <-> efc row bookkeeping, stated from the efc arrays alone (efc_type / efc_id), not from efc_address:
        # the rows whose efc_id names contact c are contact c's rows
        own = {}
        for i in range(cfg["ne"] + cfg["nf"], cfg["nefc"]):
            if cfg["type"][i] in (5, 6, 7):
                own.setdefault(cfg["id"][i], []).append(i)
        for cid, rows in own.items():
            okc = 0 <= cid < len(cfg["con"])
            if okc:
                cn = cfg["con"][cid]
                want = 1 if cn["dim"] == 1 else (cn["dim"] if r["cone"] else 2 * (cn["dim"] - 1))
                wtype = 5 if cn["dim"] == 1 else (7 if r["cone"] else 6)
                okc = (rows == list(range(rows[0], rows[0] + want)) and all(cfg["type"][i] == wtype for i in rows)
                       and cn["adr"] == rows[0] and cn["exclude"] == 0)
            if not okc:
                viol("contact-rows", rows[0], "the efc rows with efc_id = c are dim (elliptic) / 2(dim-1) (pyramidal) / 1 contiguous rows of the right type starting at "
                     "contact[c].efc_address of an included contact", {"contact": cid, "rows": rows, "contact_record": ({k: cfg["con"][cid][k] for k in ("dim", "adr", "exclude")} if 0 <= cid < len(cfg["con"]) else None)},
                     "C11_contact_addresses")
            else:
                stats.add("contact-rows")
        # mj_contactForce
        for ci, con in enumerate(cfg["con"]):
            adr, dim, cf = con["adr"], con["dim"], con["cf"]
            rows = own.get(ci)
            if rows is None:
                # a contact that owns no efc rows (in the gap, no dofs affected, passive): no force, no address
                if any(x != 0 for x in cf):
                    viol("contactForce-rowless", None, "mj_contactForce = 0 for a contact that owns no efc rows (exclude = %d)" % con["exclude"],
                         {"contact": ci, "result": cf, "efc_address": adr, "exclude": con["exclude"]}, "C11_contact_force")
                elif adr != -1 or con["exclude"] == 0:
                    viol("contact-rows", None, "efc_address = -1 and exclude != 0 for a contact that owns no efc rows", {"contact": ci, "efc_address": adr, "exclude": con["exclude"]},
                         "C11_contact_addresses")
                else:
                    stats.add("contactForce row-less contact (exclude %d)" % con["exclude"])
                continue
            adr = rows[0]
            if r["cone"] == 0:
                exp = decode_py(f[adr:adr + (1 if dim == 1 else 2 * (dim - 1))], con["fr"], dim)
            else:
                exp = list(f[adr:adr + dim])
            exp = exp + [0.0] * (6 - len(exp))
            exp[0] -= con["adhesion"]
            if not all(abs(a - b) <= 1e-12 * (1 + abs(b)) for a, b in zip(cf, exp)):
                viol("contactForce", adr, "mj_contactForce = contact-frame force of the contact's efc_force rows (minus adhesion)", {"contact": ci, "result": cf, "expected": exp}, "C11_contact_force")
            else:
                stats.add("contactForce " + ("elliptic" if r["cone"] else "pyramidal"))
            if r["cone"] == 0 and dim > 1:
                raw = decode_py(f[adr:adr + 2 * (dim - 1)], con["fr"], dim)
                # inside the friction pyramid
                lhs = sum(abs(raw[j]) / con["fr"][j - 1] for j in range(1, dim))
                if not (raw[0] >= -SL and lhs <= raw[0] + SL * (1 + abs(raw[0]))):
                    viol("pyramid-cone", adr, "decoded force inside the friction pyramid", {"force": raw}, "C11_decode_cone")
                else:
                    stats.add("pyramid-cone dim %d" % dim)
                # decode(encode(force)) = force when the one-sided condition of encodePyramid holds
                a = raw[0] / (dim - 1)
                ok_side = all(raw[j] / con["fr"][j - 1] <= a for j in range(1, dim))
                rt = con["rt"][:dim]
                if ok_side:
                    if not all(abs(x - y) <= 1e-9 * (1 + abs(y)) for x, y in zip(rt, raw)):
                        viol("decode-encode", adr, "decode(encode(force)) = force", {"force": raw, "roundtrip": rt}, "C11_decode_encode")
                    else:
                        stats.add("decode-encode")
                else:
                    stats.add("decode-encode (outside the one-sided domain, skipped)")
    tm["oracle"] = round(time.time() - t0, 1); t0 = time.time()
    # ---------------------------------------------------------------- ties to the model
    # (a) the final efc_force of the primal solvers is the force law at jar = J*qacc - aref
    prim = [r for r in recs if r["solver"] in (1, 2) and not r["noslip"]]
    outs = CU.run_raw(ctx, exe12, [(r["cfg"], r["cfg"]["jar"], 0) for r in prim])
    if outs is None:
        return
    nlaw = 0
    for r, o in zip(prim, outs):
        cfg = r["cfg"]
        bad = [i for i in range(cfg["nefc"]) if not abs(o["force"][i] - r["force"][i]) <= 1e-6 * (1 + abs(r["force"][i]) + abs(cfg["D"][i] * cfg["jar"][i]))]
        nlaw += 1
        if bad:
            i = bad[0]
            ctx.violation("correspondence", {"src": cfg["src"], "row": i}, expected="efc_force = force law (mj_constraintUpdate_impl) at jar = J*qacc - aref",
                          observed={"efc_force": r["force"][i], "force_law": o["force"][i], "jar": cfg["jar"][i]}, found_input=False,
                          theorem="tie: efc_force after a primal solver is the output of the force law", signature={"site": "mj_forward", "solver": SOLVER.get(r["solver"])})
            break
    # (b) the force law itself against the Coq model, on these engine states
    budget = 9000 if quick else 50000
    sel, tot = [], 0
    for r, o in sorted(zip(prim, outs), key=lambda ro: ro[0]["cfg"]["nefc"]):
        n = r["cfg"]["nefc"] + 8
        if tot + n > budget:
            break
        sel.append({"cfg": r["cfg"], "jar": r["cfg"]["jar"], "flgH": 0, "tag": "engine-jar", "out": o}); tot += n
    fails = CU.correspond(ctx, "c11", sel)
    for i in fails[:3]:
        c = sel[i]
        ctx.violation("correspondence", CU.case_json(c), expected="output of Model/ConstraintUpdate.v (float run)", observed=CU.out_json(c["out"]),
                      found_input=False, theorem="correspondence c12_update (force law)", signature={"site": "mj_constraintUpdate_impl"})
    # (c) mj_contactForce / decode / encode against the model
    lits, meta = [], []
    for r in recs:
        cfg = r["cfg"]
        for con in cfg["con"]:
            if con["adr"] < 0:
                continue
            n = con["dim"] if r["cone"] else (1 if con["dim"] == 1 else 2 * (con["dim"] - 1))
            sl = r["force"][con["adr"]:con["adr"] + n]
            lits.append("(%s, [%s], [%s], %d%%Z, %s, [%s], [%s])" % ("true" if r["cone"] == 0 else "false", "; ".join(CU.fl(x) for x in sl),
                        "; ".join(CU.fl(x) for x in con["fr"]), con["dim"], CU.fl(con["adhesion"]), "; ".join(CU.fl(x) for x in con["cf"]),
                        "; ".join(CU.fl(x) for x in con["rt"])))
            meta.append({"src": cfg["src"], "efc_address": con["adr"], "dim": con["dim"], "slice": [CU.hx(x) for x in sl], "contactForce": [CU.hx(x) for x in con["cf"]]})
    if len(lits) > (1500 if quick else 8000):
        idx = sorted(ctx.rng.sample(range(len(lits)), 1500 if quick else 8000))
        lits, meta = [lits[i] for i in idx], [meta[i] for i in idx]
    pre = """
Definition tol := 0x1p-40%float.
Definition chk_cf (c : bool * list float * list float * Z * float * list float * list float) : bool :=
  match c with (pyramidal, sl, fr, dim, adhesion, cf, rt) =>
    andb (fclose_list tol cf (contact_force (T:=float) pyramidal sl 0%Z fr dim adhesion))
         (if andb pyramidal (1 <? dim)%Z then
            fclose_list tol (firstn (Z.to_nat dim) rt)
              (decode_pyramid (T:=float) (encode_pyramid (T:=float) (decode_pyramid (T:=float) sl fr dim) fr dim) fr dim)
          else true)
  end.
"""
    cffails = ctx.coq_eval("c11cf", CU.COQ_IMPORTS, lits, "chk_cf", pre=pre, shard=300)
    for i in cffails[:3]:
        ctx.violation("correspondence", meta[i], expected="contact_force / decode_pyramid / encode_pyramid of Model/ConstraintUpdate.v (float run)",
                      observed=meta[i]["contactForce"], found_input=False, theorem="correspondence mj_contactForce, mju_decodePyramid, mju_encodePyramid",
                      signature={"site": "mj_contactForce"})
    tm["correspondence"] = round(time.time() - t0, 1)
    # (e) efc_address bookkeeping of mj_instantiateContact and the gate of mj_contactForce against the model
    alits, ameta = [], []
    for r in recs:
        cfg = r["cfg"]
        if not cfg["con"]:
            continue
        start = sum(1 for t in cfg["type"] if t < 5)
        cs = []
        for cn in cfg["con"]:
            n = 1 if cn["dim"] == 1 else (cn["dim"] if r["cone"] else 2 * (cn["dim"] - 1))
            cs.append("(%d, %d)" % (cn["exclude"], n))
        zero_cf = "[" + "; ".join("true" if all(x == 0 for x in cn["cf"]) else "false" for cn in cfg["con"]) + "]"
        alits.append("(%d, [%s], %s, %s)" % (start, "; ".join(cs), F.zlist([cn["adr"] for cn in cfg["con"]]), zero_cf))
        ameta.append({"src": cfg["src"], "replay": {"seed": r["seed"], "step": r["step"]}, "contacts": [{k: cn[k] for k in ("dim", "adr", "exclude")} for cn in cfg["con"]]})
    if len(alits) > (600 if quick else 3000):
        idx = sorted(ctx.rng.sample(range(len(alits)), 600 if quick else 3000))
        alits, ameta = [alits[i] for i in idx], [ameta[i] for i in idx]
    apre = """
Open Scope Z_scope.
Fixpoint gate_ok (adrs : list Z) (zs : list bool) : bool :=
  match adrs, zs with
  | a :: adrs', z :: zs' => andb (if a <? 0 then z else true) (gate_ok adrs' zs')
  | nil, nil => true
  | _, _ => false
  end.
Definition chk_adr (c : Z * list (Z * Z) * list Z * list bool) : bool :=
  match c with (start, cs, adrs, zs) => andb (zlist_eqb (contact_addresses start cs) adrs) (gate_ok (contact_addresses start cs) zs) end.
"""
    afails = ctx.coq_eval("c11adr", "From Coq Require Import ZArith List Bool.\nFrom MJV Require Import Lib.Eqb Model.ConstraintUpdate.", alits, "chk_adr", pre=apre, shard=300)
    for i in afails[:3]:
        ctx.violation("correspondence", ameta[i], expected="contact_addresses of Model/ConstraintUpdate.v (efc_address of every contact; zero mj_contactForce for contacts without address)",
                      observed=ameta[i]["contacts"], found_input=False, theorem="correspondence mj_instantiateContact efc_address (C11_contact_addresses)",
                      signature={"site": "mj_instantiateContact"})
    ctx.cov["support"]["contact_address_correspondence_records"] = len(alits)
    # (d) the per-row projections of the dual solvers: source text + mju_clip against the model
    ntie = source_tie(ctx)
    trip = []
    for _ in range(400):
        x = ctx.rng.gauss(0, 3); lo = ctx.rng.gauss(0, 2); hi = lo + abs(ctx.rng.gauss(0, 2)) * ctx.rng.choice([1, 1, 1, 0, -0.5])
        trip.append((x, lo, hi))
    trip += [(0.0, -0.0, 0.0), (1.0, -1.0, 1.0), (-1.0, -1.0, 1.0), (float("inf"), -2.0, 2.0), (float("-inf"), -2.0, 2.0)]
    rc, o2, err = ctx.run(exe, "".join("%s %s %s\n" % (CU.hx(a), CU.hx(b), CU.hx(c)) for a, b, c in trip), args=["clip"])
    cl = o2.split()
    if rc != 0 or len(cl) != len(trip):
        ctx.broken.append(("correspondence", "driver c11_forces clip failed", "rc=%s %s" % (rc, err[-300:])))
    else:
        clits = ["(%s, %s, %s, %s)" % (CU.fl(a), CU.fl(b), CU.fl(c), CU.fl(float.fromhex(r))) for (a, b, c), r in zip(trip, cl)]
        clfails = ctx.coq_eval("c11clip", CU.COQ_IMPORTS, clits, "(fun c : float*float*float*float => match c with (x, lo, hi, r) => fbits_eq r (mju_clip (T:=float) x lo hi) end)")
        for i in clfails[:2]:
            ctx.violation("correspondence", {"x": CU.hx(trip[i][0]), "lo": CU.hx(trip[i][1]), "hi": CU.hx(trip[i][2])}, expected="mju_clip of Model/ConstraintUpdate.v",
                          observed=cl[i], found_input=False, theorem="correspondence mju_clip (C11_noslip_friction)", signature={"site": "mju_clip"})
    ctx.cov["support"]["dual_solver_projection_source_checks"] = ntie
    ctx.cov["support"]["mju_clip_correspondence_cases"] = len(trip)
    # ---------------------------------------------------------------- coverage
    strata = {"records with >= 2 islands": 0, "noslip and >= 2 islands": 0, "noslip, >= 2 islands and a saturated friction-loss row": 0,
              "noslip, >= 2 islands, distinct frictionloss values": 0, "islands disabled": 0, "island family records": 0}
    for r in recs:
        cfg = r["cfg"]
        fr_rows = [i for (k, i, dm, c) in cfg["blocks"] if k == "fric"]
        sat = any(abs(r["force"][i]) >= 0.999 * cfg["fl"][i] for i in fr_rows)
        multi = r["nisland"] >= 2
        strata["records with >= 2 islands"] += multi
        strata["noslip and >= 2 islands"] += bool(multi and r["noslip"])
        strata["noslip, >= 2 islands and a saturated friction-loss row"] += bool(multi and r["noslip"] and sat)
        strata["noslip, >= 2 islands, distinct frictionloss values"] += bool(multi and r["noslip"] and len(set(cfg["fl"][i] for i in fr_rows)) >= 2)
        strata["islands disabled"] += (not r["island"])
        strata["island family records"] += (r["seed"] >= 1000000)
    ctx.cov["strata"] = strata
    combos = {}
    for r in recs:
        k = "%s/%s%s" % (SOLVER.get(r["solver"]), "elliptic" if r["cone"] else "pyramidal", "/noslip" if r["noslip"] else "")
        combos[k] = combos.get(k, 0) + 1
    ctx.cov["evaluations"] = len(recs) + len(sel) + len(lits)
    ctx.cov["distinct_nontrivial"] = sum(1 for r in recs if len(r["cfg"]["con"]) > 0 and any(x != 0 for x in r["force"]))
    ctx.cov["rule"] = ("records = (model, state) after mj_forward. mjgen family: steps 0/9/30/60, solver = seed/2 mod 3 (PGS, CG, Newton), "
                       "cone = seed mod 2, noslip 3 for seed mod 7 = 0 and 20 for seed mod 5 = 2, islands disabled for seed mod 5 = 0, geom adhesion for seed mod 6 = 1, "
                       "saturating applied forces for seed mod 4 = 3. Island family (c11_forces isl): 2-5 disconnected jointed trees (multi-joint and jointless bodies, "
                       "hinge/slide, limits, fixed tendons with friction loss) whose frictionloss values ascend / descend / are random / have one large among small across "
                       "trees, 0-3 resting free bodies (sphere/box/capsule, condim 1/3/4/6, own friction, shallow or deep penetration), saturating loads, "
                       "solver = seed mod 3, cone = seed/3 mod 2, noslip in {20,5,0,20,3,50}, islands disabled for seed mod 8 = 7; every tree / body is its own island, "
                       "so island-local row positions differ from efc indices; jacobian option dense/sparse/auto by seed; 0-2 static blocks declared before and 0-2 after the floor with explicit floor pairs (condim 1/3/4/6, some only in the gap) and a free body with an explicit pair between two of its own geoms: contacts that own no efc rows; "
                       "non-trivial = record with at least one contact and a non-zero constraint force")
    ctx.cov["solver_cone_records"] = combos
    ctx.cov["oracle_checks"] = stats.as_dict()
    ctx.cov["support"].update({"force_law_tie_records": nlaw, "force_law_correspondence_cases": len(sel), "contact_force_correspondence_cases": len(lits), "timing_s": tm})
    ctx.cov["samples"] = [{"src": recs[i]["cfg"]["src"], "nefc": recs[i]["cfg"]["nefc"], "ncon": len(recs[i]["cfg"]["con"])} for i in (0, len(recs) // 2, len(recs) - 1)]
    ctx.cov["correspondence_disagreements"] = len(fails) + len(cffails)
    ctx.cov["explanation"] = ("Theorems of Props/C11.v proved over R for the model; admissibility oracle on efc_force after mj_forward on %d records "
                              "(%d checks); model tied by float runs (%d force-law cases, %d contact-force cases)" % (len(recs), stats.total(), len(sel), len(lits)))
