"""C11 — constraint forces are admissible (after mj_forward with every solver and cone)."""
import math, time
import framework as F
import c12_common as CU

META = {
    "id": "C11", "category": "proof", "design_ref": "DESIGN.md section 4, C11",
    "technique": "Coq proof over R of admissibility of the force law (Model/ConstraintUpdate.v, shared with C12) and of the pyramid "
                 "decode / contact-force slice laws + float correspondence runs against mj_constraintUpdate_impl, mj_contactForce, "
                 "mju_encodePyramid/mju_decodePyramid + admissibility oracle on efc_force after mj_forward for every solver and cone",
    "text": "PROVED over R for the model Model/ConstraintUpdate.v of the force law mj_constraintUpdate_impl (shared with C12), for every row composition, contact dimension and residual vector meeting cu_wf with positive efc_D and non-zero friction coefficients: C11_admissible — friction-loss rows |f| <= frictionloss; limit, frictionless and pyramidal rows f >= 0; elliptic contacts f0 >= 0 and sum_j (f_j/friction_j)^2 <= f0^2 in every zone (equality in the middle zone); the three row kinds also separately (C11_friction_bound, C11_unilateral, C11_elliptic). C11_decode_cone: mju_decodePyramid of non-negative edge forces lies in the friction pyramid; C11_decode_encode: decode(encode(f)) = f exactly on the forces with f[i+1]/mu[i] <= f[0]/(dim-1) (encodePyramid clips from above only, so it is NOT an inverse outside that set — observed on about a quarter of the engine's pyramidal contacts; no property clause depends on it); C11_contact_force: mj_contactForce for elliptic cones is the zero-padded efc_force slice at efc_address with the contact's adhesion subtracted from the normal. TIED: float runs of the model against mj_constraintUpdate_impl (engine states), mj_contactForce, mju_decodePyramid, mju_encodePyramid; and the observation that after CG/Newton efc_force equals the force law at jar = J*qacc - aref (1e-6). ORACLE on implementation output after mj_forward on mjgen models for PGS, CG, Newton x pyramidal, elliptic (with noslip, islands on/off, adhesion on some seeds): all inequalities with 1e-9 slack, qfrc_constraint = J' efc_force (mj_mulJacTVec, 1e-9), mj_contactForce consistent with efc_force. NOT PROVED: that the PGS / noslip iterates are admissible (projectCone is C10's subject) and that solvers terminate with the force-law output — both are observed by the oracle/tie only; qfrc_constraint = J' f is oracle only; floating-point rounding.",
    "note": "Trusted: Coq kernel + std-lib real-number axioms; hand-written model Model/ConstraintUpdate.v; correspondence harness "
            "(gcc, drivers c11_forces.c / c12_update.c, Coq PrimFloat evaluation). IEEE rounding is outside every theorem.",
    "assumptions": ["theorems are over the real numbers; float runs of the same definitions are compared with a scaled tolerance",
                    "that the efc_force left by mj_forward is the output of the force law (primal solvers) or a projected iterate (PGS, noslip) is observed, not proved"],
}

SOLVER = {0: "PGS", 1: "CG", 2: "Newton"}


def parse_records(out):
    recs = []
    for line in out.split("\n"):
        t = line.split()
        if not t or t[0] != "F":
            continue
        seed, cone, solver, noslip, island, adhes, step, nv, ne, nf, nefc, ncon, niter = [int(x) for x in t[1:14]]
        p = 14
        def nums(n):
            nonlocal p
            v = [float.fromhex(x) for x in t[p:p + n]]; p += n
            return v
        def ints(n):
            nonlocal p
            v = [int(x) for x in t[p:p + n]]; p += n
            return v
        tp, idd = ints(nefc), ints(nefc)
        floss, force, D, R, jar = nums(nefc), nums(nefc), nums(nefc), nums(nefc), nums(nefc)
        state = ints(nefc)
        qfrc, jtf = nums(nv), nums(nv)
        con = []
        for c in range(ncon):
            dim = ints(1)[0]; mu = nums(1)[0]; fr = nums(5); adr = ints(1)[0]; adh = nums(1)[0]; cf = nums(6); rt = nums(6)
            con.append({"dim": dim, "mu": mu, "fr": fr, "adr": adr, "adhesion": adh, "cf": cf, "rt": rt})
        cfg = CU.finish_cfg({"ne": ne, "nf": nf, "D": D, "R": R, "fl": floss, "type": tp, "id": idd, "con": con, "jar": jar, "related": True,
                             "src": "mjgen(c11) seed=%d cone=%s solver=%s noslip=%d island=%d adhesion=%d step=%d" % (
                                 seed, "elliptic" if cone else "pyramidal", SOLVER.get(solver, solver), noslip, island, adhes, step)})
        recs.append({"cfg": cfg, "seed": seed, "cone": cone, "solver": solver, "noslip": noslip, "island": island, "adhes": adhes, "step": step,
                     "force": force, "state": state, "qfrc": qfrc, "jtf": jtf, "niter": niter})
    return recs


def decode_py(pyr, mu, dim):
    if dim == 1:
        return [pyr[0]]
    f0 = 0.0
    for i in range(2 * (dim - 1)):
        f0 += pyr[i]
    return [f0] + [(pyr[2 * i] - pyr[2 * i + 1]) * mu[i] for i in range(dim - 1)]


def run(ctx):
    quick = ctx.tier == "quick"
    tm = {}
    t0 = time.time()
    ctx.coq_props(allowed_axioms=F.STD_AXIOMS, extra_targets=["Lib/Num.vo", "Lib/NumF.vo", "Lib/Eqb.vo", "Model/ConstraintUpdate.vo"])
    exe = ctx.driver("c11_forces", ["c11_forces.c"])
    exe12 = ctx.driver("c12_update", ["c12_update.c"])
    if exe is None or exe12 is None:
        return
    tm["coq_props+build"] = round(time.time() - t0, 1); t0 = time.time()
    s0, s1 = 1, (73 if quick else 421)
    rp = getattr(ctx, "replay", None)
    if rp and isinstance(rp.get("case"), dict) and isinstance(rp["case"].get("replay"), dict):
        s0 = int(rp["case"]["replay"]["seed"]); s1 = s0 + 1      # --replay: only the recorded model
    rc, out, err = ctx.run(exe, "", args=[str(s0), str(s1)])
    if rc != 0:
        ctx.broken.append(("correspondence", "driver c11_forces failed", "rc=%s %s" % (rc, err[-500:])))
        return
    recs = parse_records(out)
    if len(recs) < 20 and s1 - s0 > 1:
        ctx.broken.append(("correspondence", "driver c11_forces produced too few records", out[-300:]))
        return
    tm["mj_forward runs"] = round(time.time() - t0, 1); t0 = time.time()
    # ---------------------------------------------------------------- admissibility oracle on implementation output
    stats = CU.Stats()
    SL = 1e-9
    for r in recs:
        cfg, f = r["cfg"], r["force"]
        sig0 = {"solver": SOLVER.get(r["solver"]), "cone": "elliptic" if r["cone"] else "pyramidal", "noslip": bool(r["noslip"])}
        case0 = {"src": cfg["src"], "replay": {"seed": r["seed"], "step": r["step"]}}
        def viol(what, row, expected, observed, theorem):
            ctx.violation("impl_violation", dict(case0, row=row, efc_type=cfg["type"][row] if row is not None else None), expected=expected, observed=observed,
                          theorem=theorem, signature=dict(sig0, site="mj_forward", oracle=what))
            stats.add(what + " FAILED")
        for kind, i, dim, c in cfg["blocks"]:
            if not all(math.isfinite(f[i + j]) for j in range(dim)):
                viol("finite", i, "finite efc_force", f[i], "C11_admissible")
                continue
            if kind == "fric":
                fl = cfg["fl"][i]
                if not abs(f[i]) <= fl + SL * (1 + fl):
                    viol("friction-bound", i, "|efc_force| <= frictionloss = %r" % fl, f[i], "C11_friction_bound")
                else:
                    stats.add("friction-bound")
            elif kind == "uni":
                if not f[i] >= -SL:
                    viol("unilateral", i, "efc_force >= 0", f[i], "C11_unilateral")
                else:
                    stats.add("unilateral type %d" % cfg["type"][i])
            elif kind == "ell":
                fr = cfg["con"][c]["fr"]
                tn = math.sqrt(sum((f[i + j] / fr[j - 1]) ** 2 for j in range(1, dim)))
                if not (f[i] >= -SL and tn <= f[i] + SL * (1 + abs(f[i]))):
                    viol("elliptic-cone", i, "f0 >= 0 and |(f_j/friction_j)| <= f0", {"f0": f[i], "tangential_norm": tn, "force": f[i:i + dim], "friction": fr[:dim - 1]}, "C11_elliptic")
                else:
                    stats.add("elliptic-cone dim %d" % dim)
        # qfrc_constraint = J' efc_force
        sc = 1 + max([abs(x) for x in r["qfrc"]] + [0.0])
        dmax = max([abs(a - b) for a, b in zip(r["qfrc"], r["jtf"])] + [0.0])
        if not dmax <= SL * sc:
            viol("qfrc=JTf", None, "qfrc_constraint = J' efc_force", {"max_abs_diff": dmax}, "C11 qfrc_constraint")
        else:
            stats.add("qfrc=JTf")
        # mj_contactForce
        for ci, con in enumerate(cfg["con"]):
            adr, dim, cf = con["adr"], con["dim"], con["cf"]
            if adr < 0:
                if any(x != 0 for x in cf):
                    viol("contactForce", None, "zero result for a contact without efc rows", cf, "C11_contact_force")
                continue
            if r["cone"] == 0:
                exp = decode_py(f[adr:adr + (1 if dim == 1 else 2 * (dim - 1))], con["fr"], dim)
            else:
                exp = list(f[adr:adr + dim])
            exp = exp + [0.0] * (6 - len(exp))
            exp[0] -= con["adhesion"]
            if not all(abs(a - b) <= 1e-12 * (1 + abs(b)) for a, b in zip(cf, exp)):
                viol("contactForce", adr, "mj_contactForce = contact-frame force of the efc_force rows at efc_address (minus adhesion)", {"result": cf, "expected": exp}, "C11_contact_force")
            else:
                stats.add("contactForce " + ("elliptic" if r["cone"] else "pyramidal"))
            if r["cone"] == 0 and dim > 1:
                raw = decode_py(f[adr:adr + 2 * (dim - 1)], con["fr"], dim)
                # inside the friction pyramid
                lhs = sum(abs(raw[j]) / con["fr"][j - 1] for j in range(1, dim))
                if not (raw[0] >= -SL and lhs <= raw[0] + SL * (1 + abs(raw[0]))):
                    viol("pyramid-cone", adr, "decoded force inside the friction pyramid", {"force": raw}, "C11_decode_cone")
                else:
                    stats.add("pyramid-cone dim %d" % dim)
                # decode(encode(force)) = force when the one-sided condition of encodePyramid holds
                a = raw[0] / (dim - 1)
                ok_side = all(raw[j] / con["fr"][j - 1] <= a for j in range(1, dim))
                rt = con["rt"][:dim]
                if ok_side:
                    if not all(abs(x - y) <= 1e-9 * (1 + abs(y)) for x, y in zip(rt, raw)):
                        viol("decode-encode", adr, "decode(encode(force)) = force", {"force": raw, "roundtrip": rt}, "C11_decode_encode")
                    else:
                        stats.add("decode-encode")
                else:
                    stats.add("decode-encode (outside the one-sided domain, skipped)")
    tm["oracle"] = round(time.time() - t0, 1); t0 = time.time()
    # ---------------------------------------------------------------- ties to the model
    # (a) the final efc_force of the primal solvers is the force law at jar = J*qacc - aref
    prim = [r for r in recs if r["solver"] in (1, 2) and not r["noslip"]]
    outs = CU.run_raw(ctx, exe12, [(r["cfg"], r["cfg"]["jar"], 0) for r in prim])
    if outs is None:
        return
    nlaw = 0
    for r, o in zip(prim, outs):
        cfg = r["cfg"]
        bad = [i for i in range(cfg["nefc"]) if not abs(o["force"][i] - r["force"][i]) <= 1e-6 * (1 + abs(r["force"][i]) + abs(cfg["D"][i] * cfg["jar"][i]))]
        nlaw += 1
        if bad:
            i = bad[0]
            ctx.violation("correspondence", {"src": cfg["src"], "row": i}, expected="efc_force = force law (mj_constraintUpdate_impl) at jar = J*qacc - aref",
                          observed={"efc_force": r["force"][i], "force_law": o["force"][i], "jar": cfg["jar"][i]}, found_input=False,
                          theorem="tie: efc_force after a primal solver is the output of the force law", signature={"site": "mj_forward", "solver": SOLVER.get(r["solver"])})
            break
    # (b) the force law itself against the Coq model, on these engine states
    budget = 9000 if quick else 50000
    sel, tot = [], 0
    for r, o in sorted(zip(prim, outs), key=lambda ro: ro[0]["cfg"]["nefc"]):
        n = r["cfg"]["nefc"] + 8
        if tot + n > budget:
            break
        sel.append({"cfg": r["cfg"], "jar": r["cfg"]["jar"], "flgH": 0, "tag": "engine-jar", "out": o}); tot += n
    fails = CU.correspond(ctx, "c11", sel)
    for i in fails[:3]:
        c = sel[i]
        ctx.violation("correspondence", CU.case_json(c), expected="output of Model/ConstraintUpdate.v (float run)", observed=CU.out_json(c["out"]),
                      found_input=False, theorem="correspondence c12_update (force law)", signature={"site": "mj_constraintUpdate_impl"})
    # (c) mj_contactForce / decode / encode against the model
    lits, meta = [], []
    for r in recs:
        cfg = r["cfg"]
        for con in cfg["con"]:
            if con["adr"] < 0:
                continue
            n = con["dim"] if r["cone"] else (1 if con["dim"] == 1 else 2 * (con["dim"] - 1))
            sl = r["force"][con["adr"]:con["adr"] + n]
            lits.append("(%s, [%s], [%s], %d%%Z, %s, [%s], [%s])" % ("true" if r["cone"] == 0 else "false", "; ".join(CU.fl(x) for x in sl),
                        "; ".join(CU.fl(x) for x in con["fr"]), con["dim"], CU.fl(con["adhesion"]), "; ".join(CU.fl(x) for x in con["cf"]),
                        "; ".join(CU.fl(x) for x in con["rt"])))
            meta.append({"src": cfg["src"], "efc_address": con["adr"], "dim": con["dim"], "slice": [CU.hx(x) for x in sl], "contactForce": [CU.hx(x) for x in con["cf"]]})
    if len(lits) > (1500 if quick else 8000):
        idx = sorted(ctx.rng.sample(range(len(lits)), 1500 if quick else 8000))
        lits, meta = [lits[i] for i in idx], [meta[i] for i in idx]
    pre = """
Definition tol := 0x1p-40%float.
Definition chk_cf (c : bool * list float * list float * Z * float * list float * list float) : bool :=
  match c with (pyramidal, sl, fr, dim, adhesion, cf, rt) =>
    andb (fclose_list tol cf (contact_force (T:=float) pyramidal sl 0%Z fr dim adhesion))
         (if andb pyramidal (1 <? dim)%Z then
            fclose_list tol (firstn (Z.to_nat dim) rt)
              (decode_pyramid (T:=float) (encode_pyramid (T:=float) (decode_pyramid (T:=float) sl fr dim) fr dim) fr dim)
          else true)
  end.
"""
    cffails = ctx.coq_eval("c11cf", CU.COQ_IMPORTS, lits, "chk_cf", pre=pre, shard=300)
    for i in cffails[:3]:
        ctx.violation("correspondence", meta[i], expected="contact_force / decode_pyramid / encode_pyramid of Model/ConstraintUpdate.v (float run)",
                      observed=meta[i]["contactForce"], found_input=False, theorem="correspondence mj_contactForce, mju_decodePyramid, mju_encodePyramid",
                      signature={"site": "mj_contactForce"})
    tm["correspondence"] = round(time.time() - t0, 1)
    # ---------------------------------------------------------------- coverage
    combos = {}
    for r in recs:
        k = "%s/%s%s" % (SOLVER.get(r["solver"]), "elliptic" if r["cone"] else "pyramidal", "/noslip" if r["noslip"] else "")
        combos[k] = combos.get(k, 0) + 1
    ctx.cov["evaluations"] = len(recs) + len(sel) + len(lits)
    ctx.cov["distinct_nontrivial"] = sum(1 for r in recs if len(r["cfg"]["con"]) > 0 and any(x != 0 for x in r["force"]))
    ctx.cov["rule"] = ("records = (mjgen model, state) after mj_forward at steps 0/9/30/60 for seeds of the run, solver = seed/2 mod 3 (PGS, CG, Newton), "
                       "cone = seed mod 2, noslip for seed mod 7 = 0, islands disabled for seed mod 5 = 0, geom adhesion for seed mod 6 = 1; "
                       "non-trivial = record with at least one contact and a non-zero constraint force")
    ctx.cov["solver_cone_records"] = combos
    ctx.cov["oracle_checks"] = stats.as_dict()
    ctx.cov["support"].update({"force_law_tie_records": nlaw, "force_law_correspondence_cases": len(sel), "contact_force_correspondence_cases": len(lits), "timing_s": tm})
    ctx.cov["samples"] = [{"src": recs[i]["cfg"]["src"], "nefc": recs[i]["cfg"]["nefc"], "ncon": len(recs[i]["cfg"]["con"])} for i in (0, len(recs) // 2, len(recs) - 1)]
    ctx.cov["correspondence_disagreements"] = len(fails) + len(cffails)
    ctx.cov["explanation"] = ("Theorems of Props/C11.v proved over R for the model; admissibility oracle on efc_force after mj_forward on %d records "
                              "(%d checks); model tied by float runs (%d force-law cases, %d contact-force cases)" % (len(recs), stats.total(), len(sel), len(lits)))
