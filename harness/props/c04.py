"""C04 — staged and split pipeline calls equal the monolithic call."""
import os, re, sys
import framework as F
sys.path.insert(0, os.path.join(F.VERIF, "translate"))
import stages2v

META = {
    "id": "C04", "category": "proof", "design_ref": "DESIGN.md section 4, C04",
    "technique": "Coq: driver programs regenerated from engine_forward.c and engine_inverse.c by a fail-closed translator; a proved-sound syntactic checker decides split/skip equivalence on the regenerated programs for every interpretation of the stages; stage-commutation premises and end-to-end equality validated bitwise on the implementation",
    "text": "Proved (Coq, closed, for every interpretation of stage functions/conditions): mj_step1;U;mj_step2 = U;mj_step for Euler/implicit/implicitfast given that U commutes with the computed prefix of stages (no callback), the same with a control callback and no user update, and mj_forwardSkip(POS|VEL) = full call on data where the skipped prefix is a no-op. The programs are regenerated from src/engine/engine_forward.c on every run, so a change of the driver logic breaks the proof. The commutation premises (per stage of the prefix) and the end-to-end equalities (step vs step1/step2, skip vs full, forward purity, forward idempotence without warm start) are checked bitwise on the real code on random models: that part is validation, not proof. mj_inverseSkip(POS|VEL) = mj_inverse on data where the removed middle segment of the regenerated engine_inverse.c program is a no-op (statements outside the driver language are uninterpreted functions of the state, named by their text). RK4 is not covered (the property excludes it for the split).",
    "note": "Trusted: Coq kernel; translate/stages2v.py (erases timer bookkeeping only); the stage functions themselves are uninterpreted (their read/write behaviour is validated by execution, not proved); gcc; harness drivers c04_pipeline.c, mjgen.h, mjcmp.h. Theorems closed under the global context.",
    "assumptions": ["stage functions are deterministic functions of mjData (validated by bitwise comparison on generated models)",
                    "no passive flex contact (mj_forwardSkip raises an error that mj_step1 does not)"],
}

ALLF = 0x7FFFF


def gen(ctx):
    def g():
        try:
            return {"Gen/Pipeline.v": stages2v.translate(ctx.repo)}
        except stages2v.TranslatorError as e:
            raise F.TranslatorError(str(e))
    return g


def run(ctx):
    rng = ctx.rng
    ok = ctx.coq_props(allowed_axioms=(), gen=gen(ctx), extra_targets=["Proof/C04SkipProof.vo", "Proof/C04InvProof.vo"])
    # prefix of stages the user update must commute with, computed by Coq from the regenerated programs
    prefix_calls = None
    okr, out = ctx.coq_run("c04_prefix", """From Coq Require Import String List.
From MJV Require Import Model.Pipeline Gen.Pipeline Proof.C04Proof Proof.C04SkipProof Proof.C04InvProof.
Import ListNotations. Open Scope string_scope.
Definition pc := match split_prefix asm_nocb "mjINT_EULER" with Some p => items_calls p | None => ["<none>"] end.
Definition sk := match skip_prefix "mjSTAGE_VEL" "0" with Some p => items_calls p | None => ["<none>"] end.
Definition im := match skip_mid "mjSTAGE_VEL" "0" with Some (_, p) => items_calls p | None => ["<none>"] end.
Eval vm_compute in pc.
Eval vm_compute in sk.
Eval vm_compute in im.
""") if ok or True else (False, "")
    if okr:
        lists = re.findall(r"=\s*\[(.*?)\]\s*:\s*list string", out, flags=re.S)
        if len(lists) >= 1:
            prefix_calls = re.findall(r'"([^"]*)"', lists[0])
        ctx.cov["split_prefix"] = prefix_calls
        if len(lists) >= 2:
            ctx.cov["skip_prefix_VEL"] = re.findall(r'"([^"]*)"', lists[1])
        if len(lists) >= 3:
            ctx.cov["inverse_skipped_segment_VEL"] = re.findall(r'"([^"]*)"', lists[2])
    exe = ctx.driver("c04_pipeline", ["c04_pipeline.c"])
    if exe is None:
        return
    nmod = 60 if ctx.tier == "quick" else 700
    cases = []
    for i in range(nmod):
        seed = rng.randrange(1, 10**6)
        feat = ALLF if i % 3 == 0 else rng.randrange(0, ALLF + 1)
        nb = 1 + rng.randrange(6)
        en = rng.choice([0, 2, 4, 6])            # energy, fwdinv
        for integ in (0, 2, 3):
            cases.append(("E", "E %d %d %d %d %d 0 0 4 %d %d" % (seed, feat, nb, integ, en, rng.choice([0, 1, 2]), rng.choice([0, 1]))))
        # callback variants, incl. actuation disabled (the repaired defect) and energy
        cases.append(("E", "E %d %d %d %d %d %d %d 4 %d %d" % (seed, feat, nb, rng.choice([0, 2, 3]), en, rng.choice([0, 2048]), rng.choice([1, 2]), rng.choice([0, 1, 2]), rng.choice([0, 1]))))
        for skip in (1, 2):
            for solver in (0, 1, 2):
                cases.append(("S", "S %d %d %d %d %d %d %d %d" % (seed, feat, nb, rng.choice([0, 2, 3]), en, skip, solver, rng.choice([0, 1]))))
            # mj_inverseSkip vs mj_inverse; enable bits: energy 2, fwdinv 4, invdiscrete 8, diagexact(32)
            ien = rng.choice([0, 2, 8, 10, 32, 34])
            cases.append(("V", "V %d %d %d %d %d %d %d %d" % (seed, feat, nb, rng.choice([0, 2, 3]), ien, skip, rng.choice([0, 1, 2]), rng.choice([0, 1]))))
    # fixed corpus: the repaired mj_step1 callback defect
    cases.insert(0, ("E", "E 3 %d 3 0 0 2048 2 5 2 0" % ALLF))
    hyp_cases = []
    if prefix_calls and prefix_calls != ["<none>"]:
        for st in prefix_calls:
            for k in range(6 if ctx.tier == "quick" else 40):
                hyp_cases.append(("H", "H %d %d %d 2 %s" % (rng.randrange(1, 10**6), ALLF if k % 2 else rng.randrange(0, ALLF + 1), 1 + rng.randrange(5), st)))
    allc = cases + hyp_cases
    # the driver is single-threaded and every case is independent: run 8 chunks side by side
    from concurrent.futures import ThreadPoolExecutor
    nchunk = 8
    chunks = [allc[i::nchunk] for i in range(nchunk)]
    allc = [c for ch in chunks for c in ch]
    with ThreadPoolExecutor(max_workers=nchunk) as ex:
        res = list(ex.map(lambda ch: ctx.run(exe, "\n".join(c[1] for c in ch) + "\n", timeout=1500) if ch else (0, "", ""), chunks))
    rc = next((r[0] for r in res if r[0] != 0), 0)
    err = " ".join(r[2][-200:] for r in res if r[0] != 0)
    lines = [l for r in res for l in r[1].strip().split("\n") if l != "" or r[1].strip() != ""]
    lines = [l for l in lines if l != ""]
    if rc != 0 or len(lines) != len(allc):
        ctx.broken.append(("correspondence", "driver c04_pipeline failed", "rc=%s lines=%d/%d %s" % (rc, len(lines), len(allc), err[-500:])))
        return
    nontriv = set()
    for (kind, inp), line in zip(allc, lines):
        if line.startswith("OK"):
            m = re.search(r"nefc=(\d+)", line)
            if kind != "E" or (m and int(m.group(1)) > 0):
                nontriv.add(inp)
            continue
        if line.startswith("ERR compile"):
            continue
        if line.startswith("UNKNOWN"):
            ctx.broken.append(("correspondence", "stage %s of the regenerated program is unknown to the harness" % line.split()[1],
                               "add it to the stage table of c04_pipeline.c after reading what it does"))
            continue
        if line.startswith("ERR") and kind == "V":
            continue   # models on which mj_inverse raises an engine error are outside the comparison
        what = {"E": "mj_step1;U;mj_step2 differs from U;mj_step", "S": "mj_forwardSkip / purity / idempotence",
                "V": "mj_inverseSkip differs from mj_inverse although the skipped stages' inputs are unchanged",
                "H": "user update does not commute with a stage of the split prefix"}[kind]
        ctx.violation("impl_violation", {"driver_input": inp}, expected="bitwise identical mjData", observed=line,
                      theorem={"E": "C04_step12_user/C04_step12_callback", "S": "C04_skip", "V": "C04_inverse_skip", "H": "C04_step12_user (premise)"}[kind],
                      signature={"site": {"E": "mj_step1/mj_step2", "S": "mj_forwardSkip", "V": "mj_inverseSkip", "H": "stage-commutation"}[kind], "what": what})
    ctx.cov["evaluations"] = len(allc)
    ctx.cov["distinct_nontrivial"] = len(nontriv)
    ctx.cov["rule"] = ("random mjgen models (seed, feature mask, nbody) x integrators {Euler, implicit, implicitfast} x solvers {PGS, CG, Newton} x cones x enable flags {energy, fwdinv} with a "
                       "random user update between the halves; callback variants incl. actuation disabled; skip stages POS/VEL with purity and idempotence; mj_inverseSkip(POS|VEL) vs mj_inverse after perturbing qacc (and qvel) with flags {energy, invdiscrete, diagexact}; "
                       "commutation of the user update with every stage of the Coq-computed prefix; non-trivial = distinct case that ran without error (E cases: with nefc > 0)")
    ctx.cov["samples"] = [c[1] for c in (allc[0], allc[5], allc[-1])]
    ctx.cov["translator_inputs"] = ["src/engine/engine_forward.c", "src/engine/engine_inverse.c", "include/mujoco/mjtype.h"]
    ctx.cov["explanation"] = "6 theorems over the regenerated driver programs; premises and end-to-end equalities validated bitwise on %d implementation runs" % len(allc)
