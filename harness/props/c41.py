"""C41 — the MJCF schema-language parser is total and its checks sound."""
import json
import os
import re
import time
import framework as F

META = {
    "id": "C41", "category": "proof", "design_ref": "DESIGN.md section 4, C41; section 7 item 3",
    "technique": "Coq proof about a hand-written Gallina model of doc/generate/mjcf_schema.py (lexer, recursive-descent "
                 "parser with Python index semantics, _validate with the interpreter's recursion limit as an explicit "
                 "argument) + exact correspondence (outcome class, error line, canonical dump of the Schema) between the model "
                 "evaluated inside Coq and the Python module of the working tree on generated, mutated and random texts",
    "text": "Proved in Coq of the model of HEAD's code, for every text (any list of code points): parse_string returns a schema or raises "
            "SchemaError with a line in 1..(newlines+1) and nothing else - IndexError from reading the token list past its end, KeyError, "
            "the TypeError branches and non-termination of the traversal loops are excluded for all inputs (C41_total, unconditional). "
            "Soundness in full: Ok s => WellFormed s (declarative conjunction of every parse-time and _validate rule, including acyclic "
            "use graph and acyclic child graph through distinct non-alias elements) and all recorded lines lie in the text (C41_sound; "
            "C41_validate_sound for arbitrary schema values); 'a schema breaking a rule is rejected with a SchemaError' "
            "(C41_complete_rule_breaking_rejected). The explicitly recursive variant of the use traversals (code before ff3dbc583) is "
            "kept as parse_string_rec with the frame budget rl as an argument: C41_recursive_variant_total (RecursionError only if "
            "rl < #groups + 2), C41_recursion_refuted_recursive_variant (a valid 1001-group use chain raises RecursionError for every "
            "rl <= 1000 - the defect that was repaired), monotonicity. NOT proved: that every well-formed schema is accepted (only observed "
            "on generated valid schemas). The model is tied to doc/generate/mjcf_schema.py by exact comparison of outcome class, error "
            "line and a dump of the whole Schema (names, types, arities, defaults as binary64 bit patterns, facets, doc comments, line "
            "numbers), not by translation; a tree whose traversals recurse again is detected by the driver's recursion calibration, by "
            "the 1200-group chain and by use chains under a lowered recursion limit.",
    "note": "Trusted: Coq kernel; the hand-written model Model/SchemaLang.v (CPython conventions listed in its header: Unicode "
            "\\d table, int() digit limit 4300, float() = nearest binary64, str.strip() white space, frame accounting of the "
            "recursion limit calibrated by the driver); the correspondence harness (harness/drivers/c41_parse.py under "
            "/venv/bin/python 3.12). Theorems are closed under the global context.",
    "assumptions": [
        "model is tied to the Python source by differential testing on the texts of this run, not by translation",
        "HEAD's traversal loops are modelled by fuel-bounded recursion; the theorems show the fuel is never exhausted",
        "recursive variant only: _check_group_cycle, _group_attrs/expanded_attrs and the SchemaError constructor raised by the former "
        "are charged against the frame budget rl; the non-recursive helpers need < 8 frames",
        "float()/int()/re/str.strip are CPython 3.12 built-ins, modelled by hand and compared on every run",
    ],
}

TYPES = ['double', 'float', 'int', 'bool', 'string', 'file', 'chars', 'enum', 'flags', 'id', 'ref']
KINDS = ['exclusive', 'together', 'requires', 'oneof']
KNOWN_FACETS = ['field', 'required', 'nodefault', 'pattern', 'reading', 'writing', 'min', 'max', 'positive']
ELEMENT_FACETS = ['xml', 'alias', 'field']
IMPORTS = "From Coq Require Import ZArith NArith.\nFrom MJV Require Import Model.SchemaLang."
UNBOUNDED_RL = 100000
PAD = '(TB ""%bt, [0; 3; 7000049000091]%Z)'


def lit(text):
    """Coq literal (type txt) of a python str"""
    if all((32 <= ord(c) < 127 and c != '`') or c in '\n\t' for c in text):
        return '(TB "%s"%%bt)' % text.replace('"', '""')
    esc = ''.join(c if (32 <= ord(c) < 127 and c != '`') or c in '\n\t' else '`%x;' % ord(c) for c in text)
    return '(TE "%s"%%bt)' % esc.replace('"', '""')


# ------------------------------------------------------------------------------------------------
# generator of valid schemas (own AST), renderer, rule-breaking mutators
# ------------------------------------------------------------------------------------------------

IDENTS = ['a', 'b', 'pos', 'quat', 'size', 'name', 'class', 'type', 'x1', '_y', 'Z9', 'geom', 'body', 'R',
          'enum', 'group', 'element', 'variant', 'double', 'exclusive', 'requires', 'true', 'mjNREF', 'e', 'E1']
RESERVED_MEMBER = {'use', 'set', 'child'}


class Gen:
    def __init__(self, rng):
        self.rng = rng

    def ident(self, avoid=()):
        r = self.rng
        for _ in range(50):
            s = r.choice(IDENTS) if r.random() < 0.6 else \
                r.choice('abcxyz_ABZ') + ''.join(r.choice('abc019_Z') for _ in range(r.randrange(0, 6)))
            if s not in avoid:
                return s
        return 'u%d' % r.randrange(10 ** 6)

    def number(self, integer=False, nonneg=False):
        r = self.rng
        if integer:
            return str(r.choice([0, 1, 2, 3, 5, 10, 100]))
        forms = ['0', '1', '-1', '0.5', '.25', '1e-3', '3.', '-0', '1E+2', '0.005', '1e400', '-1e400', '1e-400',
                 '4.9e-324', '2.5e-324', '123456789012345678901234567890', '0.1', '9007199254740993',
                 '1.7976931348623157e308', '1.7976931348623159e308', '2.2250738585072014e-308', '1.e5', '-.5e-2']
        if r.random() < 0.6:
            s = r.choice(forms)
        else:
            s = ''.join(r.choice('0123456789') for _ in range(r.randrange(1, 20)))
            if r.random() < 0.5:
                s += '.' + ''.join(r.choice('0123456789') for _ in range(r.randrange(0, 20)))
            if r.random() < 0.4:
                s += r.choice('eE') + r.choice(['', '+', '-']) + str(r.randrange(0, 340))
            if r.random() < 0.3:
                s = '-' + s
        if nonneg and s.startswith('-'):
            s = s[1:]
        return s

    def string(self):
        r = self.rng
        return ''.join(r.choice('abc xyz[]{}#=:,.09+-<>?!*()\t') for _ in range(r.randrange(0, 8)))

    def facet_val(self):
        r = self.rng
        k = r.randrange(3)
        return [('id', self.ident()), ('str', self.string()), ('num', self.number())][k]

    def attr(self, name, enums, namespaces):
        r = self.rng
        ty = r.choice(['double', 'float', 'int', 'double', 'int', 'bool', 'string', 'file', 'chars', 'enum', 'flags', 'id', 'ref'])
        if ty in ('enum', 'flags') and not enums:
            ty = 'int'
        if ty == 'ref' and not namespaces:
            ty = 'id'
        a = {'name': name, 'type': ty, 'target': None, 'arity': None, 'default': None, 'facets': []}
        lo, hi = 1, 1
        if ty in ('enum', 'flags'):
            a['target'] = r.choice(enums)['name']
        elif ty == 'ref':
            a['target'] = r.choice(namespaces)
        elif ty == 'id':
            a['target'] = self.ident()
        elif ty in ('file', 'bool'):
            if r.random() < 0.2:
                a['arity'] = ('exact', '1')
        elif ty == 'chars':
            k = r.randrange(3)
            if k == 0:
                n = r.randrange(0, 12)
                a['arity'] = ('exact', str(n))
            elif k == 1:
                lo = r.randrange(0, 4)
                a['arity'] = ('range', str(lo), str(lo + r.randrange(1, 9)))
        else:
            k = r.randrange(6)
            if k == 1:
                lo = hi = r.randrange(0, 6)
                a['arity'] = ('exact', str(lo))
            elif k == 2:
                lo, hi = 0, None
                a['arity'] = ('unb',)
            elif k == 3:
                lo = r.randrange(0, 4)
                hi = lo + r.randrange(1, 5)
                a['arity'] = ('range', str(lo), str(hi))
            elif k == 4:
                lo, hi = r.randrange(0, 4), None
                a['arity'] = ('sym', str(lo), self.ident())
        # default
        if r.random() < 0.45:
            if ty == 'enum':
                e = [x for x in enums if x['name'] == a['target']][0]
                key = r.choice(e['items'])[0]
                a['default'] = ('id', key) if re.fullmatch(r'[A-Za-z_][A-Za-z0-9_]*', key) and r.random() < 0.7 else ('str', key)
            elif ty == 'bool':
                v = r.choice(['true', 'false'])
                a['default'] = ('id', v) if r.random() < 0.7 else ('str', v)
            elif ty in ('string', 'file'):
                a['default'] = ('str', self.string()) if r.random() < 0.7 else ('id', self.ident())
            elif ty in ('double', 'float', 'int', 'flags'):
                if (lo, hi) == (1, 1):
                    a['default'] = ('num', self.number())
                else:
                    nmax = hi if hi is not None else lo + 4
                    if nmax >= max(lo, 1):
                        n = r.randrange(max(lo, 1), nmax + 1)
                        if n == 1 and r.random() < 0.5 and lo <= 1:
                            a['default'] = ('num', self.number())
                        else:
                            a['default'] = ('tuple', [self.number() for _ in range(n)])
        # facets
        numeric = ty in ('double', 'float', 'int')
        fs = []
        for k in r.sample(KNOWN_FACETS, r.choice([0, 0, 0, 1, 1, 2, 3])):
            if k == 'required':
                if a['default'] is not None:
                    fs.append((k, r.choice([('str', ''), ('num', '0'), ('num', '-0.0')])))
                else:
                    fs.append((k, r.choice([None, None, ('id', 'yes'), ('num', '1')])))
            elif k == 'pattern':
                if ty in ('string', 'chars'):
                    fs.append((k, ('str', self.string())))
            elif k in ('min', 'max'):
                if numeric:
                    fs.append((k, ('num', self.number()) if r.random() < 0.9 else None))
            elif k == 'positive':
                fs.append((k, None) if numeric else (k, r.choice([('num', '0'), ('str', '')])))
            else:
                fs.append((k, r.choice([None, self.facet_val()])))
        # min <= max
        d = dict(fs)
        if 'min' in d and 'max' in d:
            fv = lambda v: 1.0 if v is None else float(v[1])
            if fv(d['min']) > fv(d['max']):
                fs = [(k, (d['max'] if k == 'min' else d['min']) if k in ('min', 'max') else v) for k, v in fs]
        a['facets'] = fs
        return a

    def schema(self, size=None):
        r = self.rng
        size = size or r.choice([1, 2, 2, 3, 4])
        enums, groups, elements = [], [], []
        used = set()
        for _ in range(r.randrange(0, size + 1)):
            name = self.ident(avoid=used)
            used.add(name)
            items, keys = [], set()
            for _ in range(r.randrange(1, 5)):
                key = r.choice([self.ident(), '2d', 'a b', '', 'x-y']) if r.random() < 0.3 else self.ident()
                if key in keys:
                    continue
                keys.add(key)
                items.append((key, r.choice([self.ident(), self.number()])))
            enums.append({'name': name, 'ctype': self.ident() if r.random() < 0.5 else None, 'items': items})
        # namespaces: decided up front; realised by id attributes
        ns_pool = [self.ident() for _ in range(r.randrange(0, 3))]
        namespaces_declared = []
        counter = [0]

        def fresh():
            counter[0] += 1
            base = self.ident(avoid=RESERVED_MEMBER)
            return base if r.random() < 0.5 and base not in fresh.taken else '%s%d' % (base, counter[0])
        fresh.taken = set()

        def new_attr_name():
            for _ in range(100):
                n = fresh()
                if n not in fresh.taken and n not in RESERVED_MEMBER:
                    fresh.taken.add(n)
                    return n
            raise RuntimeError
        gused = set()
        ng = r.randrange(0, size + 2)
        gnames = []
        for _ in range(ng):
            n = self.ident(avoid=gused)
            gused.add(n)
            gnames.append(n)
        expansion = {}   # group name -> expanded attr names
        # build groups from the last to the first: group i may use groups j > i
        for i in reversed(range(ng)):
            variant = r.random() < 0.3
            members, names = [], []
            for _ in range(r.randrange(1, 5)):
                k = r.random()
                if k < 0.25 and not variant and i + 1 < ng:
                    j = r.randrange(i + 1, ng)
                    members.append(('use', gnames[j]))
                    names += expansion[gnames[j]]
                else:
                    an = new_attr_name()
                    a = self.attr(an, enums, namespaces_declared + ns_pool)
                    if a['type'] == 'id' and ns_pool and r.random() < 0.7:
                        a['target'] = r.choice(ns_pool)
                    if variant:
                        a['facets'] = [(k2, v) for k2, v in a['facets'] if k2 != 'required' or v in (('str', ''), ('num', '0'), ('num', '-0.0'))]
                    members.append(('attr', a))
                    names.append(an)
            direct = [m[1]['name'] for m in members if m[0] == 'attr']
            if len(direct) >= 2 and r.random() < 0.3:
                members.append(self.constraint(direct, in_group=True))
            if not any(m[0] == 'attr' for m in members) and not any(m[0] == 'use' for m in members):
                members.append(('attr', self.attr(new_attr_name(), enums, [])))
            expansion[gnames[i]] = names
            groups.insert(0, {'name': gnames[i], 'variant': variant, 'members': members})
        eused = set()
        ne = r.randrange(1, size + 2)
        enames = []
        for _ in range(ne):
            n = self.ident(avoid=eused)
            eused.add(n)
            enames.append(n)
        efacets = []
        for i in range(ne):
            fs = []
            for k in r.sample(ELEMENT_FACETS, r.choice([0, 0, 1, 2])):
                if k == 'xml':
                    fs.append((k, r.choice([('id', self.ident()), ('str', self.string())])))
                elif k == 'alias':
                    fs.append((k, ('id', r.choice(enames))))
                else:
                    fs.append((k, r.choice([None, self.facet_val()])))
            efacets.append(fs)
        has_alias = [any(k == 'alias' for k, _ in fs) for fs in efacets]
        for i in range(ne):
            members, names = [], []
            children = set()
            for _ in range(r.randrange(0, 6)):
                k = r.random()
                if k < 0.2 and groups:
                    g = r.choice(gnames)
                    ex = expansion[g]
                    if len(set(ex)) == len(ex) and not (set(ex) & set(names)):
                        members.append(('use', g))
                        names += ex
                elif k < 0.35:
                    # the child graph (without self loops and edges into alias elements) must be acyclic
                    j = r.randrange(ne)
                    if j < i and not has_alias[j]:
                        j = i
                    c = enames[j]
                    if c not in children:
                        children.add(c)
                        members.append(('child', c, r.choice('?!*R')))
                elif k < 0.42:
                    members.append(('set', self.ident(), self.ident()))
                else:
                    an = new_attr_name()
                    a = self.attr(an, enums, namespaces_declared + ns_pool)
                    if a['type'] == 'id' and ns_pool and r.random() < 0.7:
                        a['target'] = r.choice(ns_pool)
                    members.append(('attr', a))
                    names.append(an)
            if len(names) >= 2 and r.random() < 0.4:
                members.insert(r.randrange(0, len(members) + 1), self.constraint(names, in_group=False))
            fs = efacets[i]
            elements.append({'name': enames[i], 'spec': self.ident() if r.random() < 0.5 else None, 'facets': fs,
                             'members': members})
        # make sure every referenced namespace is declared by some id attribute
        declared = set()
        refs = set()
        for c in groups + elements:
            for m in c['members']:
                if m[0] == 'attr' and m[1]['type'] == 'id':
                    declared.add(m[1]['target'])
                if m[0] == 'attr' and m[1]['type'] == 'ref':
                    refs.add(m[1]['target'])
        for ns in sorted(refs - declared):
            a = {'name': new_attr_name(), 'type': 'id', 'target': ns, 'arity': None, 'default': None, 'facets': []}
            elements[r.randrange(len(elements))]['members'].append(('attr', a))
        decls = [('enum', e) for e in enums] + [('group', g) for g in groups] + [('element', e) for e in elements]
        r.shuffle(decls)
        return {'decls': decls}

    def constraint(self, names, in_group):
        r = self.rng
        kind = r.choice(KINDS)
        if kind == 'requires' and not in_group:
            a, b = r.sample(names, 2) if len(names) >= 2 else (names[0], names[0])
            return ('con', kind, [[a], [b]])
        nb = r.randrange(2, 4)
        bundles = [[r.choice(names) for _ in range(r.choice([1, 1, 2, 3]))] for _ in range(nb)]
        return ('con', kind, bundles)


def render(sch, rng, style=True):
    """text of a generator AST.  style: random layout/comments, otherwise one canonical layout"""
    out = []

    def sp(must=False):
        if not style:
            return ' '
        k = rng.random()
        if k < 0.7:
            return ' '
        if k < 0.85:
            return '' if not must else '\t'
        return rng.choice(['  ', '\t', ' \t '])

    def cmt():
        if not style or rng.random() < 0.6:
            return ''
        body = ''.join(rng.choice('abc xyz#"{}=:.09\t') for _ in range(rng.randrange(0, 12)))
        if rng.random() < 0.1:
            body = rng.choice(['\x0b', '\x0c', '\r', '\x1c', '\x85', '\xa0', ' ', '　', 'é', '٣']) + body + rng.choice(['\r', '\x1f', '', 'ü'])
        return sp() + '#' + body

    def nl():
        return cmt() + ('\n' if not style or rng.random() < 0.9 else '\n\n' + sp() + '\n')

    def val(v):
        kind, s = v
        return '"%s"' % s if kind == 'str' else s

    def facets(fs):
        parts = []
        for k, v in fs:
            parts.append(k if v is None else k + sp() + '=' + sp() + val(v))
        return '(' + sp() + (sp() + ',' + sp()).join(parts) + sp() + ')'

    def arity(a):
        if a is None:
            return ''
        if a[0] == 'exact':
            return '[' + sp() + a[1] + sp() + ']'
        if a[0] == 'unb':
            return '[' + sp() + ']'
        return '[' + sp() + a[1] + rng.choice(['', ' ']) * (1 if style else 0) + '..' + sp() + a[2] + sp() + ']'

    def member(m):
        k = m[0]
        if k == 'use':
            return 'use' + sp(True) + m[1]
        if k == 'child':
            return 'child' + sp(True) + m[1] + sp(True) + m[2]
        if k == 'set':
            return 'set' + sp(True) + m[1] + sp() + '=' + sp() + m[2]
        if k == 'con':
            return m[1] + ' ' + ' '.join((sp() + '+' + sp()).join(b) for b in m[2])
        if k == 'raw':
            return m[1]
        a = m[1]
        s = a['name'] + sp() + ':' + sp() + a['type']
        if a['type'] in ('enum', 'flags', 'id', 'ref') or a.get('target') is not None:
            s += sp() + '<' + sp() + str(a['target']) + sp() + '>'
        s += arity(a['arity'])
        if a['default'] is not None:
            d = a['default']
            s += sp() + '=' + sp()
            if d[0] == 'tuple':
                s += '{' + sp() + (sp() + ',' + sp()).join(d[1]) + sp() + '}'
            else:
                s += val(d)
        if a['facets']:
            s += sp() + facets(a['facets'])
        return s

    def body(members):
        s = '{' + nl()
        for m in members:
            s += ('  ' if not style else rng.choice(['', ' ', '  ', '\t'])) + member(m)
            # a constraint swallows identifiers on its own line: always break the line after it
            if m[0] == 'con' or not style or rng.random() < 0.92:
                s += nl()
            else:
                s += ' '
        return s + '}' + nl()

    for kind, d in sch['decls']:
        if kind == 'enum':
            s = 'enum' + sp(True) + d['name']
            if d['ctype'] is not None:
                s += sp() + ':' + sp() + d['ctype']
            s += sp() + '{' + nl()
            for key, v in d['items']:
                k = key if re.fullmatch(r'[A-Za-z_][A-Za-z0-9_]*', key) and (not style or rng.random() < 0.8) else '"%s"' % key
                s += '  ' + k + sp() + '=' + sp() + v + (nl() if not style or rng.random() < 0.8 else ' ')
            s += '}' + nl()
        elif kind == 'group':
            s = 'group' + sp(True) + d['name'] + (sp(True) + 'variant' if d['variant'] else '') + sp() + body(d['members'])
        elif kind == 'raw':
            s = d
        else:
            s = 'element' + sp(True) + d['name']
            if d['spec'] is not None:
                s += sp() + ':' + sp() + d['spec']
            if d['facets']:
                s += sp() + facets(d['facets'])
            s += sp() + body(d['members'])
        out.append(s)
    return ''.join(out)


def containers(sch):
    return [d for k, d in sch['decls'] if k in ('group', 'element')]


def attrs_of(sch):
    return [(c, m[1]) for c in containers(sch) for m in c['members'] if m[0] == 'attr']


def mk_attr(name, ty, **kw):
    a = {'name': name, 'type': ty, 'target': None, 'arity': None, 'default': None, 'facets': []}
    a.update(kw)
    return a


def mutators():
    """rule-breaking mutations: each takes (schema AST, rng), modifies it in place so that exactly the named
    rule is broken (possibly adding the declarations it needs), returns False when not applicable."""
    M = []

    def reg(name):
        def deco(f):
            M.append((name, f))
            return f
        return deco

    def pick(sch, kind, rng):
        c = [d for k, d in sch['decls'] if k == kind]
        return rng.choice(c) if c else None

    def add_element(sch, rng, members=None, **kw):
        names = {d['name'] for k, d in sch['decls'] if k == 'element'}
        n = 'zz_el%d' % len(names)
        e = {'name': n, 'spec': None, 'facets': [], 'members': members or []}
        e.update(kw)
        sch['decls'].insert(rng.randrange(len(sch['decls']) + 1), ('element', e))
        return e

    def add_group(sch, rng, members, variant=False, name=None):
        names = {d['name'] for k, d in sch['decls'] if k == 'group'}
        g = {'name': name or 'zz_gr%d' % len(names), 'variant': variant, 'members': members}
        sch['decls'].insert(rng.randrange(len(sch['decls']) + 1), ('group', g))
        return g

    def add_enum(sch, rng, items=None):
        names = {d['name'] for k, d in sch['decls'] if k == 'enum'}
        e = {'name': 'zz_en%d' % len(names), 'ctype': None, 'items': items if items is not None else [('k0', 'V0'), ('k1', '1')]}
        sch['decls'].insert(rng.randrange(len(sch['decls']) + 1), ('enum', e))
        return e

    def new_attr_in_element(sch, rng, a):
        e = pick(sch, 'element', rng) if rng.random() < 0.5 else None
        if e is None:
            e = add_element(sch, rng)
        e['members'].insert(rng.randrange(len(e['members']) + 1), ('attr', a))
        return e

    def new_attr_anywhere(sch, rng, a):
        if rng.random() < 0.4:
            g = pick(sch, 'group', rng)
            if g is not None and not g['variant']:
                g['members'].insert(rng.randrange(len(g['members']) + 1), ('attr', a))
                return g
        return new_attr_in_element(sch, rng, a)

    @reg('duplicate_declaration')
    def _(sch, rng):
        kind = rng.choice(['enum', 'group', 'element'])
        d = pick(sch, kind, rng)
        if d is None:
            return False
        copy = json.loads(json.dumps(d))
        if kind == 'enum':
            copy['items'] = [tuple(x) for x in copy['items']]
        else:
            copy['members'] = [('raw', 'zq%d : int' % i) for i in range(1)]
        sch['decls'].insert(rng.randrange(len(sch['decls']) + 1), (kind, copy))

    @reg('empty_enum')
    def _(sch, rng):
        add_enum(sch, rng, items=[])

    @reg('empty_group')
    def _(sch, rng):
        add_group(sch, rng, [], variant=rng.random() < 0.3)

    @reg('duplicate_enum_keyword')
    def _(sch, rng):
        e = pick(sch, 'enum', rng) or add_enum(sch, rng)
        k = rng.choice(e['items'])
        e['items'].insert(rng.randrange(len(e['items']) + 1), (k[0], 'other'))

    @reg('unknown_facet')
    def _(sch, rng):
        if rng.random() < 0.5:
            new_attr_anywhere(sch, rng, mk_attr('zfa', 'int', facets=[(rng.choice(['frob', 'xml', 'alias', 'Required']), None)]))
        else:
            add_element(sch, rng, facets=[(rng.choice(['required', 'min', 'frob']), None)])

    @reg('duplicate_facet')
    def _(sch, rng):
        if rng.random() < 0.5:
            new_attr_anywhere(sch, rng, mk_attr('zfb', 'int', facets=[('nodefault', None), ('field', ('id', 'q')), ('nodefault', None)]))
        else:
            add_element(sch, rng, facets=[('field', ('id', 'q')), ('field', ('id', 'q'))])

    @reg('unknown_type')
    def _(sch, rng):
        new_attr_anywhere(sch, rng, mk_attr('zty', rng.choice(['long', 'Double', 'str', 'vector'])))

    @reg('arity_negative')
    def _(sch, rng):
        new_attr_anywhere(sch, rng, mk_attr('zar', 'double', arity=rng.choice([('exact', '-1'), ('range', '-2', '3')])))

    @reg('arity_not_integer')
    def _(sch, rng):
        new_attr_anywhere(sch, rng, mk_attr('zar', 'double', arity=rng.choice([('exact', '1.0'), ('exact', '1e1'), ('range', '1', '2.'),
                                                                                 ('range', '.5', '3'), ('exact', '1' * 4301)])))

    @reg('arity_range_not_increasing')
    def _(sch, rng):
        lo = rng.randrange(0, 5)
        new_attr_anywhere(sch, rng, mk_attr('zar', rng.choice(['double', 'int', 'string', 'chars']), arity=('range', str(lo), str(rng.randrange(0, lo + 1)))))

    @reg('dangling_use')
    def _(sch, rng):
        c = rng.choice(containers(sch))
        if c.get('variant'):
            return False
        c['members'].insert(rng.randrange(len(c['members']) + 1), ('use', 'zz_nosuch'))

    @reg('use_cycle')
    def _(sch, rng):
        n = rng.randrange(1, 5)
        names = ['zz_cy%d' % i for i in range(n)]
        for i in range(n):
            ms = [('attr', mk_attr('zc%d' % i, 'int'))] if rng.random() < 0.5 else []
            ms.insert(rng.randrange(len(ms) + 1), ('use', names[(i + 1) % n]))
            add_group(sch, rng, ms, name=names[i])

    @reg('group_constraint_unknown_attr')
    def _(sch, rng):
        inner = add_group(sch, rng, [('attr', mk_attr('zin', 'int'))])
        add_group(sch, rng, [('attr', mk_attr('zou', 'int')), ('use', inner['name']),
                             ('con', rng.choice(KINDS), [['zou'], [rng.choice(['zin', 'nosuch'])]])])

    @reg('variant_with_use')
    def _(sch, rng):
        inner = add_group(sch, rng, [('attr', mk_attr('zin', 'int'))])
        add_group(sch, rng, [('attr', mk_attr('zou', 'int')), ('use', inner['name'])], variant=True)

    @reg('variant_with_required')
    def _(sch, rng):
        add_group(sch, rng, [('attr', mk_attr('zou', 'int')),
                             ('attr', mk_attr('zrq', 'int', facets=[('required', rng.choice([None, ('id', 'x'), ('num', '2'), ('str', 'y')]))]))],
                  variant=True)

    @reg('element_facet_needs_name')
    def _(sch, rng):
        e = pick(sch, 'element', rng)
        add_element(sch, rng, facets=[(rng.choice(['xml', 'alias']), rng.choice([None, ('num', '1')]))])

    @reg('dangling_alias')
    def _(sch, rng):
        add_element(sch, rng, facets=[('alias', rng.choice([('id', 'zz_nosuch'), ('str', 'zz no')]))])

    @reg('dangling_child')
    def _(sch, rng):
        e = pick(sch, 'element', rng)
        e['members'].insert(rng.randrange(len(e['members']) + 1), ('child', 'zz_nosuch', rng.choice('?!*R')))

    @reg('duplicate_child')
    def _(sch, rng):
        e = pick(sch, 'element', rng)
        t = pick(sch, 'element', rng)
        e['members'] = [m for m in e['members'] if not (m[0] == 'child' and m[1] == t['name'])]
        for _ in range(2):
            e['members'].insert(rng.randrange(len(e['members']) + 1), ('child', t['name'], rng.choice('?!*R')))

    @reg('child_cycle')
    def _(sch, rng):
        n = rng.randrange(2, 5)
        base = len([1 for k, d in sch['decls'] if k == 'element'])
        names = ['zz_el%d' % (base + i) for i in range(n)]
        for i in range(n):
            ms = [('child', names[(i + 1) % n], rng.choice('?!*R'))]
            if rng.random() < 0.5:
                ms.insert(rng.randrange(2), ('child', names[i], 'R'))          # self loop: allowed
            if rng.random() < 0.3:
                ms.insert(rng.randrange(len(ms) + 1), ('attr', mk_attr('zcc%d' % i, 'int')))
            add_element(sch, rng, members=ms)

    @reg('duplicate_attr_direct')
    def _(sch, rng):
        e = add_element(sch, rng, members=[('attr', mk_attr('zda', 'int')), ('attr', mk_attr('zdb', 'double'))])
        e['members'].insert(rng.randrange(3), ('attr', mk_attr(rng.choice(['zda', 'zdb']), 'string')))

    @reg('duplicate_attr_via_use')
    def _(sch, rng):
        g2 = add_group(sch, rng, [('attr', mk_attr('zda', 'int'))])
        g1 = add_group(sch, rng, [('attr', mk_attr('zdb', 'int')), ('use', g2['name'])])
        k = rng.randrange(3)
        if k == 0:
            ms = [('use', g1['name']), ('attr', mk_attr('zda', 'double'))]
        elif k == 1:
            ms = [('use', g1['name']), ('use', g2['name'])]
        else:
            ms = [('use', g2['name']), ('attr', mk_attr('zdc', 'double')), ('use', g2['name'])]
        if rng.random() < 0.5:
            ms.reverse()
        add_element(sch, rng, members=ms)

    @reg('element_constraint_unknown_attr')
    def _(sch, rng):
        add_element(sch, rng, members=[('attr', mk_attr('zca', 'int')), ('con', rng.choice(KINDS), [['zca'], ['zz_nosuch']])])

    @reg('requires_arity')
    def _(sch, rng):
        bundles = rng.choice([[['zca'], ['zcb'], ['zcc']], [['zca'], ['zcb', 'zcc']], [['zca', 'zcb'], ['zcc']]])
        add_element(sch, rng, members=[('attr', mk_attr(n, 'int')) for n in ('zca', 'zcb', 'zcc')] + [('con', 'requires', bundles)])

    @reg('constraint_needs_two')
    def _(sch, rng):
        add_element(sch, rng, members=[('attr', mk_attr(n, 'int')) for n in ('zca', 'zcb')] +
                    [('con', rng.choice(KINDS), [rng.choice([['zca'], ['zca', 'zcb']])])])

    @reg('dangling_enum')
    def _(sch, rng):
        new_attr_anywhere(sch, rng, mk_attr('zde', rng.choice(['enum', 'flags']), target='zz_nosuch'))

    @reg('dangling_ref')
    def _(sch, rng):
        new_attr_anywhere(sch, rng, mk_attr('zdr', 'ref', target='zz_nosuch'))

    @reg('file_bool_vector')
    def _(sch, rng):
        new_attr_anywhere(sch, rng, mk_attr('zfv', rng.choice(['file', 'bool']),
                                            arity=rng.choice([('exact', '2'), ('exact', '0'), ('unb',), ('range', '1', '2'), ('sym', '1', 'N')])))

    @reg('chars_unbounded')
    def _(sch, rng):
        new_attr_anywhere(sch, rng, mk_attr('zcu', 'chars', arity=rng.choice([('unb',), ('sym', '1', 'mjN')])))

    @reg('pattern_on_non_text')
    def _(sch, rng):
        new_attr_anywhere(sch, rng, mk_attr('zpn', rng.choice(['int', 'double', 'bool', 'file', 'id']), target='zz_ns',
                                            facets=[('pattern', rng.choice([('str', 'x'), None]))]))

    @reg('minmax_non_numeric')
    def _(sch, rng):
        if rng.random() < 0.5:
            a = mk_attr('zmm', rng.choice(['string', 'bool', 'file', 'chars', 'id']), target='zz_ns', facets=[(rng.choice(['min', 'max']), ('num', '0'))])
        else:
            a = mk_attr('zmm', rng.choice(['int', 'double', 'float']), facets=[(rng.choice(['min', 'max']), rng.choice([('id', 'x'), ('str', '0')]))])
        if a['type'] != 'id':
            a['target'] = None
        new_attr_anywhere(sch, rng, a)

    @reg('min_greater_than_max')
    def _(sch, rng):
        lo, hi = rng.choice([('10', '5'), ('0.1000000000000001', '0.1'), ('1e400', '1.7976931348623157e308'), ('-0.5', '-1'),
                             ('4.9e-324', '2.4e-324'), ('9007199254740994', '9007199254740993')])
        fs = [('min', ('num', lo)), ('max', ('num', hi))]
        if rng.random() < 0.2:
            fs = [('min', None), ('max', ('num', '0.5'))]
        if rng.random() < 0.5:
            fs.reverse()
        new_attr_anywhere(sch, rng, mk_attr('zgt', 'double', facets=fs))

    @reg('positive_non_numeric')
    def _(sch, rng):
        new_attr_anywhere(sch, rng, mk_attr('zpo', rng.choice(['string', 'bool', 'file']), facets=[('positive', rng.choice([None, ('num', '1'), ('id', 'y')]))]))

    @reg('required_with_default')
    def _(sch, rng):
        new_attr_in_element(sch, rng, mk_attr('zrd', 'int', default=('num', '1'), facets=[('required', rng.choice([None, ('num', '1e-300'), ('id', 'n')]))]))

    @reg('enum_default_not_keyword')
    def _(sch, rng):
        e = add_enum(sch, rng)
        new_attr_anywhere(sch, rng, mk_attr('zed', 'enum', target=e['name'], default=rng.choice([('id', 'k2'), ('str', 'K0'), ('num', '1'), ('tuple', ['1'])])))

    @reg('default_on_ref_id_chars')
    def _(sch, rng):
        ty = rng.choice(['ref', 'id', 'chars'])
        a = mk_attr('zdf', ty, target='zz_ns2' if ty != 'chars' else None, default=rng.choice([('id', 'x'), ('str', 'x'), ('num', '1')]))
        if ty == 'ref':
            new_attr_in_element(sch, rng, mk_attr('zdfid', 'id', target='zz_ns2'))
        if ty == 'chars':
            a['arity'] = ('exact', '3')
        new_attr_anywhere(sch, rng, a)

    @reg('bool_default')
    def _(sch, rng):
        new_attr_anywhere(sch, rng, mk_attr('zbd', 'bool', default=rng.choice([('id', 'maybe'), ('id', 'True'), ('num', '1'), ('str', 'yes'), ('tuple', ['1'])])))

    @reg('string_default_not_string')
    def _(sch, rng):
        new_attr_anywhere(sch, rng, mk_attr('zsd', rng.choice(['string', 'file']), default=rng.choice([('num', '1'), ('tuple', ['1', '2'])])))

    @reg('numeric_default_not_numeric')
    def _(sch, rng):
        e = add_enum(sch, rng)
        ty = rng.choice(['int', 'double', 'float', 'flags'])
        new_attr_anywhere(sch, rng, mk_attr('znd', ty, target=e['name'] if ty == 'flags' else None, default=rng.choice([('id', 'k0'), ('str', '1')])))

    @reg('vector_default_on_scalar')
    def _(sch, rng):
        new_attr_anywhere(sch, rng, mk_attr('zvs', rng.choice(['int', 'double']), arity=rng.choice([None, ('exact', '1')]),
                                            default=('tuple', rng.choice([['1'], ['1', '2']]))))

    @reg('default_too_short')
    def _(sch, rng):
        lo = rng.randrange(2, 5)
        ar = rng.choice([('exact', str(lo)), ('range', str(lo), str(lo + 2)), ('sym', str(lo), 'mjN')])
        n = rng.randrange(1, lo)
        new_attr_anywhere(sch, rng, mk_attr('zts', 'double', arity=ar, default=('tuple', ['1'] * n) if n > 1 or rng.random() < 0.5 else ('num', '1')))

    @reg('default_too_long')
    def _(sch, rng):
        lo = rng.randrange(0, 3)
        hi = lo + rng.randrange(0, 3)
        ar = ('exact', str(hi)) if lo == hi else ('range', str(lo), str(hi))
        n = hi + rng.randrange(1, 3)
        new_attr_anywhere(sch, rng, mk_attr('ztl', 'double', arity=ar, default=('tuple', ['1'] * n) if n > 1 or rng.random() < 0.5 else ('num', '1')))

    @reg('set_or_child_in_group')
    def _(sch, rng):
        add_group(sch, rng, [('attr', mk_attr('zsg', 'int')), rng.choice([('set', 'type', 'mjX'), ('child', 'zsg', '*')])])

    @reg('bad_cardinality')
    def _(sch, rng):
        e = pick(sch, 'element', rng)
        e['members'].append(('child', e['name'], rng.choice(['+', 'r', '1', '"*"', '', '{'])))

    return M


# ------------------------------------------------------------------------------------------------
# decoding of the dump and the independent well-formedness oracle on implementation output
# ------------------------------------------------------------------------------------------------

class Rd:
    def __init__(self, xs):
        self.xs, self.i = xs, 0

    def n(self):
        v = self.xs[self.i]
        self.i += 1
        return v

    def s(self):
        k = self.n()
        v = ''.join(chr(c) for c in self.xs[self.i:self.i + k])
        self.i += k
        return v

    def os(self):
        return self.s() if self.n() == 1 else None

    def fl(self):
        k = self.n()
        if k == 3:
            sg, m, e = self.n(), self.n(), self.n()
            return ('fin', sg, m, e)
        return (('zero', 'inf', 'nan')[k], self.n())

    def lst(self, f):
        return [f() for _ in range(self.n())]

    def facets(self):
        def one():
            k = self.s()
            t = self.n()
            return (k, True if t == 0 else (self.s() if t == 1 else self.fl()))
        return self.lst(one)

    def member(self):
        t = self.n()
        if t == 1:
            a = {'k': 'attr', 'name': self.s(), 'type': TYPES[self.n()], 'target': self.os()}
            lo = self.n()
            h = self.n()
            a['lo'], a['hi'] = lo, (None if h == 0 else (self.n() if h == 1 else self.s()))
            d = self.n()
            a['default'] = None if d == 0 else (self.fl() if d == 1 else (self.s() if d == 2 else self.lst(self.fl)))
            a['dkind'] = d
            a['facets'] = self.facets()
            a['doc'], a['line'] = self.os(), self.n()
            return a
        if t == 2:
            return {'k': 'use', 'group': self.s(), 'line': self.n()}
        if t == 3:
            return {'k': 'child', 'name': self.s(), 'card': self.s(), 'doc': self.os(), 'line': self.n()}
        if t == 4:
            return {'k': 'const', 'field': self.s(), 'value': self.s(), 'doc': self.os(), 'line': self.n()}
        if t == 5:
            return {'k': 'con', 'kind': KINDS[self.n()], 'bundles': self.lst(lambda: self.lst(self.s)), 'doc': self.os(), 'line': self.n()}
        raise ValueError("member tag %r" % t)

    def schema(self):
        enums = self.lst(lambda: {'name': self.s(), 'ctype': self.os(), 'items': self.lst(lambda: (self.s(), self.s())),
                                  'doc': self.os(), 'line': self.n()})
        groups = self.lst(lambda: {'name': self.s(), 'variant': self.n() == 1, 'members': self.lst(self.member),
                                   'doc': self.os(), 'line': self.n()})
        elements = self.lst(lambda: {'name': self.s(), 'spec': self.os(), 'facets': self.facets(), 'members': self.lst(self.member),
                                     'doc': self.os(), 'line': self.n()})
        if self.i != len(self.xs):
            raise ValueError("trailing data in dump")
        return {'enums': enums, 'groups': groups, 'elements': elements}


def fl_value(f):
    """exact Fraction/inf of a decoded float"""
    from fractions import Fraction
    if f[0] == 'fin':
        v = Fraction(f[2]) * (Fraction(2) ** f[3])
        return -v if f[1] else v
    if f[0] == 'zero':
        return Fraction(0)
    if f[0] == 'inf':
        return float('-inf') if f[1] else float('inf')
    return None


def truthy(v):
    if v is True:
        return True
    if isinstance(v, str):
        return v != ''
    return v[0] != 'zero'


def wellformed(s, nlines):
    """documented rules of the schema language, stated on the returned Schema; returns the list of broken rules"""
    bad = []
    for tab in ('enums', 'groups', 'elements'):
        names = [d['name'] for d in s[tab]]
        if len(set(names)) != len(names):
            bad.append('unique declarations (%s)' % tab)
    G = {g['name']: g for g in s['groups']}
    E = {e['name']: e for e in s['elements']}
    EN = {e['name']: e for e in s['enums']}
    for e in s['enums']:
        if not e['items']:
            bad.append('enum not empty')
        ks = [k for k, _ in e['items']]
        if len(set(ks)) != len(ks):
            bad.append('unique enum keywords')
    conts = s['groups'] + s['elements']
    lines = [d['line'] for d in s['enums'] + conts] + [m['line'] for c in conts for m in c['members']]
    if any(not (1 <= l <= nlines + 1) for l in lines):
        bad.append('recorded line numbers lie within the text')
    # use graph
    for c in conts:
        for m in c['members']:
            if m['k'] == 'use' and m['group'] not in G:
                bad.append('no dangling use')
    # iterative three-colour depth-first search (texts with very deep use chains are part of the input space)
    color = {}
    cyclic = False
    for root in G:
        if color.get(root, 0) or cyclic:
            continue
        color[root] = 1
        work = [(root, iter([m['group'] for m in G[root]['members'] if m['k'] == 'use' and m['group'] in G]))]
        while work and not cyclic:
            node, it = work[-1]
            nxt = next(it, None)
            if nxt is None:
                color[node] = 2
                work.pop()
            elif color.get(nxt, 0) == 1:
                cyclic = True
            elif color.get(nxt, 0) == 0:
                color[nxt] = 1
                work.append((nxt, iter([m['group'] for m in G[nxt]['members'] if m['k'] == 'use' and m['group'] in G])))
    if cyclic:
        bad.append('acyclic use graph')
    namespaces = {m['target'] for c in conts for m in c['members'] if m['k'] == 'attr' and m['type'] == 'id'}

    memo = {}

    def group_expansion(name):
        """expanded attributes of a group (use graph is acyclic here), bottom-up without recursion"""
        order, seen, work = [], set(), [name]
        while work:
            n = work.pop()
            if n in seen or n in memo:
                continue
            seen.add(n)
            order.append(n)
            work += [m['group'] for m in G[n]['members'] if m['k'] == 'use' and m['group'] in G]
        # dependencies first: repeat until every group of the closure is resolved (acyclic => terminates)
        pending = list(reversed(order))
        while pending:
            rest = []
            for n in pending:
                deps = [m['group'] for m in G[n]['members'] if m['k'] == 'use' and m['group'] in G]
                if all(d in memo for d in deps):
                    out = []
                    for m in G[n]['members']:
                        if m['k'] == 'attr':
                            out.append(m)
                        elif m['k'] == 'use' and m['group'] in G:
                            out += memo[m['group']]
                    memo[n] = out
                else:
                    rest.append(n)
            if len(rest) == len(pending):
                break
            pending = rest
        return memo.get(name, [])

    def expand(members):
        out = []
        for m in members:
            if m['k'] == 'attr':
                out.append(m)
            elif m['k'] == 'use' and m['group'] in G:
                out += group_expansion(m['group'])
        return out
    for g in s['groups']:
        if not g['members']:
            bad.append('group not empty')
        direct = {m['name'] for m in g['members'] if m['k'] == 'attr'}
        for m in g['members']:
            if m['k'] == 'con' and any(n not in direct for b in m['bundles'] for n in b):
                bad.append('group constraint names its own attributes')
            if m['k'] in ('child', 'const'):
                bad.append('no child/set in a group')
            if g['variant'] and m['k'] == 'use':
                bad.append('variant group without use')
            if g['variant'] and m['k'] == 'attr' and truthy(dict(m['facets']).get('required', ('zero', 0))):
                bad.append('variant group without required')
    for e in s['elements']:
        f = dict(e['facets'])
        if len(f) != len(e['facets']) or any(k not in ELEMENT_FACETS for k in f):
            bad.append('element facets known and unique')
        for k in ('xml', 'alias'):
            if k in f and not isinstance(f[k], str):
                bad.append('element facet %s is a name' % k)
        if isinstance(f.get('alias'), str) and f['alias'] not in E:
            bad.append('no dangling alias')
        ch = [m['name'] for m in e['members'] if m['k'] == 'child']
        if any(c not in E for c in ch):
            bad.append('no dangling child')
        if len(set(ch)) != len(ch):
            bad.append('unique children')
        if any(m['card'] not in ('?', '!', '*', 'R') for m in e['members'] if m['k'] == 'child'):
            bad.append('cardinality')
        if not cyclic:
            names = [a['name'] for a in expand(e['members'])]
            if len(set(names)) != len(names):
                bad.append('no duplicate attribute after group expansion')
            for m in e['members']:
                if m['k'] == 'con':
                    if any(n not in names for b in m['bundles'] for n in b):
                        bad.append('element constraint names its attributes')
                    if m['kind'] == 'requires' and [len(b) for b in m['bundles']] != [1, 1]:
                        bad.append('requires takes two attributes')
    # child graph without self loops and edges into alias elements: acyclic
    def cedges(e):
        return [m['name'] for m in e['members'] if m['k'] == 'child' and m['name'] != e['name'] and m['name'] in E
                and 'alias' not in dict(E[m['name']]['facets'])]
    ccol = {}
    ccyc = False
    for root in E:
        if ccol.get(root, 0) or ccyc:
            continue
        ccol[root] = 1
        work = [(root, iter(cedges(E[root])))]
        while work and not ccyc:
            node, it = work[-1]
            nxt = next(it, None)
            if nxt is None:
                ccol[node] = 2
                work.pop()
            elif ccol.get(nxt, 0) == 1:
                ccyc = True
            elif ccol.get(nxt, 0) == 0:
                ccol[nxt] = 1
                work.append((nxt, iter(cedges(E[nxt]))))
    if ccyc:
        bad.append('acyclic child graph')
    for c in conts:
        for m in c['members']:
            if m['k'] == 'con' and len(m['bundles']) < 2:
                bad.append('constraint has two bundles')
            if m['k'] != 'attr':
                continue
            a = m
            f = dict(a['facets'])
            ty = a['type']
            if len(f) != len(a['facets']) or any(k not in KNOWN_FACETS for k in f):
                bad.append('attribute facets known and unique')
            if (a['target'] is not None) != (ty in ('enum', 'flags', 'id', 'ref')):
                bad.append('target iff enum/flags/id/ref')
            if ty in ('enum', 'flags') and a['target'] not in EN:
                bad.append('no dangling enum')
            if ty == 'ref' and a['target'] not in namespaces:
                bad.append('no dangling ref')
            lo, hi = a['lo'], a['hi']
            if lo < 0 or (isinstance(hi, int) and hi < lo):
                bad.append('well-formed arity')
            scalar = (lo == 1 and hi == 1)
            if ty in ('file', 'bool') and not scalar:
                bad.append('file/bool scalar')
            if ty == 'chars' and not isinstance(hi, int):
                bad.append('chars bounded')
            if 'pattern' in f and ty not in ('string', 'chars'):
                bad.append('pattern on text')
            numeric = ty in ('double', 'float', 'int')
            for k in ('min', 'max'):
                if k in f and (not numeric or isinstance(f[k], str)):
                    bad.append('min/max numeric')
            if 'min' in f and 'max' in f and not isinstance(f['min'], str) and not isinstance(f['max'], str):
                fv = lambda v: 1 if v is True else fl_value(v)
                if fv(f['min']) > fv(f['max']):
                    bad.append('min <= max')
            if truthy(f.get('positive', ('zero', 0))) and not numeric:
                bad.append('positive numeric')
            d, dk = a['default'], a['dkind']
            if truthy(f.get('required', ('zero', 0))) and dk != 0:
                bad.append('required without default')
            if dk != 0:
                if ty == 'enum':
                    if dk != 2 or a['target'] not in EN or d not in [k for k, _ in EN[a['target']]['items']]:
                        bad.append('enum default is a keyword')
                elif ty in ('ref', 'id', 'chars'):
                    bad.append('no default on ref/id/chars')
                elif ty == 'bool':
                    if dk != 2 or d not in ('true', 'false'):
                        bad.append('bool default')
                elif ty in ('string', 'file'):
                    if dk != 2:
                        bad.append('string default')
                else:
                    if dk == 2:
                        bad.append('numeric default')
                    else:
                        n = len(d) if dk == 3 else 1
                        if (dk == 3 and scalar) or n < lo or (isinstance(hi, int) and n > hi):
                            bad.append('default consistent with arity')
    return bad


# ------------------------------------------------------------------------------------------------
# other input families
# ------------------------------------------------------------------------------------------------

TOKEN_RE = re.compile(r'[ \t]+|\#[^\n]*|\n|"[^"\n]*"|-?(?:\d+(?:\.(?!\.)\d*)?|\.\d+)(?:[eE][+-]?\d+)?|\.\.|[A-Za-z_][A-Za-z0-9_]*|.', re.S)
VOCAB = ['enum', 'group', 'element', 'variant', 'use', 'set', 'child', 'exclusive', 'together', 'requires', 'oneof',
         'double', 'float', 'int', 'bool', 'string', 'file', 'chars', 'flags', 'id', 'ref', 'R', 'a', 'b', 'g', 'x',
         'field', 'required', 'nodefault', 'pattern', 'reading', 'writing', 'min', 'max', 'positive', 'xml', 'alias',
         'true', 'false', '{', '}', '(', ')', '[', ']', '<', '>', ':', '=', ',', '?', '!', '*', '+', '..', '"s"', '""',
         '0', '1', '2', '3', '-1', '0.5', '1e3', '.5', '1.', '\n', '\n', '#c\n']
ODD_CHARS = ['"', '#', '\n', '.', '-', '+', 'e', 'E', '0', '9', '٣', '\r', '\t', ' ', '\x0b', '\x00', '\x7f', 'é', ' ',
             '\ud800', '\U0001d7d8', '/', ';', '$', '\\', "'", '{', '}', '(', ')', '[', ']', '<', '>', ':', '=', ',', '?', '!', '*', '_']


def split_decls(text):
    """top-level declarations of a well laid out schema file (header at column 0 ... closing brace at column 0)"""
    out, cur = [], None
    for line in text.split('\n'):
        if re.match(r'(enum|group|element)\b', line):
            cur = [line]
            if line.rstrip().endswith('}') and '{' in line:
                out.append('\n'.join(cur) + '\n')
                cur = None
        elif cur is not None:
            cur.append(line)
            if line.startswith('}'):
                out.append('\n'.join(cur) + '\n')
                cur = None
    return out


def token_mutation(text, rng):
    toks = TOKEN_RE.findall(text)
    idx = [i for i, t in enumerate(toks) if not t.isspace() and not t.startswith('#')]
    if not idx:
        return text + 'x'
    i = rng.choice(idx)
    k = rng.randrange(6)
    if k == 0:
        del toks[i]
    elif k == 1:
        toks.insert(i, toks[i] + ' ')
    elif k == 2:
        j = rng.choice(idx)
        toks[i], toks[j] = toks[j], toks[i]
    elif k == 3:
        toks[i] = rng.choice(VOCAB)
    elif k == 4:
        toks.insert(i, rng.choice(VOCAB) + ' ')
    else:
        del toks[i:]      # truncation: end of input in the middle of a construct
    return ''.join(toks)


def byte_mutation(text, rng):
    if not text:
        return rng.choice(ODD_CHARS)
    i = rng.randrange(len(text))
    k = rng.randrange(4)
    c = rng.choice(ODD_CHARS)
    if k == 0:
        return text[:i] + text[i + 1:]
    if k == 1:
        return text[:i] + c + text[i:]
    if k == 2:
        return text[:i] + c + text[i + 1:]
    return text[:i]


def number_text(rng):
    def num():
        n = rng.randrange(1, 12)
        return ''.join(rng.choice('0123456789..eE+-٣۷') if rng.random() < 0.9 else rng.choice('0123456789') for _ in range(n))
    k = rng.randrange(4)
    if k == 0:
        return 'element a {\n x : double[%s] = %s\n}' % (num(), num())
    if k == 1:
        return 'element a { x : double = {%s, %s} (min=%s, max=%s) }' % (num(), num(), num(), num())
    if k == 2:
        return 'enum e { k = %s }\nelement a { x : int[%s..%s] }' % (num(), num(), num())
    return 'element a { x : double = %s }' % num()


def float_strings(rng, n):
    """decimal strings stressing float(): halfway cases, subnormals, overflow boundary, many digits"""
    out = ['0', '-0', '0.0', '1', '4.9e-324', '2.4703282292062327e-324', '2.4703282292062328e-324', '2.47032822920623272e-324',
           '2.2250738585072011e-308', '2.2250738585072014e-308', '1.7976931348623157e308', '1.7976931348623158e308',
           '1.797693134862315807e308', '1.797693134862315808e308', '179769313486231580793728971405303415079934132710037826936173778980444968292764750946649017977587207096330286416692887910946555547851940402630657488671505820681908902000708383676273854845817711531764475730270069855571366959622842914819860834936475292719074168444365510704342711559699508093042880177904174497791.9999999999999999999999999999999999999',
           '179769313486231580793728971405303415079934132710037826936173778980444968292764750946649017977587207096330286416692887910946555547851940402630657488671505820681908902000708383676273854845817711531764475730270069855571366959622842914819860834936475292719074168444365510704342711559699508093042880177904174497792',
           '9007199254740993', '9007199254740992.5', '9007199254740993.0000000000000000000000000000000000001', '0.1', '0.3', '1e23', '8.5e-324',
           '1e-400', '1e400', '0e999999999999', '1e-999999999999', '1e999999999999', '0.' + '0' * 400 + '1e400', '1' + '0' * 400 + 'e-400',
           '.5', '5.', '5.e-1', '-.5E+1', '٣.٥e١', '1' * 400, '0.' + '3' * 800]
    while len(out) < n:
        k = rng.randrange(4)
        if k == 0:
            # halfway between two doubles: (2m+1) * 2^(e-1) written exactly
            m = rng.randrange(1 << 52, 1 << 53)
            e = rng.randrange(-60, 60)
            from fractions import Fraction
            v = Fraction(2 * m + 1) * Fraction(2) ** (e - 1)
            num, den = v.numerator, v.denominator
            # den is a power of two: exact decimal expansion
            k2 = den.bit_length() - 1
            digits = str(num * 5 ** k2)
            s = digits + 'e-%d' % k2 if k2 else digits
            if rng.random() < 0.5:
                s = digits[:-1] + str((int(digits[-1]) + rng.choice([1, -1])) % 10) + ('e-%d' % k2 if k2 else '')
            out.append(s)
        elif k == 1:
            out.append('%d.%de%d' % (rng.randrange(10 ** rng.randrange(1, 25)), rng.randrange(10 ** rng.randrange(1, 25)), rng.randrange(-345, 320)))
        elif k == 2:
            out.append('%se%d' % (rng.randrange(1, 10 ** 17), rng.randrange(-342, -290)))   # subnormal range
        else:
            out.append(repr(rng.uniform(-1, 1) * 10.0 ** rng.randrange(-320, 308)))
    return out


# hand-written boundary cases: (text, expectation)
FIXED = [
    ('element a { x : double[3..3] }', 'reject'), ('element a { x : double[0..0] }', 'reject'),
    ('element a { x : double[2..3] }', 'accept'), ('element a { x : double[0..1] = 1 }', 'accept'),
    ('element a { x : double[3 .. 2] }', 'reject'), ('element a { x : chars[0] }', 'accept'),
    # end of input at every place where the parser calls next()
    ('enum', None), ('enum e', None), ('enum e :', None), ('enum e {', None), ('enum e { a', None), ('enum e { a =', None),
    ('enum e { a = 1', None), ('enum e { "a"', None), ('group', None), ('group g', None), ('group g variant', None),
    ('group g {', None), ('group g { use', None), ('group g { a', None), ('group g { a :', None), ('group g { a : int', None),
    ('group g { a : int [', None), ('group g { a : int [1', None), ('group g { a : int [1..', None), ('group g { a : int [1..2', None),
    ('group g { a : int =', None), ('group g { a : int = {', None), ('group g { a : int = {1', None), ('group g { a : int = {1,', None),
    ('group g { a : int (', None), ('group g { a : int (min', None), ('group g { a : int (min=', None), ('group g { a : int (min=1', None),
    ('group g { a : int (min=1,', None), ('group g { a : enum', None), ('group g { a : enum<', None), ('group g { a : enum<e', None),
    ('element', None), ('element e', None), ('element e :', None), ('element e (', None), ('element e (xml', None),
    ('element e (xml=', None), ('element e {', None), ('element e { child', None), ('element e { child e', None),
    ('element e { set', None), ('element e { set a', None), ('element e { set a =', None), ('element e { exclusive', None),
    ('element e { exclusive a', None), ('element e { exclusive a +', None), ('element e { exclusive a b', None),
    ('element e { a : int\n exclusive a a', None), ('element e { a : int\n exclusive a +\n a a', None),
    ('element e { a : int\n requires a a\n}', 'accept'), ('element e { a : int\n requires a\n a }', None),
    # same-line duplicates, duplicates whose first declaration is later in the text (via use)
    ('element e { a : int a : int }', 'reject'), ('element e {\n a : int\n a : int }', 'reject'),
    ('element e {\n use g\n a : int\n}\ngroup g {\n a : int\n}', 'reject'),
    ('group g {\n a : int\n}\nelement e {\n a : int\n use g\n}', 'reject'),
    # child cycles: self loops and edges into alias elements are not followed
    ('element a { child b ? }\nelement b { child a ? }', 'reject'), ('element a { child a R }', 'accept'),
    ('element a { child b ? }\nelement b (alias=a) { child a ? }', 'accept'),
    ('element a { child b ? }\nelement b { child a ? }\nelement c (alias=a) { child a ? }', 'reject'),
    ('element a (alias=b) { child b ? }\nelement b { child a ? }', 'accept'),
    ('element a { child b ? child c ? }\nelement b { child c ? }\nelement c { child c R }', 'accept'),
    ('element a {\n child b ?\n}\nelement b {\n child c ?\n child a *\n}\nelement c {\n child b ?\n}', 'reject'),
    # group and element tables are separate; keywords as names
    ('group x { a : int }\nelement x { use x }\nenum x { x = x }', 'accept'), ('group group { group : int }\ngroup variant variant { variant : int }', 'accept'),
    ('group g { a : int }\ngroup g { b : int }', 'reject'), ('enum g { a = 1 }\nenum g { b = 1 }', 'reject'),
    ('element g { }\nelement g { }', 'reject'),
    # facets: True counts as a number for min/max, truthiness of required/positive
    ('element e { a : int (min, max=0.5) }', 'reject'), ('element e { a : int (min, max=1) }', 'accept'),
    ('element e { a : int = 1 (required=0) }', 'accept'), ('element e { a : int = 1 (required="") }', 'accept'),
    ('element e { a : int = 1 (required=x) }', 'reject'), ('element e { a : string (positive=0) }', 'accept'),
    ('element e { a : string (positive) }', 'reject'), ('element e { a : flags<f> = 1 }\nenum f { a = 1 }', 'accept'),
    ('element e (xml) { }', 'reject'), ('element e (alias=e) { }', 'accept'), ('element e (field) { }', 'accept'),
    # lexer corner cases
    ('element e { a : double[0..3] = {0.5, .25, 1e-3} }', 'accept'), ('element e { a : double = 1..2 }', None),
    ('element e { a : double = 1.e5 }', 'accept'), ('element e { a : double = 1e }', None), ('element e { a : double = - 1 }', None),
    ('element e { a : double = 1. }', 'accept'), ('element e { a : double[1.] }', 'reject'), ('element e { a : double[1...3] }', None),
    ('element e { a : string = "x\ny" }', None), ('element e { a : string = "x" # c "\n}', 'accept'), ('#', 'accept'), ('\r', None),
    ('element e { a : double[٣] = {٣.٥e١, ١, -٠} }', 'accept'), ('element e { a : double[-0] }', None),
    ('element e { a : double[%s] }' % ('0' * 4300), None), ('element e { a : double[%s] }' % ('0' * 4301), 'reject'),
]


# ---- payload-kind matrices: every syntactic slot that admits several token kinds, in combination ------------------------
# (the validator looks at payloads in a fixed order; a check that reads a payload before the check that guards its kind is
#  only exposed by attributes carrying TWO OR MORE facets / a default together with an arity / a dangling target + default)

PAYLOADS = [None, ('id', 'hi'), ('id', 'true'), ('str', 'lo'), ('str', ''), ('num', '0'), ('num', '5'), ('num', '-1.5'), ('num', '1e400')]
KIND_REPR = [None, ('id', 'hi'), ('str', 'lo'), ('num', '5')]          # one payload per token kind
ATTR_TYPES = ['double', 'float', 'int', 'bool', 'string', 'file', 'chars', 'enum<e>', 'flags<e>', 'id<n>', 'ref<n>',
              'enum<nosuch>', 'flags<nosuch>', 'ref<nosuch>']
ARITIES = ['', '[1]', '[3]', '[0]', '[]', '[0..3]', '[2..4]', '[1..mjN]', '[0..mjN]']
DEFAULTS = ['', ' = 1', ' = -0.5', ' = a', ' = "a"', ' = true', ' = "b c"', ' = nosuch', ' = {1}', ' = {1, 2, 3}', ' = {1, 2, 3, 4, 5}']
MATRIX_PRELUDE = 'enum e { a = 0 true = 1 "b c" = 2 }\nelement pre { n : id<n> }\n'


def fmt_facets(fs):
    if not fs:
        return ''
    return ' (' + ', '.join(k if v is None else '%s=%s' % (k, '"%s"' % v[1] if v[0] == 'str' else v[1]) for k, v in fs) + ')'


def attr_text(ty, arity, default, fs, in_group=False, variant=False):
    if '<' in ty:
        arity = ''
    body = '  x : %s%s%s%s\n' % (ty, arity, default, fmt_facets(fs))
    if in_group:
        return MATRIX_PRELUDE + 'group g%s {\n%s}\nelement el {\n  use g\n}\n' % (' variant' if variant else '', body)
    return MATRIX_PRELUDE + 'element el {\n%s}\n' % body


def facet_pair_matrix(quick, rng):
    """every ordered pair of attribute facets x every pair of payload token kinds, over attribute types"""
    out = []
    facets = KNOWN_FACETS if not quick else ['min', 'max', 'positive', 'required', 'pattern', 'field']
    i = 0
    for f1 in facets:
        for f2 in facets:
            if f1 == f2:
                continue
            for v1 in KIND_REPR:
                for v2 in KIND_REPR:
                    types = rng.sample(ATTR_TYPES, 5) if not quick else [ATTR_TYPES[i % 7], ATTR_TYPES[(3 * i + 1) % len(ATTR_TYPES)]]
                    if {f1, f2} == {'min', 'max'}:
                        types = ['int', 'double', 'string', 'bool', 'enum<e>']
                    for ty in types:
                        out.append(attr_text(ty, '', rng.choice(['', '', ' = 1', ' = a']), [(f1, v1), (f2, v2)], in_group=(i % 5 == 0)))
                    i += 1
    return out


def attr_matrix(quick, rng):
    """type x arity x default (x dangling targets), a few facets on top"""
    out = []
    i = 0
    for ty in ATTR_TYPES:
        for ar in (ARITIES if '<' not in ty else ['']):
            for d in DEFAULTS:
                i += 1
                if quick and '<' not in ty and ar not in ('', '[3]', '[]', '[0..3]', '[1..mjN]') and i % 3:
                    continue
                fs = []
                if i % 4 == 0:
                    fs = [(rng.choice(KNOWN_FACETS), rng.choice(PAYLOADS))]
                out.append(attr_text(ty, ar, d, fs, in_group=(i % 7 == 0), variant=(i % 14 == 0)))
    return out


def element_facet_matrix():
    out = []
    for f1 in ELEMENT_FACETS + ['required']:
        for v1 in KIND_REPR + [('id', 'el'), ('id', 'other'), ('str', 'other')]:
            out.append('element other { }\nelement el (%s) { child other ? }\n' % fmt_facets([(f1, v1)])[2:-1])
            for f2 in ELEMENT_FACETS:
                if f2 != f1:
                    for v2 in KIND_REPR:
                        out.append('element other { }\nelement el (%s) { }\n' % fmt_facets([(f1, v1), (f2, v2)])[2:-1])
    return out


def random_decl(rng):
    """declarations drawn from the whole syntactic space of attributes (any type with any arity, default, facets and payload
    kinds, several attributes so that an early one may be valid and a later one not); the surrounding structure (names, uses,
    children, constraints) is kept valid most of the time so that validation reaches the per-attribute checks"""
    cnt = [0]

    def attr(own):
        ty = rng.choice(ATTR_TYPES[:11] * 3 + ATTR_TYPES[11:])
        fs = []
        for k in rng.sample(KNOWN_FACETS, rng.choice([0, 0, 1, 2, 2, 3, 4])):
            fs.append((k, rng.choice(PAYLOADS)))
        cnt[0] += 1
        name = 'x%d' % cnt[0] if rng.random() < 0.97 else 'x1'
        own.append(name)
        d = rng.choice(DEFAULTS) if rng.random() < 0.6 else ''
        return '  %s : %s%s%s%s' % (name, ty, '' if '<' in ty else rng.choice(ARITIES), d, fmt_facets(fs))

    def members(in_element, n, uses):
        own, out = [], []
        for _ in range(n):
            k = rng.random()
            if k < 0.7 or not own:
                out.append(attr(own))
            elif k < 0.78 and uses:
                out.append('  use ' + uses.pop())
            elif k < 0.88:
                pool = own if rng.random() < 0.9 else own + ['nosuch']
                out.append('  %s %s' % (rng.choice(KINDS), ' '.join('+'.join(rng.choice(pool) for _ in range(rng.choice([1, 1, 2])))
                                                                       for _ in range(rng.choice([2, 2, 3, 1])))))
            elif in_element:
                out.append(rng.choice(['  child el ?', '  child el2 *', '  child nosuch !', '  set a = B']))
        return '\n'.join(out)
    s = MATRIX_PRELUDE
    two = rng.random() < 0.5
    s += 'group g%s {\n%s\n}\n' % (rng.choice(['', '', '', ' variant']), members(False, rng.randrange(1, 4), ['g2'] if two and rng.random() < 0.5 else []))
    if two:
        s += 'group g2 {\n%s\n}\n' % members(False, rng.randrange(1, 3), [])
    efs = [(k, rng.choice(KIND_REPR + [('id', 'el'), ('id', 'el')])) for k in rng.sample(ELEMENT_FACETS, rng.choice([0, 0, 0, 1, 2]))]
    s += 'element el%s {\n%s\n}\n' % (fmt_facets(efs), members(True, rng.randrange(0, 5), ['g'] + (['nosuch'] if rng.random() < 0.05 else [])))
    s += 'element el2 {\n%s\n}\n' % members(True, rng.randrange(0, 3), [])
    return s


def chain_text(n, shape, rng=None):
    s = ''.join('group g%d { use g%d }\n' % (i, i + 1) for i in range(n - 1))
    last = {'plain': 'a : int', 'elem': 'a : int', 'cycle': 'use g0', 'dangling': 'use nosuch', 'selfloop': 'use g%d' % (n - 1)}[shape]
    s += 'group g%d { %s }\n' % (n - 1, last)
    if shape == 'elem':
        s += 'element e { use g0 }\n'
    return s


# ------------------------------------------------------------------------------------------------

def hashed(ints):
    """same as Model/SchemaLang.v outcome_h"""
    if not ints or ints[0] != 0:
        return ints
    h = 0
    for x in ints[1:]:
        h = (h * 1000003 + x + 7) & 2305843009213693951
    return [0, len(ints) - 1, h]


def run_driver(ctx, cases):
    drv = os.path.join(F.VERIF, "harness", "drivers", "c41_parse.py")
    inp = json.dumps({"cases": [{"text": t, "rl": rl} for (_, t, rl, _) in cases]})
    rc, out, err = ctx.run("/venv/bin/python", inp, args=[drv, ctx.repo], timeout=1500)
    lines = out.split("\n")
    if rc != 0 or len(lines) < len(cases) + 1 or not lines[0].startswith("CAL "):
        ctx.broken.append(("build", "driver c41_parse.py failed on the working tree's doc/generate/mjcf_schema.py",
                           "rc=%s %s" % (rc, (err or out)[-1500:])))
        return None
    cal = lines[0].split()
    outs = []
    for l in lines[1:1 + len(cases)]:
        toks = l.split()
        ints = [int(x) for x in toks if re.fullmatch(r'-?\d+', x)]
        name = toks[-1] if toks and not re.fullmatch(r'-?\d+', toks[-1]) else ''
        outs.append((ints, name))
    return int(cal[1]), int(cal[2]), outs


def run(ctx):
    rng = ctx.rng
    quick = ctx.tier == "quick"
    t_start = time.time()
    ctx.coq_props(allowed_axioms=(), extra_targets=["Model/SchemaLang.vo"])
    t_props = time.time()
    schema_path = os.path.join(ctx.repo, "src", "xml", "mjcf.schema")
    try:
        real = open(schema_path, encoding='utf-8').read()
    except OSError as e:
        ctx.broken.append(("build", "cannot read src/xml/mjcf.schema", str(e)))
        return
    # ---------------------------------------------------------------- cases: (family, text, rl, expectation)
    # expectation: None | 'reject' (text breaks a rule by construction) | 'accept' (valid by construction)
    cases = []
    if getattr(ctx, "replay", None):
        c = ctx.replay.get("case") or {}
        if "text" in c:
            cases.append((c.get("family", "replay"), c["text"], c.get("rl"), c.get("expect")))
    else:
        gen = Gen(rng)
        muts = mutators()
        cases.append(("real", real, None, 'accept'))
        cases.append(("empty", "", None, 'accept'))
        cases.append(("empty", "\n\n# only a comment", None, 'accept'))
        for t, ex in FIXED:
            cases.append(("fixed", t, None, ex))
        for t in facet_pair_matrix(quick, rng):
            cases.append(("matrix:facet-pairs", t, None, None))
        for t in attr_matrix(quick, rng):
            cases.append(("matrix:type-arity-default", t, None, None))
        for t in element_facet_matrix():
            cases.append(("matrix:element-facets", t, None, None))
        for i in range(250 if quick else 2000):
            cases.append(("random-decl", random_decl(rng), None, None))
        nvalid = 120 if quick else 2500
        for i in range(nvalid):
            sch = gen.schema()
            cases.append(("valid", render(sch, rng, style=rng.random() < 0.85), None, 'accept'))
        per_rule = 3 if quick else 40
        for name, f in muts:
            done = 0
            for _ in range(per_rule * 4):
                if done >= per_rule:
                    break
                sch = gen.schema(size=rng.choice([1, 2]))
                if f(sch, rng) is False:
                    continue
                done += 1
                cases.append(("break:" + name, render(sch, rng, style=rng.random() < 0.7), None, 'reject'))
        decls = split_decls(real)
        nslice = 60 if quick else 1200
        for i in range(nslice):
            k = rng.choice([1, 1, 2, 3])
            j = rng.randrange(len(decls))
            sl = ''.join(decls[j:j + k])
            m = rng.random()
            if m < 0.15:
                cases.append(("slice", sl, None, None))
            elif m < 0.6:
                cases.append(("slice-token", token_mutation(sl, rng), None, None))
            else:
                cases.append(("slice-byte", byte_mutation(sl, rng), None, None))
        for i in range(80 if quick else 1700):
            sch = gen.schema(size=1)
            t = render(sch, rng)
            for _ in range(rng.choice([1, 1, 2])):
                t = token_mutation(t, rng) if rng.random() < 0.5 else byte_mutation(t, rng)
            cases.append(("gen-mutated", t, None, None))
        for i in range(100 if quick else 2000):
            n = rng.randrange(1, 40)
            cases.append(("tokens", ' '.join(rng.choice(VOCAB) for _ in range(n)), None, None))
        for i in range(80 if quick else 1700):
            cases.append(("numbers", number_text(rng), None, None))
        for s in float_strings(rng, 110 if quick else 1700):
            cases.append(("float", 'element a { x : double = %s (min=%s) }' % (s, s), None, None))
        # recursion limit, lowered by the driver so that rl frames are available below _validate
        for rl in ([12, 23] if quick else [12, 17, 23, 40, 61]):
            for shape in ('plain', 'elem', 'cycle', 'dangling', 'selfloop'):
                for n in range(rl - 3, rl + 3):
                    cases.append(("limit:" + shape, chain_text(n, shape), rl, None))
        for i in range(10 if quick else 120):
            rl = rng.randrange(10, 30)
            sch = gen.schema(size=4)
            cases.append(("limit:valid", render(sch, rng, style=False), rl, None))
        # the default interpreter limit: design-time probe (DESIGN.md section 7 item 3)
        # (VERIF_C41_NO_DEEP=1 leaves it out: used by the self-tests to see the other alarms of a mutant on their own)
        if not os.environ.get("VERIF_C41_NO_DEEP"):
            cases.append(("deep-chain", chain_text(1200, 'plain'), None, 'accept'))

    res = run_driver(ctx, cases)
    if res is None:
        return
    offset, default_limit, outs = res
    t_impl = time.time()
    # HEAD's traversals are iterative: the calibration (longest use chain accepted under a lowered recursion limit) then finds
    # no limit (offset < 0) and the driver leaves the limit alone.  A tree whose traversals recurse again gets its limit lowered
    # for the "limit:*" families and disagrees with the model there, besides failing the 1200-group chain.
    unbounded = offset < 0
    default_rl = None if unbounded else default_limit - offset
    ctx.cov["support"]["recursion_calibration"] = {"offset": offset, "default_limit": default_limit,
                                                   "frames_below_validate": default_rl, "unbounded": unbounded}

    # ---------------------------------------------------------------- oracle on implementation output
    coq_cases = []
    stats = {}
    nontriv = set()
    for (fam, text, rl, expect), (ints, name) in zip(cases, outs):
        nl = text.count("\n")
        small = {"family": fam, "text": text if len(text) < 4000 else text[:4000] + "...(%d chars)" % len(text), "rl": rl, "expect": expect}
        if len(text) >= 4000 and fam == "deep-chain":
            small["text_generator"] = "chain_text(1200,'plain'): group g<i> { use g<i+1> } for i<1199; group g1199 { a : int }"
        cls = ints[0] if ints else -1
        stats.setdefault(fam.split(":")[0], [0, 0, 0, 0])[cls if 0 <= cls <= 2 else 3] += 1
        if cls == 2:
            if rl is None:
                if name == "RecursionError":
                    sig = {"site": "_check_group_cycle/_group_attrs", "class": "recursion_limit"}
                else:
                    sig = {"site": "parse_string", "class": name}
                ctx.violation("impl_violation", small, expected="a Schema or a SchemaError (no other exception escapes)",
                              observed="parse_string raised %s" % name, theorem="C41_total",
                              signature=sig,
                              note="the text is a valid schema; _check_group_cycle recurses once per `use` edge and exceeds "
                                   "the interpreter's recursion limit (%d, %s frames left below _validate)" % (default_limit, default_rl)
                              if name == "RecursionError" else "")
        elif cls == 1:
            if len(ints) != 2 or not (1 <= ints[1] <= nl + 1):
                ctx.violation("impl_violation", small, expected="SchemaError line within 1..%d" % (nl + 1),
                              observed="line %s" % ints[1:], theorem="C41_total", signature={"site": "SchemaError.line", "class": "line_out_of_text"})
            if expect == 'accept' and rl is None:
                ctx.violation("impl_violation", small, expected="a valid schema (by construction) is accepted",
                              observed="SchemaError at line %d" % ints[1], theorem="C41_complete", signature={"site": "parse_string", "class": "valid_rejected:" + fam})
        elif cls == 0:
            try:
                dec = Rd(ints[1:]).schema()
                bad = wellformed(dec, nl)
            except Exception as e:  # noqa
                bad = ["dump not decodable: %r" % e]
            if bad:
                ctx.violation("impl_violation", small, expected="an accepted schema satisfies the documented rules",
                              observed="accepted although: " + "; ".join(sorted(set(bad))[:4]), theorem="C41_sound",
                              signature={"site": "_validate", "class": sorted(set(bad))[0]})
            elif expect == 'reject':
                ctx.violation("impl_violation", small, expected="SchemaError: the text breaks rule '%s'" % fam.split(":", 1)[-1],
                              observed="accepted", theorem="C41_complete", signature={"site": "_validate", "class": fam})
        else:
            ctx.broken.append(("correspondence", "unparsable driver output", repr(ints[:5])))
        ntok = sum(1 for t in TOKEN_RE.findall(text[:20000]) if not t.isspace() and not t.startswith('#'))
        if ntok >= 8:
            nontriv.add(text)
        coq_cases.append("(%s, %s)" % (lit(text), F.zlist(hashed(ints))))

    # ---------------------------------------------------------------- model vs implementation, inside Coq
    order = sorted(range(len(cases)), key=lambda i: -len(cases[i][1]))
    # big texts first, spread over shards: the first shards get the large literals
    nsh = 8 if quick else 32
    shards = [[] for _ in range(nsh)]
    weight = [0] * nsh
    for i in order:
        k = weight.index(min(weight))
        shards[k].append(i)
        weight[k] += len(cases[i][1]) + 200
    perm = [i for sh in shards for i in sh]
    maxshard = max(len(sh) for sh in shards)
    # coq_eval shards consecutively with a fixed size: pad with a trivially true case
    pad = PAD
    flat, back = [], []
    for sh in shards:
        for i in sh:
            flat.append(coq_cases[i])
            back.append(i)
        for _ in range(maxshard - len(sh)):
            flat.append(pad)
            back.append(None)
    fails = ctx.coq_eval("c41", IMPORTS, flat, "agrees", shard=maxshard, timeout=3000)
    t_model = time.time()
    fails = sorted({back[j] for j in fails if back[j] is not None}, key=lambda i: len(cases[i][1]))
    concrete = {json.dumps(v["case"], sort_keys=True) for v in ctx.viol if v["found_input"]}
    for i in fails[:5]:
        fam, text, rl, expect = cases[i]
        ctx.violation("correspondence", {"family": fam, "text": text[:4000], "rl": rl, "expect": expect},
                      expected="outcome of Model/SchemaLang.v parse_string (class, line, dump)",
                      observed=" ".join(map(str, outs[i][0][:40])) + " " + outs[i][1], found_input=False,
                      theorem="correspondence c41 (%s)" % fam,
                      note="implementation and Coq model disagree on this text; the implementation's outcome satisfies the oracle")

    # ---------------------------------------------------------------- CPython tables used by the model
    if not getattr(ctx, "replay", None):
        import subprocess
        tab = subprocess.run(["/venv/bin/python", "-c", (
            "import re,sys\n"
            "nd=[c for c in range(0x110000) if re.match(r'\\d', chr(c))]\n"
            "cs=set()\n"
            "for c in nd: cs.update((c-1,c,c+1))\n"
            "cs.update(range(0,300)); cs.update((0xd800,0x10ffff,0x110000))\n"
            "print(';'.join('%d:%d'%(c,(int(chr(c)) if c<0x110000 and re.match(r'\\d',chr(c)) else -1)) for c in sorted(cs) if c>=0))\n"
            "ws=set(c for c in range(0x110000) if chr(c).strip()=='')\n"
            "cs=set(range(0,300))\n"
            "for c in ws: cs.update((c-1,c,c+1))\n"
            "print(';'.join('%d:%d'%(c,c in ws) for c in sorted(cs)))\n"
            "print(sys.get_int_max_str_digits())\n")], capture_output=True, text=True)
        tl = tab.stdout.split("\n")
        if tab.returncode != 0 or len(tl) < 3:
            ctx.broken.append(("correspondence", "cannot extract CPython tables", tab.stderr[-500:]))
        else:
            dc = ["(%s%%N, %s)" % (a, ("(%s)" % b) if b.startswith("-") else b) for a, b in (x.split(":") for x in tl[0].split(";"))]
            f1 = ctx.coq_eval("c41_digit", IMPORTS + "\nOpen Scope Z_scope.", dc, "agrees_digit", shard=4000)
            sc = ["(%s%%N, %s)" % (a, "true" if b == "1" else "false") for a, b in (x.split(":") for x in tl[1].split(";"))]
            f2 = ctx.coq_eval("c41_space", IMPORTS, sc, "agrees_space", shard=4000)
            if f1 or f2 or tl[2].strip() != "4300":
                ctx.broken.append(("correspondence", "CPython tables differ from the model (Unicode digits %s, white space %s, int digit limit %s)"
                                   % (f1[:3], f2[:3], tl[2]), ""))
            ctx.cov["support"]["cpython_tables"] = "%d digit code points, %d white-space code points compared" % (len(dc), len(sc))

    ctx.cov["evaluations"] = len(cases)
    ctx.cov["distinct_nontrivial"] = len(nontriv)
    ctx.cov["rule"] = ("families: the checked-in src/xml/mjcf.schema; grammar-generated valid schemas with random layout/comments; one "
                       "rule-breaking mutator per validation/parse rule (%d rules) applied to generated schemas; slices of 1-3 declarations of "
                       "mjcf.schema unmodified / one token mutated / one character mutated; generated schemas with 1-2 token or character mutations; "
                       "random token streams; payload-kind matrices (every ordered pair of attribute facets x token kind of each payload over attribute types; type x arity x default x dangling target; element facets) and unconstrained random declarations; number-lexing and float()-rounding stress texts; use-chains around a lowered recursion limit in 5 "
                       "shapes and generated schemas under a lowered limit; the 1200-group chain at the default limit. non-trivial = distinct text "
                       "with at least 8 tokens" % len(mutators()))
    ctx.cov["support"]["outcomes_by_family"] = {k: {"ok": v[0], "schema_error": v[1], "other_exception": v[2]} for k, v in sorted(stats.items())}
    pick = [c for c in cases if c[0] in ("valid", "break:duplicate_attr_via_use", "slice-token")][:3] or cases[:3]
    ctx.cov["samples"] = [{"family": f, "text": t[:600], "rl": rl} for f, t, rl, _ in pick]
    ctx.cov["correspondence_disagreements"] = len(fails)
    ctx.cov["support"]["timing_s"] = {"coq_theorems": round(t_props - t_start, 1), "implementation": round(t_impl - t_props, 1), "model_in_coq": round(t_model - t_impl, 1)}
    ctx.cov["explanation"] = ("Totality/line-bound/soundness theorems are proved of the model for all texts; the model is tied to "
                              "doc/generate/mjcf_schema.py by exact comparison of outcome class, error line and schema dump on %d texts; an "
                              "independent well-formedness oracle runs on every accepted implementation output, and every rule-breaking text "
                              "must be rejected" % len(cases))
