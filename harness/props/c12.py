"""C12 — the constraint cost has consistent derivatives (mj_constraintUpdate_impl)."""
import math, time
import framework as F
import c12_common as CU

META = {
    "id": "C12", "category": "proof", "design_ref": "DESIGN.md section 4, C12",
    "technique": "Coq/Coquelicot proof over R of a Num-polymorphic line-by-line model of mj_constraintUpdate_impl + "
                 "float correspondence run of the same model against the exported C function on raw arrays "
                 "(engine-produced and synthetic) + finite-difference / convexity / continuity oracles on the C output",
    "text": "Model: Model/ConstraintUpdate.v follows mj_constraintUpdate_impl line by line (row kinds by the index ranges ne / nf, efc_type, efc_id, contact dim/mu/friction, the three zones of the elliptic cone, cone Hessian; mju_dot's summation order) and the part of mj_makeImpedance that sets efc_R / efc_D / contact.mu of frictional contacts; written once over Lib/Num and used at R (theorems) and at binary64 (run). PROVED over R for the model, for every number and composition of rows, every contact dimension, every D/R/frictionloss/mu/friction meeting cu_wf and EVERY residual vector including zone boundaries, the apex and the axis T=0: C12_gradient: the update returns a result and efc_force[k] = -d cost/d jar[k] (Coquelicot is_derive along coordinate k) for every row k; C12_C1_cost / C12_C1_force: along every coordinate line through every point the cost is differentiable and continuous and every force component is continuous, at every parameter value (so cost and force have no jump at any zone boundary); C12_C1_boundary: on a shared zone boundary the expressions of the two zones coincide for the cost and every force component (dimension-generic); C12_hessian: strictly inside the middle zone the returned H (any dim) is symmetric and H[a][b] = -d efc_force[a]/d jar[b]; C12_tangent / C12_convex: with efc_D >= 0 the total cost lies above every tangent plane cost(x) - force(x).(y-x) and is JOINTLY convex in the whole residual vector (elliptic contacts of any dimension included; 2-D cone-distance inequality + Cauchy-Schwarz on lists); C12_convex_scalar: every scalar row cost is convex. The hypotheses cu_wf are exactly friction rows D*R = 1, R > 0, frictionloss >= 0 and elliptic rows mu > 0, D[i+j]*mu^2 = D[i]*friction[j-1]^2; C12_relations_established proves that the model of mj_makeImpedance's assignment produces them, and the check verifies them (1e-11) on the efc arrays the engine produced. TIED to the code by a float run of the same Gallina definitions against the exported mj_constraintUpdate_impl on raw arrays (engine-produced arrays of mjgen models with the engine's own, random and boundary jar; synthetic compositions with dims 2..6; cost/force/H compared at 2^-30 scaled, states exactly off the boundaries) and against efc_R/efc_D/contact.mu after mj_forward. ORACLES on implementation output (failing-input search): central finite differences of the returned cost vs returned force, midpoint convexity of the total cost, convexity of the cost and monotonicity of the force on sweeps of one coordinate of an elliptic block across all three zones, Lipschitz continuity probes of cost and force across exact zone boundaries, H vs finite differences of the force. NOT PROVED: joint (multi-variable) continuity of the force (it is proved along every coordinate line; the cost itself is convex and differentiable along lines); J' f of mj_constraintUpdate (see C11 oracle); floating-point rounding.",
    "note": "Trusted: Coq kernel + std-lib real-number axioms; hand-written model Model/ConstraintUpdate.v; "
            "correspondence harness (gcc, driver c12_update.c, Coq PrimFloat evaluation). IEEE rounding is outside every theorem.",
    "assumptions": ["theorems are over the real numbers; the float run of the same definitions is compared with a scaled tolerance of 2^-30",
                    "tie is differential testing on the cases of this run"],
}


def run(ctx):
    rng = ctx.rng
    quick = ctx.tier == "quick"
    tm = {}
    t0 = time.time()
    ctx.coq_props(allowed_axioms=F.STD_AXIOMS, extra_targets=["Lib/Num.vo", "Lib/NumF.vo", "Model/ConstraintUpdate.vo"])
    exe = ctx.driver("c12_update", ["c12_update.c"])
    if exe is None:
        return
    tm["coq_props+build"] = round(time.time() - t0, 1); t0 = time.time()
    # ---------------------------------------------------------------- configurations
    gen_cfgs = CU.gen_configs(ctx, exe, 1, 41 if quick else 400)
    if gen_cfgs is None:
        return
    CU.check_relations(ctx, gen_cfgs, theorem="C12_C1 (hypotheses on engine data)")
    syn_cfgs = [CU.synth_config(rng, related=True) for _ in range(150 if quick else 3000)]
    unrel_cfgs = [CU.synth_config(rng, related=False) for _ in range(40 if quick else 500)]
    cases = []   # dict(cfg, jar, flgH, tag)
    for cfg in gen_cfgs:
        cases.append({"cfg": cfg, "jar": cfg["jar"], "flgH": 1, "tag": "engine-jar"})
        for _ in range(2 if quick else 6):
            cases.append({"cfg": cfg, "jar": CU.random_jar(rng, cfg), "flgH": rng.randrange(2), "tag": "random"})
        cases.append({"cfg": cfg, "jar": CU.boundary_jar(rng, cfg), "flgH": 1, "tag": "boundary"})
    for cfg in syn_cfgs:
        for _ in range(3):
            cases.append({"cfg": cfg, "jar": CU.random_jar(rng, cfg), "flgH": rng.randrange(2), "tag": "random"})
        for _ in range(2):
            cases.append({"cfg": cfg, "jar": CU.boundary_jar(rng, cfg), "flgH": 1, "tag": "boundary"})
    nrel = len(cases)
    for cfg in unrel_cfgs:
        for _ in range(2):
            cases.append({"cfg": cfg, "jar": CU.random_jar(rng, cfg), "flgH": 1, "tag": "random-unrelated"})
    cases.append({"cfg": CU.empty_config(), "jar": [], "flgH": 0, "tag": "nefc=0"})
    rp = getattr(ctx, "replay", None)
    if rp and isinstance(rp.get("case"), dict) and "jar" in rp["case"]:
        # --replay: only the recorded case (all oracles and the correspondence run on it)
        rc = CU.case_from_json(rp["case"])
        if rc["tag"] == "random-unrelated":
            cases, nrel = [rc], 0
        else:
            cases, nrel = [rc], 1
    outs = CU.run_raw(ctx, exe, [(c["cfg"], c["jar"], c["flgH"]) for c in cases])
    if outs is None:
        return
    for c, o in zip(cases, outs):
        c["out"] = o
    tm["cases"] = round(time.time() - t0, 1); t0 = time.time()
    # ---------------------------------------------------------------- oracles on implementation output
    stats = CU.Stats()
    CU.oracle_gradient(ctx, exe, cases[:nrel], stats, rng, per_case=(4 if quick else 6))
    CU.oracle_convexity(ctx, exe, cases[:nrel], stats, rng)
    CU.oracle_continuity(ctx, exe, [c for c in cases[:nrel] if c["tag"] == "boundary"], stats, rng)
    CU.oracle_sweep(ctx, exe, [c for c in cases[:nrel] if c["tag"] in ("random", "engine-jar")], stats, rng, max_blocks=(300 if quick else 2500))
    CU.oracle_hessian(ctx, exe, [c for c in cases[:nrel] if c["flgH"]], stats, rng)
    tm["oracles"] = round(time.time() - t0, 1); t0 = time.time()
    # ---------------------------------------------------------------- correspondence with the Coq model
    # Coq evaluation cost is dominated by parsing float literals: bound the total number of rows sent
    budget = 14000 if quick else 120000
    order = sorted(range(len(cases)), key=lambda i: (cases[i]["cfg"]["nefc"] > 40, i))
    sel, tot = [], 0
    for i in order:
        n = cases[i]["cfg"]["nefc"] + 8
        if tot + n > budget:
            continue
        sel.append(i); tot += n
    sel.sort()
    ccases = [cases[i] for i in sel]
    fails = CU.correspond(ctx, "c12", ccases)
    ctx.cov["support"]["correspondence_cases"] = len(ccases)
    for i in fails[:5]:
        c = ccases[i]
        ctx.violation("correspondence", CU.case_json(c), expected="output of Model/ConstraintUpdate.v (float run)",
                      observed=CU.out_json(c["out"]), found_input=False, theorem="correspondence c12_update",
                      signature={"site": "mj_constraintUpdate_impl"},
                      note="implementation and Coq model disagree on this input (tolerance 2^-30 on cost/force/H, states exact off the zone boundaries)")
    nimp, impfails = CU.correspond_impedance(ctx, gen_cfgs)
    for m in impfails[:3]:
        ctx.violation("correspondence", m, expected="mu, R, D of Model/ConstraintUpdate.v: ell_impedance / pyr_impedance (float run)",
                      observed={"mu": m["mu"], "R": m["R"], "D": m["D"]}, found_input=False, theorem="correspondence mj_makeImpedance (C12_relations_established)",
                      signature={"site": "mj_makeImpedance"})
    ctx.cov["support"]["impedance_correspondence_cases"] = nimp
    tm["correspondence"] = round(time.time() - t0, 1)
    ctx.cov["support"]["timing_s"] = tm
    # ---------------------------------------------------------------- coverage
    zones = {}
    for c in cases:
        for k, v in CU.zone_histogram(c).items():
            zones[k] = zones.get(k, 0) + v
    ctx.cov["evaluations"] = len(cases) + stats.evals
    ctx.cov["distinct_nontrivial"] = sum(1 for c in cases if len(CU.zone_histogram(c)) >= 3)
    ctx.cov["rule"] = ("cases = (row composition, jar, flgH): engine-produced efc arrays of mjgen models (own jar, random jar, jar on "
                       "zone boundaries) and synthetic compositions (equality, friction-loss, limit, frictionless, pyramidal rows, elliptic "
                       "blocks of dim 2..6; D/R/mu related as mj_makeImpedance does, plus unrelated ones for correspondence only); "
                       "non-trivial = case whose rows fall in >= 3 distinct (row kind, zone) classes; evaluations also counts the perturbed "
                       "evaluations made by the finite-difference, convexity, continuity and Hessian oracles")
    ctx.cov["zones"] = zones
    ctx.cov["oracle_checks"] = stats.as_dict()
    ctx.cov["samples"] = [CU.case_json(cases[i]) for i in (0, len(gen_cfgs), nrel - 1) if i < len(cases)]
    ctx.cov["correspondence_disagreements"] = len(fails)
    ctx.cov["explanation"] = ("Theorems of Props/C12.v proved over R for the model; model tied to mj_constraintUpdate_impl by a float run on %d "
                              "cases; %d oracle checks on implementation output" % (len(ccases), stats.total()))
