"""C29 — passive forces follow their physical laws."""
import math
import framework as F

META = {
    "id": "C29", "category": "proof", "design_ref": "DESIGN.md section 4, C29",
    "technique": "Coq proofs over R (Coquelicot derivatives) of a Gallina model (Model/Passive.v, generic over Lib/Num) of mj_springdamper / mj_gravcomp / mju_polyForce / mju_polyPotential + float correspondence of the same model with mj_passive and mj_energyPos of the working tree on generated models + physical-law oracle on implementation outputs",
    "text": "filled in below",
    "note": "filled in below",
    "assumptions": [
        "theorems are about exact real arithmetic; IEEE rounding is outside every theorem (the model is run at binary64 only for the tie, tolerance 2^-30 scaled)",
        "hand-written model Model/Passive.v (this MuJoCo version has polynomial stiffness / damping: mjNPOLY = 2 higher-order coefficients, checked at compile time by the driver); the tie is differential testing on the cases of this run",
        "kinematic quantities (tendon length, velocity and Jacobian rows, body Jacobians at the centre of mass) are inputs of the model taken from the implementation; the actuator-inherited damping is NOT an input: it is recomputed from the raw model arrays (dof/tendon damping, actuator damping, gear, transmission target) both in the Coq model and in the oracle",
        "atan2 of the float runs (ball-joint springs) comes from the unverified Lib/FloatFn.v (executable side only)",
    ],
}
META["text"] = (
    "Proved in Coq over the reals, for all inputs, about the model Model/Passive.v of engine_passive.c: the spring force of a scalar joint or tendon, -x*polyForce(k, poly, x) with x the deflection from springref (polynomial stiffness k + p0 x + p1 x^2 as coded), "
    "is minus the derivative of the reported potential mju_polyPotential (C29_spring_is_gradient, Coquelicot is_derive, for the coded mjNPOLY = 2, closed forms in C29_poly_closed_form; the plain linear spring -k(q - q_ref) = -d/dq (1/2 k (q - q_ref)^2): C29_linear_spring_gradient; tendons w.r.t. the tendon length away from the two corners of the dead band: C29_tendon_spring_gradient); "
    "the tendon dead band gives zero displacement inside [lower, upper] (C29_tendon_deadband); damping never adds energy: v * damperForce(b, poly, v) <= 0 for non-negative coefficients, for joints and through the tendon Jacobian "
    "(C29_damping_dissipates, C29_tendon_damping_dissipates); the actuator-inherited damping of mj_actuatorDamping is modelled (effective coefficients = own + coefficient*gear^2 for every actuator driving the joint / tendon) and, for non-negative coefficients, stays non-negative for gears of any sign and magnitude, so the damper still never adds energy (C29_actuator_damping_closed_form, C29_actuator_damping_dissipates); at zero deflection and zero velocity spring and damper forces vanish and a whole system of scalar joints, dof dampers and tendons at rest has zero qfrc_spring and qfrc_damper, "
    "hence zero qfrc_passive without gravity compensation (C29_rest_scalar, C29_rest_system); the gravity-compensation force of a body is -g*m*gravity applied at the centre of mass and its generalized force cancels exactly the fraction g of the generalized gravity force of that body "
    "(C29_gravcomp_force, C29_gravcomp_cancels). Partial / not proved: ball and free joint springs are in the model and tied, but 'force = -gradient' for them is checked only numerically (finite differences of the implementation's potential); "
    "flex, fluid, contact and adhesion passive forces are outside the model. "
    "Tied on every run: mju_polyForce / mju_polyPotential on random inputs, and qfrc_spring, qfrc_damper, qfrc_gravcomp, qfrc_passive and the spring potential of mj_energyPos on mjgen models extended with polynomial coefficients, spring references, tendon dead bands, "
    "actuator-routed gravity compensation, groups of 1-3 damped actuators (linear and polynomial coefficients, armature) sharing a joint or tendon with gears of both signs and magnitudes != 1, and the spring / damper disable flags, evaluated in the Coq model at binary64. "
    "Oracle on implementation output (independent of the model): -qfrc_spring equals the centred finite difference of the spring potential along every dof (all joint types and tendons), scalar spring / damper / tendon laws recomputed from the state with the damping coefficients own + sum coefficient*gear^2 recomputed from the raw model arrays, "
    "damping power <= 0, zero spring and damper force at rest (qpos = qpos_spring, qvel = 0, tendons inside their dead band), qfrc_gravcomp recomputed from masses and Jacobians, and with gravcomp = 1 on every body qfrc_gravcomp = qfrc_bias at zero velocity (gravity exactly cancelled).")
META["note"] = ("Trusted: Coq kernel + the standard-library real-number axioms listed in trusted_base (Coquelicot); hand-written model; Lib/FloatFn.v (executable side); "
                "correspondence harness (gcc, driver c29_passive.c, mjgen.h).")

TOL = "0x1p-30"


def hx(x):
    return float(x).hex()


def fl(t):
    t = t.strip()
    if t in ("nan", "-nan"):
        return math.nan
    if t in ("inf", "-inf"):
        return math.inf if t[0] != "-" else -math.inf
    return float.fromhex(t)


def close(a, b, tol=1e-9, sc=0.0):
    if a != a or b != b:
        return a != a and b != b
    return abs(a - b) <= tol * (1 + abs(a) + abs(b) + sc)


def ff(x):
    return "(%s)%%float" % F.fhex(x)


def bb(b):
    return "true" if b else "false"


def tup(xs):
    return "(" + ", ".join(ff(x) for x in xs) + ")"


PRE = """
Definition AL := list (float * float * list float).
Definition mkDof (t : float * list float * float * AL) : float * list float * float :=
  match t with (b0, p0, v, acts) => let e := effDamping b0 p0 acts in (fst e, snd e, v) end.
Definition mkT (t : float * list float * (float * list float * AL) * (float * float * float * float) * list float) : Tendon :=
  match t with (k, sp, (b0, dp0, acts), (len, vel, lo, hi), J) =>
    let e := effDamping b0 dp0 acts in mkTendon k sp (fst e) (snd e) len vel lo hi J end.
Definition chkM (c : nat * bool * bool * list (@JointSpring float) * list (float * list float * float * AL) *
                     list (float * list float * (float * list float * AL) * (float * float * float * float) * list float) *
                     (float * float * float) * list (float * float * list (float * float * float)) * bool * list bool *
                     (list float * list float * list float * list float * float)) : bool :=
  match c with (nv, es, ed, joints, dofs0, tendons0, gravity, bodies, has_gc, actgc, (qS, qP, qG, qQ, eE)) =>
    let dofs := map mkDof dofs0 in
    let tendons := map mkT tendons0 in
    let sd := springdamper nv es ed joints dofs tendons in
    let g := gravcomp nv gravity bodies in
    fclose_list TOL (fst sd) qS && fclose_list TOL (snd sd) qP && fclose_list TOL g qG &&
    fclose_list TOL (passive (fst sd) (snd sd) g has_gc actgc) qQ &&
    fclose TOL (springEnergy es joints tendons) eE end.
Definition chkP (c : float * list float * float * bool * float * float) : bool :=
  match c with (lin, poly, x, odd, f, pot) => fclose TOL (polyForce lin poly x odd) f && fclose TOL (polyPotential lin poly x odd) pot end.
""".replace("TOL", TOL)


def alist(acts):
    return "[" + "; ".join("(%s, %s, %s)" % (ff(g), ff(d), F.flist(dp)) for g, d, dp in acts) + "]"


def pforce(lin, poly, x, odd):
    if odd:
        x = abs(x)
    return lin + poly[0] * x + poly[1] * x * x


def run(ctx):
    rng = ctx.rng
    big = ctx.tier != "quick"
    ctx.coq_props(allowed_axioms=F.STD_AXIOMS, extra_targets=["Lib/Num.vo", "Lib/NumF.vo", "Lib/FloatFn.vo", "Model/Spatial.vo", "Model/Passive.vo"])
    exe = ctx.driver("c29_passive", ["c29_passive.c"])
    if exe is None:
        return
    MJG = dict(FREE=1, BALL=2, SLIDE=4, TENDON=32, ACTUATOR=64, LIMIT=1024, SPRING=4096, MULTITREE=32768, SITE=65536, GRAVCOMP=1 << 18)
    req = []
    nmod = 200 if big else 30
    for k in range(nmod):
        feat = MJG["SPRING"]
        for nm in ("FREE", "BALL", "SLIDE", "TENDON", "ACTUATOR", "LIMIT", "MULTITREE", "GRAVCOMP"):
            if rng.random() < (0.75 if nm in ("TENDON", "GRAVCOMP", "SLIDE") else 0.45):
                feat |= MJG[nm]
        req.append((rng.randrange(1, 10 ** 6), feat, rng.randint(1, 6), k))
    pcases = []
    for k in range(300 if big else 60):
        pcases.append((rng.choice([0.0, rng.uniform(0, 20)]), [rng.choice([0.0, rng.uniform(-3, 6)]), rng.choice([0.0, rng.uniform(0, 8)])],
                       rng.choice([0.0, rng.uniform(-2, 2), rng.uniform(-1e-3, 1e-3)]), rng.randrange(2)))
    inp = "".join("M %d %d %d %d\n" % r for r in req) + "".join("P %s %s %s %s %d\n" % (hx(l), hx(p[0]), hx(p[1]), hx(x), o) for l, p, x, o in pcases)
    rc, out, err = ctx.run(exe, inp)
    if rc != 0:
        ctx.broken.append(("correspondence", "driver c29_passive failed", "rc=%s %s" % (rc, err[-800:])))
        return
    lines = out.split("\n")
    pos = 0
    mcases, mmeta = [], []
    stats = dict(models=0, skipped=0, spring_joints=0, ball_free_springs=0, poly_springs=0, damped_dofs=0, tendons_active=0, deadband_inside=0, gravcomp_bodies=0,
                 actgravcomp_dofs=0, dofs_with_actuator_damping=0, dofs_multi_actuator_damping=0, tendons_multi_actuator_damping=0, actuator_damping_gear_not_1=0, actuator_damping_gear_negative=0, rest_states=0, g1_states=0, spring_disabled=0, damper_disabled=0, fd_checks=0, law_checks=0)
    try:
        for r in req:
            head = lines[pos].split(); pos += 1
            if head[:2] == ["M", "SKIP"]:
                stats["skipped"] += 1
                continue
            if head[:2] != ["M", "OK"]:
                ctx.broken.append(("correspondence", "generated model rejected", " ".join(head[:30]) + " request=%s" % (r,)))
                continue
            nv, nj, nt, nb, nact = int(head[3]), int(head[5]), int(head[7]), int(head[9]), int(head[11])
            es, ed, gc_on, g1, rest = int(head[13]), int(head[15]), int(head[17]), int(head[19]), int(head[21])
            gravity = [fl(x) for x in head[23:26]]
            joints = []
            for j in range(nj):
                t = lines[pos].split(); pos += 1
                jt, dof = int(t[1]), int(t[2])
                v = [fl(x) for x in t[3:]]
                n = 7 if jt == 0 else 4 if jt == 1 else 1
                if len(v) != 3 + 2 * n:
                    raise ValueError("joint line")
                joints.append((jt, dof, v[0], v[1:3], v[3:3 + n], v[3 + n:]))
            rawdofs = []
            for v in range(nv):
                t = lines[pos].split(); pos += 1
                if t[0] != "D" or len(t) != 8:
                    raise ValueError("dof line")
                rawdofs.append((fl(t[1]), [fl(t[2]), fl(t[3])], fl(t[4]), int(t[5]), int(t[6])))
            actu = []
            for i in range(nact):
                t = lines[pos].split(); pos += 1
                if t[0] != "AC" or len(t) != 7:
                    raise ValueError("actuator line")
                actu.append((int(t[1]), int(t[2]), fl(t[3]), fl(t[4]), [fl(t[5]), fl(t[6])]))
            # actuator-inherited damping, recomputed here from the raw model arrays (NOT taken from mj_actuatorDamping):
            # a damper b on an actuator of gear g acts on its joint / tendon as b*g^2; mjTRN_JOINT = 0, JOINTINPARENT = 1, TENDON = 3
            def inherited(kind, idx):
                return [(g, dmp, dp) for (trn, tid, g, dmp, dp) in actu if tid == idx and ((trn in (0, 1)) if kind == "joint" else trn == 3)]

            def effective(b0, p0, acts):
                b, p = 0.0, list(p0)
                for g, dmp, dp in acts:
                    b += dmp * (g * g)
                    p = [p[0] + dp[0] * (g * g), p[1] + dp[1] * (g * g)]
                return b0 + b, p
            dofs, dofacts = [], []
            for b0, p0, vel, agc, jid in rawdofs:
                acts_ = inherited("joint", jid)
                be, pe = effective(b0, p0, acts_)
                dofs.append((be, pe, vel, agc))
                dofacts.append((b0, p0, acts_))
                damped = [a_ for a_ in acts_ if a_[1] != 0 or any(a_[2])]
                if damped:
                    stats["dofs_with_actuator_damping"] += 1
                    if len(damped) >= 2:
                        stats["dofs_multi_actuator_damping"] += 1
                    if any(abs(a_[0]) != 1 for a_ in damped):
                        stats["actuator_damping_gear_not_1"] += 1
                    if any(a_[0] < 0 for a_ in damped):
                        stats["actuator_damping_gear_negative"] += 1
            tendons = []
            for i in range(nt):
                t = [fl(x) for x in lines[pos].split()[1:]]; pos += 1
                if len(t) != 10 + nv:
                    raise ValueError("tendon line")
                acts_ = inherited("tendon", i)
                be, pe = effective(t[3], t[4:6], acts_)
                if len([a_ for a_ in acts_ if a_[1] != 0 or any(a_[2])]) >= 2:
                    stats["tendons_multi_actuator_damping"] += 1
                tendons.append(dict(k=t[0], sp=t[1:3], b=be, dp=pe, b0=t[3], dp0=t[4:6], acts=acts_, len=t[6], vel=t[7], lo=t[8], hi=t[9], J=t[10:]))
            bodies = []
            for i in range(1, nb):
                t = [fl(x) for x in lines[pos].split()[1:]]; pos += 1
                if len(t) != 2 + 3 * nv:
                    raise ValueError("body line")
                bodies.append((t[0], t[1], [(t[2 + v], t[2 + nv + v], t[2 + 2 * nv + v]) for v in range(nv)]))
            vecs = {}
            for tag in ("S", "P", "G", "Q", "BIAS"):
                t = lines[pos].split(); pos += 1
                if t[0] != tag or len(t) != nv + 1:
                    raise ValueError("vector " + tag)
                vecs[tag] = [fl(x) for x in t[1:]]
            t = lines[pos].split(); pos += 1
            E = fl(t[1]); FD = [fl(x) for x in t[3:]]
            if len(FD) != nv:
                raise ValueError("FD")
            stats["models"] += 1
            case = {"request": "M %d %d %d %d" % r}
            has_gc = bool(gc_on and any(b[1] != 0 for b in bodies))
            oracle(ctx, case, nv, es, ed, gc_on, g1, rest, gravity, joints, dofs, tendons, bodies, vecs, E, FD, has_gc, stats)
            jl = []
            for jt, dof, k, poly, q, qs in joints:
                if jt >= 2:
                    jl.append("(JScalar %d%%nat %s %s %s %s)" % (dof, ff(k), F.flist(poly), ff(q[0]), ff(qs[0])))
                elif jt == 1:
                    jl.append("(JBall %d%%nat %s %s %s %s)" % (dof, ff(k), F.flist(poly), tup(q), tup(qs)))
                else:
                    jl.append("(JFree %d%%nat %s %s %s %s %s %s)" % (dof, ff(k), F.flist(poly), tup(q[:3]), tup(qs[:3]), tup(q[3:]), tup(qs[3:])))
            mcases.append("(%d%%nat, %s, %s, [%s], [%s], [%s], %s, [%s], %s, [%s], (%s, %s, %s, %s, %s))" % (
                nv, bb(es), bb(ed), "; ".join(jl),
                "; ".join("(%s, %s, %s, %s)" % (ff(b0), F.flist(p0), ff(d_[2]), alist(acts_)) for (b0, p0, acts_), d_ in zip(dofacts, dofs)),
                "; ".join("(%s, %s, (%s, %s, %s), (%s, %s, %s, %s), %s)" % (ff(t["k"]), F.flist(t["sp"]), ff(t["b0"]), F.flist(t["dp0"]), alist(t["acts"]),
                                                                         ff(t["len"]), ff(t["vel"]), ff(t["lo"]), ff(t["hi"]), F.flist(t["J"]))
                          for t in tendons),
                tup(gravity),
                "; ".join("(%s, %s, [%s])" % (ff(m_), ff(g), "; ".join(tup(c) for c in jac)) for m_, g, jac in (bodies if gc_on else [])),
                bb(has_gc), "; ".join(bb(a) for _, _, _, a in dofs),
                F.flist(vecs["S"]), F.flist(vecs["P"]), F.flist(vecs["G"]), F.flist(vecs["Q"]), ff(E)))
            mmeta.append(case)
        plits = []
        for (l, p, x, o) in pcases:
            t = lines[pos].split(); pos += 1
            f, pot = fl(t[1]), fl(t[2])
            plits.append("(%s, %s, %s, %s, %s, %s)" % (ff(l), F.flist(p), ff(x), bb(o), ff(f), ff(pot)))
            exp = pforce(l, p, x, o)
            xa = abs(x) if o else x
            epot = 0.5 * l * xa * xa + p[0] / 3 * xa ** 3 + p[1] / 4 * xa ** 4
            stats["law_checks"] += 1
            if not close(f, exp) or not close(pot, epot):
                ctx.violation("impl_violation", {"fn": "mju_polyForce/mju_polyPotential", "args": [l, p, x, o]}, expected=[exp, epot], observed=[f, pot],
                              theorem="C29_spring_is_gradient", signature={"site": "mju_polyForce", "class": "polynomial"})
    except (ValueError, IndexError) as e:
        ctx.broken.append(("correspondence", "driver c29_passive output not understood", "%s at line %d: %s" % (e, pos, lines[pos - 1][:300] if 0 < pos <= len(lines) else "")))
        return
    imp = "From Coq Require Import ZArith PrimFloat Bool.\nFrom MJV Require Import Lib.Num Lib.NumF Lib.FloatFn Model.Spatial Model.Passive.\n"
    fails = ctx.coq_eval("c29_model", imp, mcases, "chkM", pre=PRE, shard=30)
    for i in fails[:1]:
        ctx.violation("correspondence", mmeta[i], expected="Model/Passive.v at binary64 (qfrc_spring, qfrc_damper, qfrc_gravcomp, qfrc_passive, spring potential)",
                      observed="implementation output differs (tolerance 2^-30 scaled)", found_input=False, theorem="correspondence c29 mj_passive",
                      signature={"site": "mj_passive"}, note="implementation and Coq model disagree; the law oracle did not flag this input")
    pf = ctx.coq_eval("c29_poly", imp, plits, "chkP", pre=PRE, shard=400)
    for i in pf[:1]:
        ctx.violation("correspondence", {"fn": "mju_polyForce/mju_polyPotential", "args": list(pcases[i])}, expected="Model/Passive.v polyForce / polyPotential at binary64", observed="differs",
                      found_input=False, theorem="correspondence c29 polyForce", signature={"site": "mju_polyForce"})
    ctx.cov["evaluations"] = len(mcases) + len(plits)
    ctx.cov["distinct_nontrivial"] = stats["spring_joints"] + stats["damped_dofs"] + stats["tendons_active"] + stats["gravcomp_bodies"]
    ctx.cov["rule"] = ("one evaluation = one generated model state (mj_forward: qfrc_spring, qfrc_damper, qfrc_gravcomp, qfrc_passive, spring potential compared with the Coq model at binary64) or one polyForce/polyPotential call; "
                       "non-trivial = joints with a non-zero spring, dofs with non-zero damping, tendons with a non-zero spring or damper force, bodies with non-zero gravity compensation")
    ctx.cov["samples"] = [mmeta[0] if mmeta else None, {"polyForce": list(pcases[0])}]
    ctx.cov["correspondence_disagreements"] = len(fails) + len(pf)
    ctx.cov["support"]["stats"] = stats
    ctx.cov["explanation"] = ("theorems of Props/C29.v proved over R for all inputs; model tied to mj_passive / mj_energyPos on %d model states and to the polynomial helpers on %d calls; "
                              "law oracle: %d law checks, %d finite-difference gradient checks" % (len(mcases), len(plits), stats["law_checks"], stats["fd_checks"]))


def oracle(ctx, case, nv, es, ed, gc_on, g1, rest, gravity, joints, dofs, tendons, bodies, vecs, E, FD, has_gc, stats):
    S, P, G, Q, BIAS = vecs["S"], vecs["P"], vecs["G"], vecs["Q"], vecs["BIAS"]
    if not es:
        stats["spring_disabled"] += 1
    if not ed:
        stats["damper_disabled"] += 1
    if not es and not ed:
        return
    # 1. spring force = - gradient of the spring potential (finite differences of the implementation's own energy)
    scale = max([abs(x) for x in S] + [abs(E)] + [1.0])
    for v in range(nv):
        stats["fd_checks"] += 1
        if abs(S[v] + FD[v]) > 2e-5 * scale:
            ctx.violation("impl_violation", dict(case, dof=v), expected="qfrc_spring = -dE_spring/dq = %r (centred finite difference of mj_energyPos, eps 1e-6)" % (-FD[v]), observed=S[v],
                          theorem="C29_spring_is_gradient", signature={"site": "mj_springdamper", "class": "spring-gradient"})
            break
    # 2. recompute the scalar laws
    exp_s = [0.0] * nv
    exp_d = [0.0] * nv
    covered = [True] * nv
    for jt, dof, k, poly, q, qs in joints:
        if k != 0 or any(poly):
            stats["spring_joints"] += 1
            if any(poly):
                stats["poly_springs"] += 1
        if jt >= 2:
            x = q[0] - qs[0]
            if es:
                exp_s[dof] = -x * pforce(k, poly, x, 0)
        else:
            n = 6 if jt == 0 else 3
            if k != 0 or any(poly):
                stats["ball_free_springs"] += 1
                for i in range(n):
                    covered[dof + i] = False
    for v, (b, poly, vel, a) in enumerate(dofs):
        if b != 0 or any(poly):
            stats["damped_dofs"] += 1
        if ed:
            exp_d[v] = -vel * pforce(b, poly, vel, 1)
        if a:
            stats["actgravcomp_dofs"] += 1
    for t in tendons:
        x = t["len"] - t["hi"] if t["len"] > t["hi"] else (t["len"] - t["lo"] if t["len"] < t["lo"] else 0.0)
        if x == 0:
            stats["deadband_inside"] += 1
        fs = -x * pforce(t["k"], t["sp"], x, 0) if es else 0.0
        fd = -t["vel"] * pforce(t["b"], t["dp"], t["vel"], 1) if ed else 0.0
        if fs or fd:
            stats["tendons_active"] += 1
        for v in range(nv):
            exp_s[v] += t["J"][v] * fs
            exp_d[v] += t["J"][v] * fd
    for v in range(nv):
        stats["law_checks"] += 1
        if covered[v] and not close(S[v], exp_s[v]):
            ctx.violation("impl_violation", dict(case, dof=v), expected="qfrc_spring = -x*(k + p0 x + p1 x^2) with x = q - qpos_spring, plus tendon springs = %r" % exp_s[v], observed=S[v],
                          theorem="C29_spring_is_gradient", signature={"site": "mj_springdamper", "class": "spring-law"})
            break
        if not close(P[v], exp_d[v]):
            ctx.violation("impl_violation", dict(case, dof=v), expected="qfrc_damper = -v*(b + p0|v| + p1 v^2) with b, p = own coefficients + sum over the actuators on the joint of coefficient*gear^2, plus tendon dampers = %r" % exp_d[v], observed=P[v],
                          theorem="C29_damping_dissipates", signature={"site": "mj_springdamper", "class": "damper-law"})
            break
    # 3. damping never adds energy (non-negative coefficients)
    nonneg = all(b >= 0 and p[0] >= 0 and p[1] >= 0 for b, p, _, _ in dofs) and all(t["b"] >= 0 and t["dp"][0] >= 0 and t["dp"][1] >= 0 for t in tendons)
    power = sum(P[v] * dofs[v][2] for v in range(nv))
    if nonneg and power > 1e-12 * (1 + sum(abs(x) for x in P)):
        ctx.violation("impl_violation", case, expected="damping power qvel . qfrc_damper <= 0", observed=power, theorem="C29_damping_dissipates",
                      signature={"site": "mj_springdamper", "class": "damping-power"})
    # 4. rest
    if rest:
        stats["rest_states"] += 1
        inside = all(t["lo"] <= t["len"] <= t["hi"] for t in tendons)
        kmax = max([abs(j_[2]) for j_ in joints] + [abs(t["k"]) for t in tendons] + [1.0])
        tiny = 1e-12 * kmax       # a stored unit quaternion is unit only to rounding: the ball-joint deflection is ~1e-16, not 0
        if inside and (any(abs(x) > tiny for x in S) or any(P)):
            ctx.violation("impl_violation", case, expected="zero qfrc_spring and qfrc_damper at qpos = qpos_spring, qvel = 0 with every tendon inside its dead band", observed={"spring": S, "damper": P},
                          theorem="C29_rest_system", signature={"site": "mj_springdamper", "class": "rest"})
        if inside and not has_gc and any(abs(x) > tiny for x in Q):
            ctx.violation("impl_violation", case, expected="zero qfrc_passive at rest", observed=Q, theorem="C29_rest_system", signature={"site": "mj_passive", "class": "rest"})
    # 5. gravity compensation
    exp_g = [0.0] * nv
    if gc_on:
        for m_, g, jac in bodies:
            if g:
                stats["gravcomp_bodies"] += 1
                f = [-(m_ * g) * gravity[i] for i in range(3)]
                for v in range(nv):
                    exp_g[v] += jac[v][0] * f[0] + jac[v][1] * f[1] + jac[v][2] * f[2]
    for v in range(nv):
        stats["law_checks"] += 1
        if not close(G[v], exp_g[v]):
            ctx.violation("impl_violation", dict(case, dof=v), expected="qfrc_gravcomp = sum_b jacp_b^T (-gravcomp_b * mass_b * gravity) = %r" % exp_g[v], observed=G[v],
                          theorem="C29_gravcomp_force", signature={"site": "mj_gravcomp", "class": "gravcomp"})
            break
        exp_q = S[v] + P[v] + (G[v] if (has_gc and not dofs[v][3]) else 0.0)
        if not close(Q[v], exp_q):
            ctx.violation("impl_violation", dict(case, dof=v), expected="qfrc_passive = spring + damper + gravcomp (unless routed through actuators) = %r" % exp_q, observed=Q[v],
                          theorem="C29_rest_system", signature={"site": "mj_passive", "class": "sum"})
            break
    if g1 and gc_on:
        stats["g1_states"] += 1
        sc = max([abs(x) for x in BIAS] + [1.0])
        for v in range(nv):
            if abs(G[v] - BIAS[v]) > 1e-9 * sc:
                ctx.violation("impl_violation", dict(case, dof=v), expected="with gravcomp = 1 on every body and zero velocity, qfrc_gravcomp cancels gravity: equals qfrc_bias = %r" % BIAS[v], observed=G[v],
                              theorem="C29_gravcomp_cancels", signature={"site": "mj_gravcomp", "class": "cancel"})
                break
