"""Shared machinery of the C12 / C11 checks: configurations of constraint rows, the raw driver
protocol of harness/drivers/c12_update.c, oracles on implementation output and the Coq literals
for Model/ConstraintUpdate.v."""
import math
import framework as F

EPS = 2.220446049250313e-16
ELL, PYR = 7, 6
ST = {0: "satisfied", 1: "quadratic", 2: "linearneg", 3: "linearpos", 4: "cone"}


def hx(x):
    return float(x).hex()


# --------------------------------------------------------------------------- configurations
def blocks_of(cfg):
    """row blocks [(kind, start, dim, contact index or None)] (kind: eq, fric, uni, ell)."""
    out = []
    i = 0
    ne, nf, nefc = cfg["ne"], cfg["nf"], cfg["nefc"]
    while i < nefc:
        if i < ne:
            out.append(("eq", i, 1, None)); i += 1
        elif i < ne + nf:
            out.append(("fric", i, 1, None)); i += 1
        elif cfg["type"][i] != ELL:
            out.append(("uni", i, 1, None)); i += 1
        else:
            c = cfg["id"][i]
            dim = cfg["con"][c]["dim"]
            out.append(("ell", i, dim, c)); i += dim
    return out


def finish_cfg(cfg):
    cfg["nefc"] = len(cfg["D"])
    cfg["blocks"] = blocks_of(cfg)
    return cfg


def empty_config():
    return finish_cfg({"ne": 0, "nf": 0, "D": [], "R": [], "fl": [], "type": [], "id": [], "con": [], "related": True, "src": "empty"})


def gen_configs(ctx, exe, s0, s1):
    rc, out, err = ctx.run(exe, "", args=["gen", str(s0), str(s1)])
    if rc != 0:
        ctx.broken.append(("correspondence", "driver c12_update gen failed", "rc=%s %s" % (rc, err[-500:])))
        return None
    cfgs = []
    for line in out.split("\n"):
        t = line.split()
        if not t:
            continue
        if t[0] == "E":
            if [int(x) for x in t[1:]] != [6, 7, 0, 1, 2, 3, 4]:
                ctx.broken.append(("correspondence", "enum values of mjtConstraint/mjtConstraintState changed", line))
                return None
            continue
        if t[0] != "M":
            continue
        seed, feat, nb, step, cone = int(t[1]), int(t[2]), int(t[3]), int(t[4]), int(t[5])
        impratio = float.fromhex(t[6])
        solver, ne, nf, nefc, ncon = int(t[7]), int(t[8]), int(t[9]), int(t[10]), int(t[11])
        p = 12
        def nums(n):
            nonlocal p
            v = [float.fromhex(x) for x in t[p:p + n]]; p += n
            return v
        def ints(n):
            nonlocal p
            v = [int(x) for x in t[p:p + n]]; p += n
            return v
        D, R, fl, jar = nums(nefc), nums(nefc), nums(nefc), nums(nefc)
        tp, idd = ints(nefc), ints(nefc)
        con = []
        for c in range(ncon):
            dim = ints(1)[0]; mu = nums(1)[0]; fr = nums(5); adr = ints(1)[0]
            con.append({"dim": dim, "mu": mu, "fr": fr, "adr": adr})
        cfgs.append(finish_cfg({"ne": ne, "nf": nf, "D": D, "R": R, "fl": fl, "type": tp, "id": idd, "con": con, "jar": jar,
                                "related": True, "cone": cone, "impratio": impratio,
                                "src": "mjgen seed=%d feat=%d nbody=%d step=%d" % (seed, feat, nb, step)}))
    return cfgs


def c_sumsq(v):
    """mju_dot(v, v, n), non-AVX branch, in the same order of operations."""
    r = [0.0, 0.0, 0.0, 0.0]
    i = 0
    n = len(v)
    while i <= n - 4:
        for k in range(4):
            r[k] += v[i + k] * v[i + k]
        i += 4
    res = (r[0] + r[2]) + (r[1] + r[3])
    m = n - i
    if m == 3:
        res += v[i] * v[i] + v[i + 1] * v[i + 1] + v[i + 2] * v[i + 2]
    elif m == 2:
        res += v[i] * v[i] + v[i + 1] * v[i + 1]
    elif m == 1:
        res += v[i] * v[i]
    return res


def synth_config(rng, related=True):
    """random row composition with raw arrays; related: D, R, mu as mj_makeImpedance sets them."""
    cfg = {"D": [], "R": [], "fl": [], "type": [], "id": [], "con": [], "related": related, "src": "synthetic"}
    def rnd_R():
        return 10 ** rng.uniform(-4, 1)
    def row(tp, idd, R=None, fl=0.0, D=None):
        R = rnd_R() if R is None else R
        cfg["R"].append(R)
        cfg["D"].append((1.0 / R if related else 10 ** rng.uniform(-1, 4)) if D is None else D)
        cfg["fl"].append(fl); cfg["type"].append(tp); cfg["id"].append(idd)
    cfg["ne"] = rng.choice([0, 0, 1, 2, 3])
    cfg["nf"] = rng.choice([0, 1, 1, 2, 3])
    for _ in range(cfg["ne"]):
        row(0, rng.randrange(4))
    for _ in range(cfg["nf"]):
        row(rng.choice([1, 2]), rng.randrange(4), fl=10 ** rng.uniform(-2, 1))
    for _ in range(rng.choice([1, 1, 2, 3, 4])):
        kind = rng.choice(["limit", "frictionless", "pyr", "ell", "ell", "ell"])
        if kind == "limit":
            row(rng.choice([3, 4]), rng.randrange(4))
            continue
        fr = [rng.uniform(0.2, 1.2), 0.0, 10 ** rng.uniform(-3, -1), 10 ** rng.uniform(-4, -1), 0.0]
        fr[1] = fr[0] if rng.random() < 0.6 else rng.uniform(0.2, 1.2)
        fr[4] = fr[3] if rng.random() < 0.6 else 10 ** rng.uniform(-4, -1)
        c = len(cfg["con"])
        if kind == "frictionless":
            cfg["con"].append({"dim": 1, "mu": 0.0, "fr": fr, "adr": len(cfg["D"])})
            row(5, c)
            continue
        dim = rng.choice([3, 3, 4, 6]) if (kind == "pyr" or rng.random() < 0.85) else rng.choice([2, 5])
        impratio = rng.choice([1.0, 1.0, 0.3, 4.5, 17.0])
        R0 = rnd_R()
        nice = rng.random() < 0.5
        if nice:      # powers of two: zone boundaries can be hit exactly in floating point
            mu = rng.choice([0.25, 0.5, 1.0, 2.0])
            fr = [2.0 ** rng.randrange(-8, 2) for _ in range(5)]
            R0 = 2.0 ** rng.randrange(-12, 3)
            R1 = R0 * mu * mu / (fr[0] * fr[0])
        else:
            R1 = R0 / max(1e-15, impratio)
            mu = fr[0] * math.sqrt(R1 / R0)
        if not related:
            mu = rng.uniform(0.05, 3.0)
        cfg["con"].append({"dim": dim, "mu": mu, "fr": fr, "adr": len(cfg["D"]), "nice": nice})
        if kind == "pyr":
            Rpy = 2 * mu * mu * R0
            for _ in range(2 * (dim - 1)):
                row(PYR, c, R=Rpy)
        else:
            row(ELL, c, R=R0)
            for j in range(1, dim):
                Rj = R1 if j == 1 else R1 * fr[0] * fr[0] / (fr[j - 1] * fr[j - 1])
                row(ELL, c, R=(Rj if related else None))
    return finish_cfg(cfg)


def gauss(rng, s=1.0):
    return rng.gauss(0.0, 1.0) * s


def random_jar(rng, cfg):
    jar = [0.0] * cfg["nefc"]
    for kind, i, dim, c in cfg["blocks"]:
        if kind in ("eq", "uni"):
            jar[i] = gauss(rng, 10 ** rng.uniform(-3, 1))
        elif kind == "fric":
            jar[i] = cfg["R"][i] * cfg["fl"][i] * rng.uniform(-3, 3)
        else:
            con = cfg["con"][c]
            mu, fr = con["mu"], con["fr"]
            s = 10 ** rng.uniform(-3, 1)
            Ut = [gauss(rng, s) for _ in range(dim - 1)]
            if rng.random() < 0.05:
                Ut = [0.0] * (dim - 1)
            Tn = math.sqrt(sum(u * u for u in Ut))
            z = rng.choice(["top", "mid", "mid", "bot", "any"])
            if z == "top":
                N = mu * Tn * (1 + rng.expovariate(1.0)) + (s if Tn == 0 else 0)
            elif z == "bot":
                N = -(Tn / mu) * (1 + rng.expovariate(1.0)) - (s if Tn == 0 else 0)
            elif z == "mid":
                lam = rng.random()
                N = lam * mu * Tn + (1 - lam) * (-Tn / mu)
            else:
                N = gauss(rng, s * 2)
            jar[i] = N / mu
            for j in range(1, dim):
                jar[i + j] = Ut[j - 1] / fr[j - 1]
    return jar


def boundary_jar(rng, cfg):
    """jar with (most) rows exactly or within rounding on a zone boundary."""
    jar = random_jar(rng, cfg)
    for kind, i, dim, c in cfg["blocks"]:
        if rng.random() < 0.2:
            continue
        if kind == "eq":
            jar[i] = rng.choice([0.0, -0.0, jar[i]])
        elif kind == "uni":
            jar[i] = rng.choice([0.0, -0.0, 5e-324, -5e-324])
        elif kind == "fric":
            R, fl = cfg["R"][i], cfg["fl"][i]
            jar[i] = rng.choice([(-R) * fl, R * fl, 0.0])
        else:
            con = cfg["con"][c]
            mu, fr = con["mu"], con["fr"]
            w = rng.choice(["top", "bot", "apex", "axis+", "axis-", "one-tangent"])
            if w == "apex":
                for j in range(dim):
                    jar[i + j] = 0.0
                continue
            if w in ("axis+", "axis-"):
                for j in range(1, dim):
                    jar[i + j] = 0.0
                jar[i] = abs(jar[i]) if w == "axis+" else -abs(jar[i])
                continue
            if w == "one-tangent":
                k = rng.randrange(1, dim)
                for j in range(1, dim):
                    if j != k:
                        jar[i + j] = 0.0
                w = rng.choice(["top", "bot"])
            U = [jar[i + j] * fr[j - 1] for j in range(1, dim)]
            Tn = math.sqrt(c_sumsq(U))
            if w == "top":
                jar[i] = Tn                 # N = Tn*mu = mu*Tn exactly
            else:
                jar[i] = -Tn / (mu * mu)    # exact when mu is a power of two
    return jar


# --------------------------------------------------------------------------- raw driver protocol
def raw_line(cfg, jar, flgH):
    t = [str(cfg["ne"]), str(cfg["nf"]), str(cfg["nefc"]), str(len(cfg["con"])), str(int(flgH))]
    for arr in (cfg["D"], cfg["R"], cfg["fl"], jar):
        t += [hx(x) for x in arr]
    t += [str(x) for x in cfg["type"]] + [str(x) for x in cfg["id"]]
    for c in cfg["con"]:
        t += [str(c["dim"]), hx(c["mu"])] + [hx(x) for x in c["fr"]]
    return " ".join(t)


def parse_raw(line, nefc):
    t = line.split()
    cost = float.fromhex(t[0])
    force = [float.fromhex(x) for x in t[1:1 + nefc]]
    state = [int(x) for x in t[1 + nefc:1 + 2 * nefc]]
    p = 1 + 2 * nefc
    nH = int(t[p]); p += 1
    H = []
    for _ in range(nH):
        dim = int(t[p]); p += 1
        H.append((dim, [float.fromhex(x) for x in t[p:p + dim * dim]])); p += dim * dim
    return {"cost": cost, "force": force, "state": state, "H": H}


def run_raw(ctx, exe, items):
    """items: [(cfg, jar, flgH)] -> list of outputs (dicts), or None when the driver fails."""
    if not items:
        return []
    inp = "\n".join(raw_line(c, j, f) for c, j, f in items) + "\n"
    rc, out, err = ctx.run(exe, inp, args=["raw"])
    lines = out.split("\n")
    if rc != 0 or len(lines) < len(items):
        ctx.broken.append(("correspondence", "driver c12_update raw failed", "rc=%s %s" % (rc, err[-500:])))
        return None
    try:
        return [parse_raw(l, it[0]["nefc"]) for l, it in zip(lines, items)]
    except (ValueError, IndexError) as e:
        ctx.broken.append(("correspondence", "driver c12_update raw: unparsable output", str(e)))
        return None


def case_json(c):
    cfg = c["cfg"]
    return {"src": cfg.get("src"), "ne": cfg["ne"], "nf": cfg["nf"], "nefc": cfg["nefc"], "D": [hx(x) for x in cfg["D"]],
            "R": [hx(x) for x in cfg["R"]], "floss": [hx(x) for x in cfg["fl"]], "type": cfg["type"], "id": cfg["id"],
            "contacts": [{"dim": k["dim"], "mu": hx(k["mu"]), "friction": [hx(x) for x in k["fr"]]} for k in cfg["con"]],
            "jar": [hx(x) for x in c["jar"]], "flg_coneHessian": int(c["flgH"]), "tag": c.get("tag")}


def out_json(o):
    return {"cost": hx(o["cost"]), "force": [hx(x) for x in o["force"]], "state": o["state"]}


def case_from_json(j):
    cfg = {"ne": j["ne"], "nf": j["nf"], "D": [float.fromhex(x) for x in j["D"]], "R": [float.fromhex(x) for x in j["R"]],
           "fl": [float.fromhex(x) for x in j["floss"]], "type": j["type"], "id": j["id"],
           "con": [{"dim": k["dim"], "mu": float.fromhex(k["mu"]), "fr": [float.fromhex(x) for x in k["friction"]]} for k in j["contacts"]],
           "related": True, "src": j.get("src", "replay")}
    return {"cfg": finish_cfg(cfg), "jar": [float.fromhex(x) for x in j["jar"]], "flgH": j.get("flg_coneHessian", 1), "tag": j.get("tag", "replay")}


def zone_histogram(c):
    h = {}
    if "out" not in c:
        return h
    for kind, i, dim, cc in c["cfg"]["blocks"]:
        k = "%s%s/%s" % (kind, dim if kind == "ell" else "", ST.get(c["out"]["state"][i], "?"))
        h[k] = h.get(k, 0) + 1
    return h


class Stats:
    def __init__(self):
        self.evals = 0
        self.n = {}

    def add(self, k, v=1):
        self.n[k] = self.n.get(k, 0) + v

    def as_dict(self):
        return dict(sorted(self.n.items()))

    def total(self):
        return sum(v for k, v in self.n.items() if not k.endswith("(skipped)") and not k.endswith("(weak)"))


# --------------------------------------------------------------------------- relations established by mj_makeImpedance
def check_relations(ctx, cfgs, theorem):
    """hypotheses of C12_C1 / C12_gradient on engine-produced data: friction rows D*R = 1, R > 0, floss >= 0;
    elliptic blocks mu > 0 and D[i+j]*mu^2 = D[i]*friction[j-1]^2."""
    nchk = 0
    for cfg in cfgs:
        for kind, i, dim, c in cfg["blocks"]:
            bad = None
            if cfg["D"][i] <= 0 or not math.isfinite(cfg["D"][i]):
                bad = "efc_D[%d] = %r is not positive" % (i, cfg["D"][i])
            if kind == "fric":
                D, R, fl = cfg["D"][i], cfg["R"][i], cfg["fl"][i]
                if not (R > 0 and fl >= 0 and abs(D * R - 1) <= 1e-12):
                    bad = "friction row %d: D*R-1 = %r, R = %r, floss = %r" % (i, D * R - 1, R, fl)
            elif kind == "ell":
                con = cfg["con"][c]
                mu, fr = con["mu"], con["fr"]
                if not mu > 0:
                    bad = "contact %d: mu = %r" % (c, mu)
                for j in range(1, dim):
                    a, b = cfg["D"][i + j] * mu * mu, cfg["D"][i] * fr[j - 1] * fr[j - 1]
                    if not abs(a - b) <= 1e-11 * max(abs(a), abs(b)):
                        bad = "elliptic block at row %d: D[i+%d]*mu^2 = %r but D[i]*friction[%d]^2 = %r" % (i, j, a, j - 1, b)
            nchk += 1
            if bad:
                ctx.violation("impl_violation", {"src": cfg["src"], "row": i}, expected="relations among efc_D, efc_R, contact.mu, contact.friction that make the cost C1",
                              observed=bad, theorem=theorem, signature={"site": "mj_makeImpedance", "oracle": "relations", "kind": kind})
                return nchk
    ctx.cov.setdefault("support", {})["relation_checks_on_engine_data"] = nchk
    return nchk


# --------------------------------------------------------------------------- oracles on implementation output
def curvature_bound(cfg, i):
    """upper bound of the second derivative of the cost along coordinate i (2*D_i covers the elliptic
    middle zone when the engine relations hold)."""
    return 2.0 * abs(cfg["D"][i])


def coord_scale(cfg, jar, blk, i):
    v = coord_scale0(cfg, jar, blk, i)
    return v if v >= 1e-9 else 1e-3


def coord_scale0(cfg, jar, blk, i):
    kind, s, dim, c = blk
    if kind == "fric":
        return max(abs(jar[i]), cfg["R"][i] * cfg["fl"][i])
    if kind == "ell":
        con = cfg["con"][c]
        U = [jar[s] * con["mu"]] + [jar[s + j] * con["fr"][j - 1] for j in range(1, dim)]
        nU = math.sqrt(sum(u * u for u in U))
        sc = con["mu"] if i == s else con["fr"][i - s - 1]
        return max(abs(jar[i]), nU / sc if sc > 0 else 0.0)
    return abs(jar[i])


def block_of(cfg, i):
    for b in cfg["blocks"]:
        if b[1] <= i < b[1] + b[2]:
            return b
    return None


def oracle_gradient(ctx, exe, cases, stats, rng, per_case=4):
    """central finite differences of the returned cost against the returned force."""
    items, meta = [], []
    for ci, c in enumerate(cases):
        cfg, jar, o = c["cfg"], c["jar"], c["out"]
        n = cfg["nefc"]
        if n == 0 or not math.isfinite(o["cost"]):
            continue
        idx = list(range(n)) if n <= per_case else rng.sample(range(n), per_case)
        for i in idx:
            blk = block_of(cfg, i)
            K = curvature_bound(cfg, i)
            sc = coord_scale(cfg, jar, blk, i)
            if sc == 0:
                sc = 1e-3
            h = max(1e-6 * sc, math.sqrt(8 * EPS * abs(o["cost"]) / K) if K > 0 else 0.0)
            jp = list(jar); jp[i] = jar[i] + h
            jm = list(jar); jm[i] = jar[i] - h
            hh = (jp[i] - jm[i]) / 2
            items.append((cfg, jp, 0)); items.append((cfg, jm, 0))
            meta.append((ci, i, hh, K, blk))
    outs = run_raw(ctx, exe, items)
    if outs is None:
        return
    stats.evals += len(items)
    for k, (ci, i, h, K, blk) in enumerate(meta):
        c = cases[ci]
        o = c["out"]
        cp, cm = outs[2 * k]["cost"], outs[2 * k + 1]["cost"]
        fd = (cp - cm) / (2 * h)
        f = o["force"][i]
        S = max(abs(cp), abs(cm), abs(o["cost"]))
        tol = K * h + 8 * EPS * S / h + 1e-9 * abs(f) + 1e-300
        ref = max(abs(f), abs(c["cfg"]["D"][i] * c["jar"][i]))
        key = "gradient %s%s/%s" % (blk[0], blk[2] if blk[0] == "ell" else "", ST.get(o["state"][i], "?"))
        if not (abs(fd + f) <= tol):
            ctx.violation("impl_violation", dict(case_json(c), coordinate=i), expected="efc_force[i] = -d cost / d jar[i]  (|fd + force| <= %.3g)" % tol,
                          observed={"central_difference": fd, "h": h, "efc_force_i": f, "cost_plus": hx(cp), "cost_minus": hx(cm), "state": o["state"][i]},
                          theorem="C12_gradient", signature={"site": "mj_constraintUpdate_impl", "oracle": "gradient", "kind": blk[0]})
            stats.add(key + " FAILED")
        elif ref > 0 and tol <= 1e-3 * ref:
            stats.add(key)
        elif ref == 0:
            stats.add(key)
        else:
            stats.add(key + " (weak)")


def oracle_convexity(ctx, exe, cases, stats, rng):
    """midpoint convexity of the returned cost on pairs of residual vectors of the same composition."""
    by = {}
    for c in cases:
        by.setdefault(id(c["cfg"]), []).append(c)
    items, meta = [], []
    for cs in by.values():
        if len(cs) < 2 or cs[0]["cfg"]["nefc"] == 0:
            continue
        for _ in range(min(4, len(cs))):
            a, b = rng.sample(cs, 2)
            lam_mid = [(x + y) / 2 for x, y in zip(a["jar"], b["jar"])]
            items.append((a["cfg"], lam_mid, 0)); meta.append((a, b))
    outs = run_raw(ctx, exe, items)
    if outs is None:
        return
    stats.evals += len(items)
    for (a, b), o, it in zip(meta, outs, items):
        ca, cb, cm = a["out"]["cost"], b["out"]["cost"], o["cost"]
        if not all(math.isfinite(x) for x in (ca, cb, cm)):
            stats.add("convexity (skipped)")
            continue
        slack = 1e-10 * (abs(ca) + abs(cb)) + 1e-300
        if not (cm <= (ca + cb) / 2 + slack):
            ctx.violation("impl_violation", dict(case_json(a), jar_b=[hx(x) for x in b["jar"]]),
                          expected="cost((a+b)/2) <= (cost(a)+cost(b))/2", observed={"cost_a": hx(ca), "cost_b": hx(cb), "cost_mid": hx(cm), "excess": cm - (ca + cb) / 2},
                          theorem="C12_convex_scalar", signature={"site": "mj_constraintUpdate_impl", "oracle": "convexity"})
            stats.add("convexity FAILED")
        else:
            stats.add("convexity")


def oracle_continuity(ctx, exe, cases, stats, rng, per_case=6):
    """around points on zone boundaries: cost and every force of the block change by no more than the
    Lipschitz bound given by the curvature (a jump of cost or force across the boundary violates it)."""
    items, meta = [], []
    for ci, c in enumerate(cases):
        cfg, jar = c["cfg"], c["jar"]
        n = cfg["nefc"]
        if n == 0:
            continue
        idx = list(range(n)) if n <= per_case else rng.sample(range(n), per_case)
        for i in idx:
            blk = block_of(cfg, i)
            sc = coord_scale(cfg, jar, blk, i)
            if sc == 0:
                sc = 1e-3
            dl = 1e-7 * sc
            jp = list(jar); jp[i] = jar[i] + dl
            jm = list(jar); jm[i] = jar[i] - dl
            items.append((cfg, jp, 0)); items.append((cfg, jm, 0))
            meta.append((ci, i, (jp[i] - jm[i]) / 2, blk))
    outs = run_raw(ctx, exe, items)
    if outs is None:
        return
    stats.evals += len(items)
    for k, (ci, i, dl, blk) in enumerate(meta):
        c = cases[ci]
        cfg, o = c["cfg"], c["out"]
        op, om = outs[2 * k], outs[2 * k + 1]
        kind, s, dim, cc = blk
        key = "continuity %s%s" % (kind, dim if kind == "ell" else "")
        S = max(abs(op["cost"]), abs(om["cost"]))
        K = curvature_bound(cfg, i)
        bound_c = 2 * dl * (abs(o["force"][i]) + K * dl) * 1.5 + 16 * EPS * S + 1e-300
        bad = None
        if not abs(op["cost"] - om["cost"]) <= bound_c:
            bad = {"what": "cost", "plus": hx(op["cost"]), "minus": hx(om["cost"]), "bound": bound_c}
        for k2 in range(s, s + dim):
            Kk = 2.0 * math.sqrt(abs(cfg["D"][k2]) * abs(cfg["D"][i]))
            fmag = max(abs(op["force"][k2]), abs(om["force"][k2]))
            bound_f = 2 * dl * Kk * 1.5 + 1e-9 * fmag + 1e-300
            if not abs(op["force"][k2] - om["force"][k2]) <= bound_f:
                bad = {"what": "efc_force[%d]" % k2, "plus": hx(op["force"][k2]), "minus": hx(om["force"][k2]), "bound": bound_f}
        if bad:
            ctx.violation("impl_violation", dict(case_json(c), coordinate=i, delta=dl), expected="cost and force continuous across the zone boundary",
                          observed=bad, theorem="C12_C1", signature={"site": "mj_constraintUpdate_impl", "oracle": "continuity", "kind": kind})
            stats.add(key + " FAILED")
        else:
            stats.add(key)


def oracle_hessian(ctx, exe, cases, stats, rng, max_blocks=400):
    """cone Hessian H against finite differences of the returned force (middle zone), with a second
    step size to estimate the truncation error; also symmetry."""
    items, meta = [], []
    nb = 0
    for ci, c in enumerate(cases):
        cfg, jar, o = c["cfg"], c["jar"], c["out"]
        hi = 0
        for kind, s, dim, cc in cfg["blocks"]:
            if kind != "ell" or o["state"][s] != 4:
                continue
            if hi >= len(o["H"]):
                break
            Hd, H = o["H"][hi]; hi += 1
            if nb >= max_blocks:
                continue
            nb += 1
            for j in range(dim):
                sc = coord_scale(cfg, jar, (kind, s, dim, cc), s + j)
                h = 1e-5 * sc
                for hh in (h, h / 2):
                    jp = list(jar); jp[s + j] += hh
                    jm = list(jar); jm[s + j] -= hh
                    items.append((cfg, jp, 0)); items.append((cfg, jm, 0))
                meta.append((ci, s, dim, j, h, H))
    outs = run_raw(ctx, exe, items)
    if outs is None:
        return
    stats.evals += len(items)
    for k, (ci, s, dim, j, h, H) in enumerate(meta):
        c = cases[ci]
        o4 = outs[4 * k:4 * k + 4]
        if any(x["state"][s] != 4 for x in o4):
            stats.add("hessian (skipped)")
            continue
        Hs = max(abs(x) for x in H)
        for r in range(dim):
            fd1 = -(o4[0]["force"][s + r] - o4[1]["force"][s + r]) / (2 * h)
            fd2 = -(o4[2]["force"][s + r] - o4[3]["force"][s + r]) / h
            fmag = max(abs(x["force"][s + r]) for x in o4)
            tol = 4 * abs(fd1 - fd2) + 64 * EPS * fmag / h + 1e-7 * Hs
            hv = H[r * dim + j]
            if not (abs(hv - fd2) <= tol) or not (abs(hv - H[j * dim + r]) <= 1e-12 * Hs):
                ctx.violation("impl_violation", dict(case_json(c), block_start=s, row=r, col=j), expected="contact.H[row][col] = -d efc_force[row] / d jar[col] (tol %.3g)" % tol,
                              observed={"H": hv, "H_transposed": H[j * dim + r], "finite_difference": fd2}, theorem="C12_hessian",
                              signature={"site": "mj_constraintUpdate_impl", "oracle": "hessian"})
                stats.add("hessian FAILED")
                break
        else:
            stats.add("hessian ell%d" % dim)


def oracle_sweep(ctx, exe, cases, stats, rng, max_blocks=300, npts=21):
    """sweeps of one coordinate of an elliptic block across all three zones (normal coordinate from deep in the
    bottom zone to deep in the top zone; one tangential coordinate through zero): the returned cost must be
    discretely convex along the sweep (non-negative second differences) and the returned force must be monotone
    (its negative is the derivative of a convex function).  A misplaced zone threshold or a jump of cost or force
    anywhere on the sweep violates this."""
    items, meta = [], []
    nb = 0
    for ci, c in enumerate(cases):
        cfg, jar = c["cfg"], c["jar"]
        ells = [b for b in cfg["blocks"] if b[0] == "ell"]
        if not ells or nb >= max_blocks:
            continue
        kind, s, dim, cc = rng.choice(ells)
        con = cfg["con"][cc]
        mu, fr = con["mu"], con["fr"]
        U = [jar[s + j] * fr[j - 1] for j in range(1, dim)]
        Tn = math.sqrt(sum(u * u for u in U))
        if not (Tn > 0 and mu > 0):
            continue
        nb += 1
        big = max(mu, 1.0 / mu, 1.0)
        # normal coordinate: N from -3*T*big to 3*T*big
        lo, hi = -3 * Tn * big / mu, 3 * Tn * big / mu
        for coord, rngab in ((s, (lo, hi)), (s + rng.randrange(1, dim), None)):
            if rngab is None:
                j = coord - s
                w = 3 * max(Tn, abs(jar[s] * mu) * big) / fr[j - 1]
                a, b = -w, w
            else:
                a, b = rngab
            grid = [a + (b - a) * k / (npts - 1) for k in range(npts)]
            for g in grid:
                jj = list(jar); jj[coord] = g
                items.append((cfg, jj, 0))
            meta.append((ci, coord, grid, s, dim))
    outs = run_raw(ctx, exe, items)
    if outs is None:
        return
    stats.evals += len(items)
    p = 0
    for ci, coord, grid, s, dim in meta:
        c = cases[ci]
        os_ = outs[p:p + len(grid)]; p += len(grid)
        cs = [o["cost"] for o in os_]
        fs = [o["force"][coord] for o in os_]
        cm = max(abs(x) for x in cs)
        fm = max(abs(x) for x in fs)
        bad = None
        for k in range(1, len(grid) - 1):
            d2 = cs[k - 1] - 2 * cs[k] + cs[k + 1]
            if not d2 >= -1e-9 * (cm + 1e-300):
                bad = {"what": "cost second difference", "at": grid[k], "value": d2, "costs": [hx(x) for x in cs[k - 1:k + 2]]}
                break
        if bad is None:
            for k in range(len(grid) - 1):
                if not fs[k + 1] <= fs[k] + 1e-9 * (fm + 1e-300):
                    bad = {"what": "force not monotone", "between": [grid[k], grid[k + 1]], "forces": [hx(fs[k]), hx(fs[k + 1])]}
                    break
        key = "sweep ell%d %s" % (dim, "normal" if coord == s else "tangential")
        if bad:
            ctx.violation("impl_violation", dict(case_json(c), coordinate=coord, grid=[hx(g) for g in grid]),
                          expected="cost convex and force non-increasing along a sweep of one coordinate through all zones", observed=bad,
                          theorem="C12_convex / C12_C1_force", signature={"site": "mj_constraintUpdate_impl", "oracle": "sweep"})
            stats.add(key + " FAILED")
        else:
            stats.add(key)


# --------------------------------------------------------------------------- Coq literals / correspondence
def fl(x):
    return F.fhex(x)


def coq_case(c):
    cfg, o = c["cfg"], c["out"]
    con = "[" + "; ".join("(%d%%Z, %s, [%s])" % (k["dim"], fl(k["mu"]), "; ".join(fl(x) for x in k["fr"])) for k in cfg["con"]) + "]"
    rows = "[" + "; ".join("(%s, %s, %s, %d%%Z, %s%%Z)" % (fl(cfg["D"][i]), fl(cfg["R"][i]), fl(cfg["fl"][i]), cfg["type"][i],
                                                         ("(%d)" % cfg["id"][i]) if cfg["id"][i] < 0 else str(cfg["id"][i]))
                           for i in range(cfg["nefc"])) + "]"
    jar = "[" + "; ".join(fl(x) for x in c["jar"]) + "]"
    res = "(%s, [%s], [%s], [%s])" % (fl(o["cost"]), "; ".join(fl(x) for x in o["force"]), "; ".join("%d%%Z" % s for s in o["state"]),
                                      "; ".join("[" + "; ".join(fl(x) for x in H) + "]" for _, H in o["H"]))
    strict = "false" if c.get("tag") == "boundary" else "true"
    return "(%s, %d%%Z, %d%%Z, (%s : list (Z*float*list float)), (%s : list (float*float*float*Z*Z)), (%s : list float), (%s : float * list float * list Z * list (list float)), %s)" % (
        "true" if c["flgH"] else "false", cfg["ne"], cfg["nf"], con, rows, jar, res, strict)


COQ_IMPORTS = ("From Coq Require Import ZArith List Bool PrimFloat.\nFrom MJV Require Import Lib.Eqb Lib.Num Lib.NumF Model.ConstraintUpdate.\n"
               "Open Scope float_scope.")
COQ_PRE = """
Definition tol := 0x1p-30%float.
Fixpoint hs_close (a b : list (list float)) : bool :=
  match a, b with
  | nil, nil => true
  | x :: a', y :: b' => andb (fclose_list tol x y) (hs_close a' b')
  | _, _ => false
  end.
Definition chk (c : bool * Z * Z * list (Z*float*list float) * list (float*float*float*Z*Z) * list float *
                    (float * list float * list Z * list (list float)) * bool) : bool :=
  match c with (flgH, ne, nf, con, rows, jar, (cost, fs, sts, hs), strict) =>
    match constraint_update (T:=float) flgH ne nf con rows jar with
    | Some (cost', fs', sts', hs') =>
        andb (fclose tol cost cost') (andb (fclose_list tol fs fs')
          (if zlist_eqb sts sts' then hs_close hs hs' else negb strict))
    | None => false
    end
  end.
"""


def correspond(ctx, name, cases):
    lits = [coq_case(c) for c in cases]
    return ctx.coq_eval(name, COQ_IMPORTS, lits, "chk", pre=COQ_PRE, shard=150)


# --------------------------------------------------------------------------- mj_makeImpedance (second loop) against the model
IMP_PRE = """
Definition tol := 0x1p-40%float.
Definition chk_imp (c : bool * float * float * list float * Z * float * list float * list float) : bool :=
  match c with (ell, R0, impratio, fr, dim, mu, Rs, Ds) =>
    if ell then
      match ell_impedance (T:=float) R0 impratio fr (Z.to_nat dim) with
      | (mu', Rs', Ds') => andb (fclose tol mu mu') (andb (fclose_list tol Rs Rs') (fclose_list tol Ds Ds'))
      end
    else
      match pyr_impedance (T:=float) R0 impratio fr (Z.to_nat dim) with
      | (mu', Rpy) => andb (fclose tol mu mu') (fclose_list tol Rs (repeat Rpy (length Rs)))
      end
  end.
"""


def correspond_impedance(ctx, cfgs):
    """efc_R / efc_D / contact.mu of frictional contacts as produced by the engine vs ell_impedance / pyr_impedance."""
    lits, meta = [], []
    for cfg in cfgs:
        if "impratio" not in cfg:
            continue
        seen = set()
        for i in range(cfg["ne"] + cfg["nf"], cfg["nefc"]):
            tp, c = cfg["type"][i], cfg["id"][i]
            if tp not in (ELL, PYR) or c in seen:
                continue
            seen.add(c)
            con = cfg["con"][c]
            dim, mu, fr = con["dim"], con["mu"], con["fr"]
            n = dim if tp == ELL else 2 * (dim - 1)
            Rs, Ds = cfg["R"][i:i + n], cfg["D"][i:i + n]
            R0 = Rs[0] if tp == ELL else Rs[0] / (2 * mu * mu)
            lits.append("(%s, %s, %s, [%s], %d%%Z, %s, [%s], [%s])" % (
                "true" if tp == ELL else "false", fl(R0), fl(cfg["impratio"]), "; ".join(fl(x) for x in fr), dim, fl(mu),
                "; ".join(fl(x) for x in Rs), "; ".join(fl(x) for x in Ds)))
            meta.append({"src": cfg["src"], "row": i, "elliptic": tp == ELL, "dim": dim, "impratio": hx(cfg["impratio"]),
                         "friction": [hx(x) for x in fr], "mu": hx(mu), "R": [hx(x) for x in Rs], "D": [hx(x) for x in Ds]})
    if not lits:
        return 0, []
    fails = ctx.coq_eval("c12imp", COQ_IMPORTS, lits, "chk_imp", pre=IMP_PRE, shard=300)
    return len(lits), [meta[i] for i in fails]
