"""C28 — sensors report the quantities they are documented to measure."""
import math
import framework as F

META = {
    "id": "C28", "category": "proof", "design_ref": "DESIGN.md section 4, C28",
    "technique": "Coq proofs (induction over the sensor list; case analysis over R) of a Gallina model of the sensordata layout, of a stage writing through (adr, dim), of apply_cutoff and of the reference-frame kernels (Model/Sensor.v) + exact correspondence of the layout with compiled models and float correspondence of the cutoff / reference-frame kernels with engine_sensor.c + independent recomputation of every instantiable sensor on implementation output with canaries",
    "text": "filled in below", "note": "filled in below",
    "assumptions": [
        "theorems about cutoff and reference frames are about exact real arithmetic; IEEE rounding is outside every theorem (kernels are run at binary64 only for the tie)",
        "hand-written model Model/Sensor.v; the tie is differential testing on the models/states of this run",
        "the oracle recomputes sensor readings from other engine outputs (xpos/xmat/xipos, mj_jac, mj_jacDot, cfrc_int, contact forces, qpos/qvel/qacc): errors common to those and to the sensor code are not visible",
    ],
}
META["text"] = (
    "Proved in Coq, for all inputs, about Model/Sensor.v: (C28_slices) for the layout the compiler writes (sensor_adr = running sum of sensor_dim from 0, nsensordata = sum of the dims; user_model.cc) and EVERY list of non-negative dims: "
    "one address per sensor, every slice inside [0, nsensordata), slices of distinct sensors are disjoint, every index of sensordata lies in some slice; (C28_stage_writes_own_slice) a stage that writes sensor i only through (adr_i, dim_i), whatever values it "
    "writes and whatever they depend on, for every selection of sensors: length kept, the slice of every sensor not processed by the stage is untouched, and the slice of a processed sensor holds at the end exactly what that sensor wrote; "
    "(C28_cutoff, over R) apply_cutoff with its branches as written (cutoff <= 0; exempt types CONTACT and GEOMFROMTO; datatype REAL / POSITIVE / other): length kept, identity when cutoff <= 0, for exempt types and for axis/quaternion data, "
    "REAL data saturates to [-c, c] and is unchanged inside, POSITIVE data is min(c, x) (so non-negative readings land in [0, c]), idempotent in every case; "
    "(C28_frame_ref_partial, over R) the reference-frame kernels: FRAMEPOS with a reference R_ref^T (x - x_ref) equals the action of the inverse reference pose (C24 negPose / trnVecPose) and is the two-sided inverse of trnVecPose(x_ref, q_ref); "
    "FRAMEQUAT with a reference is the unique r with q_ref * r = q_obj, unit, with matrix R_ref^T R_obj; the axis sensors are the columns of that matrix; FRAMELINVEL/FRAMEANGVEL with a reference satisfy the product rule d/dt[R^T (x - x_ref)] with Rdot = [w_ref]x R. "
    "Partial: the frame statements assume xmat_ref is the matrix of a unit quaternion (consistency of xmat/xquat is mj_kinematics' job) and the velocity statement is the algebraic product rule, not an analytic derivative. "
    "NOT proved (oracle only, on implementation output): the sensor formulas themselves. For every sensor type that can be instantiated through mjSpec here (touch, accelerometer, velocimeter, gyro, force, torque, magnetometer, site rangefinder, camprojection, jointpos/vel, "
    "tendonpos/vel, actuatorpos/vel/frc, jointactuatorfrc, tendonactuatorfrc, ballquat, ballangvel, joint/tendon limit pos/vel/frc, framepos/quat/x,y,z-axis/linvel/angvel with and without reference frames for body/xbody/geom/site/camera objects, framelinacc/angacc, "
    "subtreecom/linvel/angmom, insidesite, distance/normal/fromto between spheres, potential/kinetic energy, clock, user sensors of every datatype and stage) the documented quantity is recomputed in the driver from the simulation state with independent formulas "
    "(velocities and accelerations from mj_jac / mj_jacDot and qvel/qacc instead of cvel/cacc/mj_objectVelocity/mj_objectAcceleration; quaternions from rotation matrices; subtree quantities and kinetic energy by explicit sums over bodies) and compared after applying the documented cutoff rule (1e-9 scaled); "
    "framelinvel and frameangvel are also compared with centred finite differences of framepos / framequat along the motion (same object and reference); touch is recomputed with an own inside test and an own half-line / solid test (box, ellipsoid, cylinder, sphere, capsule; no mju_rayGeom): normal forces of the contacts of the zone's body whose point is inside the zone or whose normal ray LEAVING that body meets it, on generated models and on dedicated scenes (plane, box on it, box on the box) with thin zones in front of and behind the contact points on contact body 1 and contact body 2, world included; canaries check that mj_forward writes every entry of sensordata, that each stage alone writes exactly the slices of its own sensors, "
    "and that mj_computeSensor stays inside its slice. Not covered at all: contact, tactile, plugin and camera-rangefinder sensors, history/delay/interval reads, sleeping; force/torque are recomputed from cfrc_int (not from first principles); limit/actuator forces are copies of efc_force/actuator_force. "
    "Tie: the layout model is compared exactly with sensor_adr/sensor_dim/nsensordata of every compiled model; the cutoff model is run at binary64 inside Coq against the static apply_cutoff on every (sensor type, datatype) pair with boundary/NaN/inf data; the reference-frame kernels are run at binary64 on the inputs the sensors saw.")
META["note"] = ("Trusted: Coq kernel + the standard-library real-number axioms listed in trusted_base (C28_slices and C28_stage_writes_own_slice are closed under the global context); hand-written model Model/Sensor.v; "
                "correspondence harness (gcc, driver c28_sensors.c which #includes engine_sensor.c, mjgen.h models); the documented-quantity formulas of the driver and the cutoff table of this module (transcribed from doc/XMLreference.rst and doc/modeling.rst).")

TOL = "0x1p-30"
CAN = -7.7e77

# documented output size and cutoff class per sensor type (doc/XMLreference.rst, doc/modeling.rst "cutoff":
# a positive value limits the absolute value of the output; touch/insidesite are non-negative; axis and
# quaternion outputs take no cutoff; the collision sensors use cutoff as search distance: fromto is
# not clipped, distance is also clipped, normal is a unit vector)
DOC = {
    "TOUCH": (1, "positive"), "ACCELEROMETER": (3, "real"), "VELOCIMETER": (3, "real"), "GYRO": (3, "real"), "FORCE": (3, "real"),
    "TORQUE": (3, "real"), "MAGNETOMETER": (3, "real"), "RANGEFINDER": (1, "real"), "CAMPROJECTION": (2, "real"),
    "JOINTPOS": (1, "real"), "JOINTVEL": (1, "real"), "TENDONPOS": (1, "real"), "TENDONVEL": (1, "real"),
    "ACTUATORPOS": (1, "real"), "ACTUATORVEL": (1, "real"), "ACTUATORFRC": (1, "real"), "JOINTACTFRC": (1, "real"), "TENDONACTFRC": (1, "real"),
    "BALLQUAT": (4, "none"), "BALLANGVEL": (3, "real"),
    "JOINTLIMITPOS": (1, "real"), "JOINTLIMITVEL": (1, "real"), "JOINTLIMITFRC": (1, "real"),
    "TENDONLIMITPOS": (1, "real"), "TENDONLIMITVEL": (1, "real"), "TENDONLIMITFRC": (1, "real"),
    "FRAMEPOS": (3, "real"), "FRAMEQUAT": (4, "none"), "FRAMEXAXIS": (3, "none"), "FRAMEYAXIS": (3, "none"), "FRAMEZAXIS": (3, "none"),
    "FRAMELINVEL": (3, "real"), "FRAMEANGVEL": (3, "real"), "FRAMELINACC": (3, "real"), "FRAMEANGACC": (3, "real"),
    "SUBTREECOM": (3, "real"), "SUBTREELINVEL": (3, "real"), "SUBTREEANGMOM": (3, "real"),
    "INSIDESITE": (1, "positive"), "GEOMDIST": (1, "real"), "GEOMNORMAL": (3, "none"), "GEOMFROMTO": (6, "none"),
    "E_POTENTIAL": (1, "real"), "E_KINETIC": (1, "real"), "CLOCK": (1, "real"),
}
EXEMPT = ("CONTACT", "GEOMFROMTO")     # apply_cutoff ignores these types (doc: cutoff has another meaning)


def unhx(t):
    t = t.strip()
    if t in ("nan", "-nan", "+nan"):
        return math.nan
    if t in ("inf", "+inf"):
        return math.inf
    if t == "-inf":
        return -math.inf
    return float.fromhex(t)


def hx(x):
    if x != x:
        return "nan"
    if x in (math.inf, -math.inf):
        return "inf" if x > 0 else "-inf"
    return float(x).hex()


def doc_cutoff(cls, c, xs):
    """the documented post-processing of a reading"""
    if not (c > 0):
        return list(xs)
    if cls == "real":
        return [(-c if x < -c else (c if x > c else x)) for x in xs]
    if cls == "positive":
        return [(c if x > c else x) for x in xs]
    return list(xs)


def close(a, b, scl=0.0, tol=1e-9):
    if len(a) != len(b):
        return False
    sc = 1.0 + max([abs(x) for x in a] + [abs(x) for x in b] + [0.0]) + scl
    return all((x == y) or abs(x - y) <= tol * sc for x, y in zip(a, b))


def vlit(xs):
    return "(" + ", ".join(F.fhex(x) for x in xs) + ")%float"


# ------------------------------------------------------------------------------------- parsing
def parse_model_block(lines):
    """lines of one M reply (without END) -> dict"""
    res = {"fail": None, "layout": None, "reps": []}
    cur = None
    for l in lines:
        t = l.split()
        if not t:
            continue
        if t[0] == "FAIL":
            res["fail"] = l
        elif t[0] == "L":
            ns, nsd = int(t[1]), int(t[2])
            v = list(map(int, t[3:]))
            res["layout"] = (ns, nsd, v[:ns], v[ns:2 * ns])
        elif t[0] == "REP":
            cur = {"rep": int(t[1]), "bad": int(t[2]), "nstep": int(t[3]), "ncon": int(t[4]), "S": [], "CAN": None, "TCH": None, "FD": [], "FDQ": [], "FK": []}
            res["reps"].append(cur)
        elif t[0] == "S":
            head, obs, exp = l.split("|")
            h = head.split()
            cur["S"].append({"i": int(h[1]), "type": int(h[2]), "objtype": int(h[3]), "objid": int(h[4]), "reftype": int(h[5]), "refid": int(h[6]),
                             "datatype": int(h[7]), "stage": int(h[8]), "dim": int(h[9]), "adr": int(h[10]), "cutoff": unhx(h[11]),
                             "kind": h[12], "scl": unhx(h[13]), "dofless": int(h[14]), "docdim": int(h[15]), "obs": [unhx(x) for x in obs.split()], "exp": [unhx(x) for x in exp.split()]})
        elif t[0] == "CAN":
            cur["CAN"] = list(map(int, t[1:]))
        elif t[0] == "TCH":
            cur["TCH"] = list(map(int, t[1:]))
        elif t[0] in ("FD", "FDQ"):
            cur[t[0]].append((int(t[1]), [unhx(x) for x in t[2:5]]))
        elif t[0] in ("FKP", "FKA", "FKQ", "FKV"):
            cur["FK"].append(t)
    return res


def split_blocks(out):
    blocks, cur = [], []
    for l in out.split("\n"):
        if l.strip() == "END":
            blocks.append(cur)
            cur = []
        elif l.strip():
            cur.append(l)
    return blocks


# ------------------------------------------------------------------------------------- run
def run(ctx):
    rng = ctx.rng
    quick = ctx.tier == "quick"
    ctx.coq_props(allowed_axioms=F.STD_AXIOMS, extra_targets=["Lib/Eqb.vo", "Lib/NumF.vo", "Model/Spatial.vo", "Model/Sensor.vo"])
    exe = ctx.driver("c28_sensors", ["c28_sensors.c"])
    if exe is None:
        return

    # ---- requests
    reqs = ["C"]
    # cutoff kernel cases: every sensor type id x every datatype, boundary and special data
    kcases = []
    specials = [0.0, -0.0, 1.0, -1.0, 0.5, -0.5, 2.0, -2.0, 1e-300, -1e300, math.inf, -math.inf, math.nan]
    ntypes_guess = 49
    for ty in range(ntypes_guess):
        for dt in range(4):
            for c in ((1.0,) if quick else (0.0, 1.0)):
                kcases.append((ty, dt, c, [0.5, -0.5, 1.0, -1.0, 1.0000000000000002, -1.0000000000000002, 3.0, -3.0]))
    for _ in range(200 if quick else 3000):
        ty = rng.randrange(ntypes_guess)
        dt = rng.randrange(4)
        c = rng.choice([0.0, -1.0, 1.0, 0.25, 1e-3, 7.5, math.inf, math.nan, rng.uniform(0, 3)])
        n = rng.randrange(0, 9)
        xs = [rng.choice(specials + [c, -c]) if rng.random() < 0.4 else rng.uniform(-4, 4) for _ in range(n)]
        kcases.append((ty, dt, c, xs))
    for (ty, dt, c, xs) in kcases:
        reqs.append("K %d %d %s %d %s" % (ty, dt, hx(c), len(xs), " ".join(hx(x) for x in xs)))
    # models
    mcases = []
    feats_all = 0x7FFFF
    FEAT_SETS = [0x10000 | 0x4,                       # sites + slides only
                 0x10000 | 0x1 | 0x2 | 0x4,           # + free/ball joints
                 0x10000 | 0x4 | 0x20 | 0x40 | 0x400 | 0x1000,   # tendons, actuators, limits, springs
                 0x10000 | 0x1 | 0x8,                 # contacts
                 feats_all & ~0x10, feats_all]
    nmodels = 14 if quick else 120
    for k in range(nmodels):
        feat = FEAT_SETS[k % len(FEAT_SETS)] if k < 2 * len(FEAT_SETS) else (rng.getrandbits(19) | 0x10000)
        nbody = 1 + (k % 3) if k < 6 else rng.randrange(2, 8)
        seed = rng.randrange(1, 10 ** 6)
        mcases.append((seed, feat, nbody, 4 if quick else 6))
    mcases.sort(key=lambda c: c[2])
    # fixed corpus (both tiers): the replay of known finding C28-F1 (IMU sensors on a static body) first
    mcases.insert(0, (90335, 65540, 1, 4))
    # touch scenes (feat = -1): thin zones in front of / behind the contact points on contact body 1 (world, lower box) and
    # contact body 2 (lower box, upper box): the documented re-projection clause of the touch sensor
    wcases = [(1, -1, 2, 4), (2, -1, 2, 4)] + [(rng.randrange(3, 10 ** 6), -1, 2, 3) for _ in range(3 if quick else 40)]
    mcases[1:1] = wcases
    for (seed, feat, nbody, nrep) in mcases:
        reqs.append(("W %d %d" % (seed, nrep)) if feat == -1 else ("M %d %d %d %d" % (seed, feat, nbody, nrep)))
    rc, out, err = ctx.run(exe, "\n".join(reqs) + "\n", timeout=900)
    blocks = split_blocks(out)
    if rc != 0 or len(blocks) != len(reqs):
        ctx.broken.append(("correspondence", "driver c28_sensors failed", "rc=%s blocks=%d/%d %s" % (rc, len(blocks), len(reqs), err[-800:])))
        return

    # ---- constants
    ct = blocks[0][0].split()
    const = {ct[i]: int(ct[i + 1]) for i in range(1, len(ct), 2)}
    if (const.get("REAL"), const.get("POSITIVE"), const.get("AXIS"), const.get("QUATERNION")) != (0, 1, 2, 3):
        ctx.broken.append(("correspondence", "mjtDataType numbering differs from Model/Sensor.v (DT_REAL = 0, DT_POSITIVE = 1)", str(const)))
        return
    name_of = {v: k for k, v in const.items() if k not in ("REAL", "POSITIVE", "AXIS", "QUATERNION", "STAGE_POS", "STAGE_VEL", "STAGE_ACC", "NSENSTYPE")}
    ntypes = const["NSENSTYPE"]

    # ---- cutoff kernel: oracle on implementation output + Coq correspondence
    coq_k = []
    k_index = []
    nclamped = 0
    kdistinct = set()
    for idx, ((ty, dt, c, xs), blk) in enumerate(zip(kcases, blocks[1:1 + len(kcases)])):
        t = blk[0].split() if blk else ["FAIL"]
        if t[0] != "K":
            ctx.broken.append(("correspondence", "cutoff kernel driver reply", " ".join(t)[:200]))
            continue
        over = int(t[1])
        outv = [unhx(x) for x in t[2:]]
        if ty >= ntypes:
            continue
        tname = name_of.get(ty, "?")
        exempt = tname in EXEMPT
        cls = "none" if exempt else ("real" if dt == 0 else "positive" if dt == 1 else "none")
        case = {"op": "apply_cutoff", "type": tname, "datatype": dt, "cutoff": hx(c), "data": [hx(x) for x in xs]}
        if over:
            ctx.violation("impl_violation", case, expected="writes only data[0..dim)", observed="entry outside the slice changed",
                          theorem="C28_cutoff", signature={"site": "apply_cutoff", "class": "slice-overrun"})
        if c == c and all(x == x for x in xs):
            expv = doc_cutoff(cls, c, xs)
            if len(outv) != len(expv) or any(not (a == b) for a, b in zip(outv, expv)):
                ctx.violation("impl_violation", case, expected=[hx(x) for x in expv], observed=[hx(x) for x in outv],
                              theorem="C28_cutoff", signature={"site": "apply_cutoff", "class": "documented-clamp"})
            if any(not (a == b) for a, b in zip(expv, xs)):
                nclamped += 1
        kdistinct.add((exempt, dt, hx(c), tuple(hx(x) for x in xs)))
        coq_k.append("(%s, %s, %d%%Z, %s, %s)" % (F.fhex(c) + "%float", "true" if exempt else "false", dt, F.flist(xs) if xs else "(@nil float)",
                                               F.flist(outv) if outv else "(@nil float)"))
        k_index.append(idx)
    imports = ("From Coq Require Import ZArith PrimFloat Bool.\nFrom MJV Require Import Lib.Num Lib.NumF Lib.Eqb Model.Spatial Model.Sensor.\n")
    fails = ctx.coq_eval("c28_cutoff", imports, coq_k, shard=max(40, (len(coq_k) + 7) // 8), checker=
                         "fun c => match c with (cut, ex, dt, data, out) => fclose_list 0%float (apply_cutoff (T:=float) cut ex dt data) out end")
    for f in fails[:5]:
        ty, dt, c, xs = kcases[k_index[f]]
        ctx.violation("correspondence", {"op": "apply_cutoff", "type": name_of.get(ty, ty), "datatype": dt, "cutoff": hx(c), "data": [hx(x) for x in xs]},
                      expected="Model/Sensor.v apply_cutoff", observed=blocks[1 + k_index[f]][0], found_input=False, theorem="correspondence c28 cutoff",
                      note="model and apply_cutoff disagree; the documented-clamp oracle decides whether the implementation output is wrong")

    # ---- models
    coq_l, l_cases = [], []
    coq_f, f_cases = [], []
    stats = {"sensor_readings": 0, "oracle_formula": 0, "oracle_copy": 0, "no_oracle": 0, "cutoff_active": 0, "nonzero": 0, "bad_reps": 0, "reps": 0,
             "fd_linvel": 0, "fd_angvel": 0, "with_ref": 0, "models": 0, "compile_fail": 0, "touch_nonzero": 0, "limit_active": 0,
             "touch_contacts_inside_zone": 0, "touch_contacts_by_outward_ray": 0, "touch_contacts_only_a_backward_ray_would_hit": 0, "touch_scenes": 0}
    types_seen, types_nontrivial = {}, {}
    distinct = set()
    samples = []
    for (seed, feat, nbody, nrep), blk in zip(mcases, blocks[1 + len(kcases):]):
        mb = parse_model_block(blk)
        mcase = {"seed": seed, "feat": feat, "nbody": nbody}
        if mb["fail"] or mb["layout"] is None:
            stats["compile_fail"] += 1
            continue
        stats["models"] += 1
        if feat == -1:
            stats["touch_scenes"] += 1
            mcase = {"scene": "touch (driver request W seed nrep)", "seed": seed}
        ns, nsd, dims, adrs = mb["layout"]
        # layout oracle on implementation output (independent of the Coq model): disjoint, covering, in order
        cover = [0] * max(nsd, 0)
        okl = all(d >= 0 for d in dims)
        for a, dm in zip(adrs, dims):
            if a < 0 or a + dm > nsd:
                okl = False
                continue
            for k in range(a, a + dm):
                cover[k] += 1
        if not okl or any(c != 1 for c in cover):
            ctx.violation("impl_violation", dict(mcase, dims=dims, adrs=adrs, nsensordata=nsd), expected="slices disjoint and covering [0, nsensordata)",
                          observed="overlap or gap", theorem="C28_slices", signature={"site": "CopyObjects.sensor_adr", "class": "layout"})
        coq_l.append("(%s, %s, %d%%Z)" % (F.zlist(dims), F.zlist(adrs), nsd))
        l_cases.append(dict(mcase, dims=dims, adrs=adrs, nsensordata=nsd))
        for rp in mb["reps"]:
            stats["reps"] += 1
            if rp["bad"]:
                stats["bad_reps"] += 1
                continue
            rcase = dict(mcase, rep=rp["rep"], nrep=nrep)
            byid = {}
            for s in rp["S"]:
                byid[s["i"]] = s
                tname = name_of.get(s["type"], "?")
                stats["sensor_readings"] += 1
                types_seen[tname] = types_seen.get(tname, 0) + 1
                if s["refid"] >= 0:
                    stats["with_ref"] += 1
                scase = dict(rcase, sensor=s["i"], type=tname, objtype=s["objtype"], objid=s["objid"], reftype=s["reftype"], refid=s["refid"], cutoff=s["cutoff"])
                # documented size
                if tname == "USER":
                    cls = {0: "real", 1: "positive"}.get(s["datatype"], "none")
                    ddim = None
                else:
                    ddim, cls = DOC.get(tname, (None, None))
                    if s["docdim"] >= 0:
                        ddim = s["docdim"]       # actuator sensors: one value per force output
                if ddim is not None and s["dim"] != ddim:
                    ctx.violation("impl_violation", scase, expected="documented output size %d" % ddim, observed=s["dim"], theorem="C28 oracle",
                                  signature={"site": "mjs_sensorDim", "sensor": tname})
                if len(s["obs"]) != s["dim"]:
                    ctx.broken.append(("correspondence", "driver printed a wrong number of readings", str(scase)))
                    continue
                if s["kind"] == "none" or cls is None:
                    stats["no_oracle"] += 1
                    continue
                stats["oracle_copy" if s["kind"] == "copy" else "oracle_formula"] += 1
                expv = doc_cutoff(cls, s["cutoff"], s["exp"])
                if any(not (a == b) for a, b in zip(expv, s["exp"])):
                    stats["cutoff_active"] += 1
                nz = any(abs(x) > 1e-12 for x in s["exp"])
                if nz:
                    stats["nonzero"] += 1
                    if s["kind"] != "copy":
                        types_nontrivial[tname] = types_nontrivial.get(tname, 0) + 1
                        distinct.add((seed, feat, nbody, rp["rep"], s["i"]))
                    if tname == "TOUCH":
                        stats["touch_nonzero"] += 1
                    if "LIMIT" in tname:
                        stats["limit_active"] += 1
                if not close(s["obs"], expv, s["scl"]):
                    sig = {"site": "mj_computeSensor", "sensor": tname, "ref": s["refid"] >= 0}
                    if tname in ("ACCELEROMETER", "FRAMELINACC") and s["dofless"] and all(x == 0 for x in s["obs"]):
                        # the reading of a dof-less (static / mocap) body is exactly zero although the documented quantity includes gravity
                        sig = {"site": "mj_objectAcceleration", "class": "dofless-body-gravity-dropped"}
                        stats["dofless_acc_zero"] = stats.get("dofless_acc_zero", 0) + 1
                    ctx.violation("impl_violation", scase, expected=[hx(x) for x in expv], observed=[hx(x) for x in s["obs"]], theorem="C28 oracle (documented quantity)",
                                  signature=sig,
                                  note="oracle kind %s; pre-cutoff expected %s" % (s["kind"], [hx(x) for x in s["exp"]]))
                if len(samples) < 4 and nz and s["refid"] >= 0:
                    samples.append(dict(scase, observed=s["obs"], expected=expv))
            if rp.get("TCH"):
                stats["touch_contacts_inside_zone"] += rp["TCH"][0]
                stats["touch_contacts_by_outward_ray"] += rp["TCH"][1]
                stats["touch_contacts_only_a_backward_ray_would_hit"] += rp["TCH"][2]
            # canaries
            cn = rp["CAN"]
            if cn is None:
                ctx.broken.append(("correspondence", "driver printed no canary line", str(rcase)))
            else:
                names = ["entries of sensordata not written by mj_forward", "entries written by a stage outside its own sensors' slices (or own slice not written)",
                         "stage alone differs from mj_forward", "mj_computeSensor wrote outside its slice", "mj_computeSensor differs from mj_forward"]
                for k, nme in enumerate(names):
                    if cn[k]:
                        ctx.violation("impl_violation", rcase, expected="0 " + nme, observed=cn[k], theorem="C28_stage_writes_own_slice",
                                      signature={"site": "mj_sensorPos/Vel/Acc", "class": "canary-%d" % k})
            # finite differences
            for (il, fd) in rp["FD"]:
                s = byid.get(il)
                if s is None:
                    continue
                stats["fd_linvel"] += 1
                expv = doc_cutoff("real", s["cutoff"], fd)
                if not close(s["obs"], expv, 0.0, tol=2e-5):
                    ctx.violation("impl_violation", dict(rcase, sensor=il, type="FRAMELINVEL", refid=s["refid"]), expected=[hx(x) for x in expv], observed=[hx(x) for x in s["obs"]],
                                  theorem="C28_frame_ref_partial (d)", signature={"site": "mj_computeSensor", "sensor": "FRAMELINVEL", "class": "finite-difference of FRAMEPOS"})
            for (ia, fd) in rp["FDQ"]:
                s = byid.get(ia)
                if s is None:
                    continue
                stats["fd_angvel"] += 1
                expv = doc_cutoff("real", s["cutoff"], fd)
                if not close(s["obs"], expv, 0.0, tol=2e-5):
                    ctx.violation("impl_violation", dict(rcase, sensor=ia, type="FRAMEANGVEL", refid=s["refid"]), expected=[hx(x) for x in expv], observed=[hx(x) for x in s["obs"]],
                                  theorem="C28_frame_ref_partial (d)", signature={"site": "mj_computeSensor", "sensor": "FRAMEANGVEL", "class": "finite-difference of FRAMEQUAT"})
            # reference-frame kernels for Coq
            for t in rp["FK"]:
                v = [unhx(x) for x in t[2:]] if t[0] in ("FKQ",) else None
                if t[0] == "FKP":
                    c = unhx(t[2]); a = [unhx(x) for x in t[3:]]
                    coq_f.append("(0%%Z, %s, [%s; %s], [%s], (@nil (quat float)), %s)" % (F.fhex(c) + "%float", vlit(a[0:3]), vlit(a[3:6]), vlit(a[6:15]), F.flist(a[15:18])))
                elif t[0] == "FKA":
                    off = int(t[2]); a = [unhx(x) for x in t[3:]]
                    coq_f.append("(%d%%Z, 0%%float, (@nil (vec3 float)), [%s; %s], (@nil (quat float)), %s)" % (1 + off, vlit(a[0:9]), vlit(a[9:18]), F.flist(a[18:21])))
                elif t[0] == "FKQ":
                    coq_f.append("(4%%Z, 0%%float, (@nil (vec3 float)), (@nil (mat3 float)), [%s; %s], %s)" % (vlit(v[0:4]), vlit(v[4:8]), F.flist(v[8:12])))
                elif t[0] == "FKV":
                    lin = int(t[2]); c = unhx(t[3]); a = [unhx(x) for x in t[4:]]
                    # p pr Rr xv(ang, lin) xr(ang, lin) obs
                    coq_f.append("(%d%%Z, %s, [%s; %s; %s; %s; %s; %s], [%s], (@nil (quat float)), %s)" % (
                        5 + lin, F.fhex(c) + "%float", vlit(a[0:3]), vlit(a[3:6]), vlit(a[15:18]), vlit(a[18:21]), vlit(a[21:24]), vlit(a[24:27]), vlit(a[6:15]), F.flist(a[27:30])))
                f_cases.append(dict(rcase, kernel=t[0], sensor=int(t[1])))

    fails = ctx.coq_eval("c28_layout", "From Coq Require Import ZArith Bool.\nFrom MJV Require Import Lib.Eqb Model.Sensor.\nOpen Scope Z_scope.", coq_l,
                         "fun c => match c with (dims, adrs, n) => zlist_eqb (layout dims) adrs && (nsensordata dims =? n) end")
    for f in fails[:3]:
        ctx.violation("correspondence", l_cases[f], expected="sensor_adr = prefix sums of sensor_dim, nsensordata = sum (Model/Sensor.v layout)", observed="differs",
                      found_input=False, theorem="correspondence c28 layout")
    pre = ("Definition v3 (l : list (vec3 float)) (i : nat) : vec3 float := nth i l (0, 0, 0)%float.\n"
           "Definition m3 (l : list (mat3 float)) (i : nat) : mat3 float := nth i l (0, 0, 0, 0, 0, 0, 0, 0, 0)%float.\n"
           "Definition q4 (l : list (quat float)) (i : nat) : quat float := nth i l (0, 0, 0, 0)%float.\n"
           "Definition model (k : Z) (c : float) (vs : list (vec3 float)) (ms : list (mat3 float)) (qs : list (quat float)) : list float :=\n"
           "  if (k =? 0)%Z then apply_cutoff c false 0%Z (v2l (frame_pos_ref (v3 vs 0) (v3 vs 1) (m3 ms 0)))\n"
           "  else if (k <=? 3)%Z then v2l (frame_axis_ref (m3 ms 0) (k - 1)%Z (m3 ms 1))\n"
           "  else if (k =? 4)%Z then q2l (frame_quat_ref (q4 qs 0) (q4 qs 1))\n"
           "  else let r := frame_vel_ref (v3 vs 0) (v3 vs 1) (m3 ms 0) (v3 vs 2) (v3 vs 3) (v3 vs 4) (v3 vs 5) in\n"
           "       apply_cutoff c false 0%Z (v2l (if (k =? 6)%Z then snd r else fst r)).\n")
    # the kernels are tiny: a sample of the sensor evaluations is enough for the tie (all of them in the thorough tier up to 4000)
    nf_all = len(coq_f)
    keep = sorted(rng.sample(range(nf_all), min(nf_all, 200 if quick else 4000)))
    coq_f = [coq_f[k] for k in keep]
    f_cases = [f_cases[k] for k in keep]
    fails = ctx.coq_eval("c28_frames", imports, coq_f, shard=max(20, (len(coq_f) + 7) // 8), pre=pre, checker=
                         "fun c => match c with (k, cut, vs, ms, qs, out) => fclose_list %s (model k cut vs ms qs) out end" % TOL)
    for f in fails[:3]:
        ctx.violation("correspondence", f_cases[f], expected="Model/Sensor.v reference-frame kernel", observed="sensor reading differs", found_input=False,
                      theorem="correspondence c28 reference frames")

    missing = sorted(t for t in DOC if t not in types_nontrivial)
    ctx.cov["evaluations"] = len(kcases) + stats["sensor_readings"]
    ctx.cov["distinct_nontrivial"] = len(distinct) + len(kdistinct)
    ctx.cov["rule"] = ("%d generated models (mjgen feature sets + cameras, probe spheres, touch zones; every instantiable sensor type, shuffled order) x repetitions (rest, random state, state after 5..124 steps); "
                       "a sensor reading is non-trivial when its independently recomputed documented quantity is non-zero and the oracle is not a copy of the same array (distinct by model, repetition, sensor); "
                       "cutoff-kernel cases: every (sensor type, datatype) pair with boundary data and random cases incl. NaN/inf (distinct by exempt flag, datatype, cutoff, data)" % stats["models"])
    ctx.cov["samples"] = samples[:3] + [{"op": "apply_cutoff", "type": name_of.get(kcases[-1][0]), "datatype": kcases[-1][1], "cutoff": kcases[-1][2], "data": kcases[-1][3]}]
    ctx.cov["support"].update({"stats": stats, "readings_per_type": types_seen, "nontrivial_per_type": types_nontrivial,
                               "documented_types_without_nontrivial_reading": missing, "cutoff_kernel_cases": len(kcases), "cutoff_kernel_cases_clamping": nclamped,
                               "layout_cases": len(coq_l), "frame_kernel_cases": len(coq_f), "frame_kernel_evaluations_seen": nf_all})
    ctx.cov["explanation"] = ("layout and stage theorems proved for all sensor lists; cutoff and reference-frame kernels proved over R; layout tied exactly on %d compiled models, "
                              "cutoff kernel on %d cases, reference-frame kernels on %d sensor evaluations; %d sensor readings compared with the recomputed documented quantity (%d with an active cutoff)"
                              % (len(coq_l), len(coq_k), len(coq_f), stats["oracle_formula"] + stats["oracle_copy"], stats["cutoff_active"]))
    if stats["touch_contacts_by_outward_ray"] == 0 or stats["touch_contacts_only_a_backward_ray_would_hit"] == 0:
        ctx.broken.append(("correspondence", "the touch scenes produced no re-projection case", str(stats)))
    if stats["models"] == 0 or stats["sensor_readings"] == 0:
        ctx.broken.append(("correspondence", "no model could be built / no sensor was evaluated", str(stats)))
