"""C15 — convex narrow-phase distances are correct and swap-symmetric."""
import math
import struct
import time
import framework as F
import c13 as G          # shared small vector algebra / hex helpers of the sibling property (same owner)

META = {
    "id": "C15", "category": "proof", "design_ref": "DESIGN.md section 4, C15",
    "technique": "Coq proofs over R of a Gallina model (Model/ConvexSupport.v, generic over Lib/Num) of the per-shape support functions and of the Minkowski-difference support + float correspondence with the real functions (obj->support callbacks of mjc_initCCDObj, mjc_lineSupport, mjc_pointSupport, mjc_meshSupport, static support()/gjkSupport() of engine_collision_gjk.c) + independent convex-optimisation reference for mj_geomDistance / contact distances",
    "text": "filled in below",
    "note": "filled in below",
    "assumptions": [
        "theorems are about exact real arithmetic; IEEE rounding is outside every theorem (the model is run at binary64 only for the tie, tolerance 2^-30 scaled)",
        "hand-written model Model/ConvexSupport.v; the tie is differential testing on the cases of this run (random, axis-aligned, zero-component, tiny and zero directions)",
        "the GJK/EPA iteration (engine_collision_gjk.c: gjk, epa, polytope handling, multi-contact) is NOT modelled and has no theorem: it is only observed through the distance oracle",
        "libccd is stubbed out in this build (mjDSBL_NATIVECCD is never set): the libccd path and its agreement with the native path are NOT covered",
        "convex meshes are covered at the support-function level only (qhull is stubbed: no mesh geoms in the distance oracle)",
    ],
}
META["text"] = (
    "Proved in Coq over the reals, for all inputs, about the model Model/ConvexSupport.v of engine_collision_convex.c / engine_collision_gjk.c: for each shape the returned support point belongs to the shape and maximises <x, dir> over the shape — "
    "C15_support_sphere (unit dir; Cauchy-Schwarz), C15_support_line (segment, sign argument), C15_support_capsule (rotation matrix, unit dir; sign of the axial component + Cauchy-Schwarz), "
    "C15_support_ellipsoid (positive semi-axes, any dir; Cauchy-Schwarz in scaled coordinates; the degenerate arm below mjMINVAL^2 returns a point of the ellipsoid), "
    "C15_support_cylinder (any dir; cap by sign, rim by planar Cauchy-Schwarz; in the degenerate arm maximal up to r times the radial length < mjMINVAL), C15_support_box (sign argument; vertindex bits = signs), "
    "C15_support_mesh (exhaustive scan with optional cached index returns a vertex maximising over all vertices; without cache under the explicit condition that some dot product exceeds -FLT_MAX); "
    "C15_minkowski: support(dir) = S_A(dir) - S_B(-dir) maximises <a-b, dir> over the Minkowski difference; C15_minkowski_margin: the margin/2 inflation along a unit direction is the support of the inflated set, and gjkSupport uses dir = -x_k/|x_k|. "
    "These are the two facts GJK/EPA correctness rests on; the GJK/EPA iteration itself and the libccd path are NOT proved and NOT modelled. "
    "Tie: the model is evaluated at binary64 inside Coq and compared with the real support callbacks (through mjc_initCCDObj on geoms of a compiled model), mjc_lineSupport, mjc_pointSupport, mjc_meshSupport and the static support()/gjkSupport() of engine_collision_gjk.c on the inputs of this run. "
    "Oracle on implementation output: (1) every support point returned lies in its shape and attains the closed-form support value computed independently in python; "
    "(2) for pairs of ellipsoids, cylinders, boxes, capsules and spheres routed to GJK/EPA, mj_geomDistance (both geom orders) and the contact dist of mj_collision are compared with an independent reference: "
    "separated pairs — alternating projections onto the two bodies, accepted only with a certificate (upper bound |b-a| from feasible points, lower bound from the separating slab along b-a, gap < 1e-7), tolerance 1e-6; "
    "penetrating pairs — the reported depth must equal the extent h_A(n)+h_B(-n) of the Minkowski difference along the reported normal and no direction found by a multi-start projected-gradient search may give a smaller extent (default settings: 1e-5 + 0.5 percent of the depth, the EPA is iteration-limited on curved shapes; converged run: 2e-6); "
    "touching: axis-aligned pairs exactly and nearly touching, in a canonical frame and under a common rigid motion, must report the gap within 2e-6, for mj_geomDistance and for the contacts of mj_collision at margin 0, over |gap| in {0, 1e-12, ..., 1e-5} (KNOWN finding C15-F1 touching-degenerate, restricted to this aligned family with |gap| <= 1e-5: the native GJK/EPA returns garbage, up to the centre distance or a spurious centimetre-deep contact, for a few percent of such configurations); "
    "swap symmetry: same distance in both orders, witness points exchanged (normal reversed; contact normals of the two orders within 3 degrees at convergence, 15 degrees (30 beyond depth 0.05) with default settings). "
    "The distance oracle runs twice: with mjOption.ccd_iterations raised to 200 (GJK/EPA stop on ccd_tolerance = 1e-6: tolerance 2e-6 on every distance) and with the shipped default of 35 iterations, where the EPA on margin-inflated curved shapes is iteration-limited "
    "(observed: contact dist off by up to 1e-4 and normal by ~3 degrees at inflated depth 0.06, both gone with 100 iterations) and tolerances scale with the depth (1e-5 + 0.2-0.5 percent). Deep-penetration strata: the centre of one body at a random off-axis interior point of the other (sphere / capsule cores inside ellipsoid and cylinder, so that mjc_ccd's shrink-and-inflate shortcut is left and the full GJK+EPA runs; ellipsoid, cylinder, box pairs among themselves), random orientations, both geom orders, ordinary classes (converged: 2e-6; default: 3 percent beyond depth 0.05, where 1.9 percent and 21 degrees were observed); KNOWN finding C15-F2 deep-core-on-axis: sphere / capsule centre exactly on a principal axis or at the centre of the other geom and inside it (gross: centimetres of penetration reported as 0 or positive, contact dropped). Exactly axis-aligned penetrating pairs (centres on a common world axis, first geom below / above / beside the second, millimetres deep, both geom orders) are part of the distance oracle with these ordinary tolerances: they are NOT in the known class.")
META["note"] = ("Trusted: Coq kernel + the standard-library real-number axioms listed in trusted_base; hand-written model Model/ConvexSupport.v; correspondence harness (gcc, drivers c15_support.c, c15_gjk.c, c13_prim.c); "
                "python reference geometry (projections, support functions, optimiser) of the oracle.")

TOL = "0x1p-30"
SPHERE, CAPSULE, ELLIPSOID, CYLINDER, BOX = 2, 3, 4, 5, 6
TYPES = [SPHERE, CAPSULE, ELLIPSOID, CYLINDER, BOX]
NAME = G.GEOMNAME
hx, unhx, dot, sub, add, scl, norm, cross, unit = G.hx, G.unhx, G.dot, G.sub, G.add, G.scl, G.norm, G.cross, G.unit
EYE = G.EYE


def f32(x):
    return struct.unpack("f", struct.pack("f", x))[0]


def matvec(m, v):
    return [m[0] * v[0] + m[1] * v[1] + m[2] * v[2], m[3] * v[0] + m[4] * v[1] + m[5] * v[2], m[6] * v[0] + m[7] * v[1] + m[8] * v[2]]


def mattvec(m, v):
    return [m[0] * v[0] + m[3] * v[1] + m[6] * v[2], m[1] * v[0] + m[4] * v[1] + m[7] * v[2], m[2] * v[0] + m[5] * v[1] + m[8] * v[2]]


# ------------------------------------------------------------------------------------- reference geometry
class Shape:
    def __init__(self, t, size, pos, mat):
        self.t, self.size, self.pos, self.mat = t, list(size), list(pos), list(mat)

    def to_local(self, x):
        return mattvec(self.mat, sub(x, self.pos))

    def to_world(self, l):
        return add(matvec(self.mat, l), self.pos)

    # --- signed "insideness": <= 0 inside
    def excess(self, x):
        l = self.to_local(x)
        s = self.size
        if self.t == SPHERE:
            return norm(l) - s[0]
        if self.t == CAPSULE:
            z = max(-s[1], min(s[1], l[2]))
            return norm([l[0], l[1], l[2] - z]) - s[0]
        if self.t == ELLIPSOID:
            return math.sqrt(sum((l[i] / s[i]) ** 2 for i in range(3))) - 1.0
        if self.t == CYLINDER:
            return max(math.hypot(l[0], l[1]) - s[0], abs(l[2]) - s[1])
        if self.t == BOX:
            return max(abs(l[i]) - s[i] for i in range(3))
        raise ValueError

    # --- support value and point (closed forms written independently of the C code)
    def support(self, d):
        ld = mattvec(self.mat, d)
        s = self.size
        if self.t == SPHERE:
            n = norm(ld)
            l = scl(ld, s[0] / n) if n > 0 else [s[0], 0, 0]
        elif self.t == CAPSULE:
            n = norm(ld)
            l = scl(ld, s[0] / n) if n > 0 else [s[0], 0, 0]
            l = [l[0], l[1], l[2] + math.copysign(s[1], ld[2])]
        elif self.t == ELLIPSOID:
            n = math.sqrt(sum((ld[i] * s[i]) ** 2 for i in range(3)))
            l = [s[i] * s[i] * ld[i] / n for i in range(3)] if n > 0 else [s[0], 0, 0]
        elif self.t == CYLINDER:
            n = math.hypot(ld[0], ld[1])
            l = [s[0] * ld[0] / n, s[0] * ld[1] / n, 0] if n > 0 else [0.0, 0, 0]
            l[2] = math.copysign(s[1], ld[2])
        else:
            l = [math.copysign(s[i], ld[i]) for i in range(3)]
        return self.to_world(l)

    def h(self, d):
        return dot(self.support(d), d)

    # --- euclidean projection onto the body
    def project(self, x):
        l = self.to_local(x)
        s = self.size
        if self.t == SPHERE:
            n = norm(l)
            p = l if n <= s[0] else scl(l, s[0] / n)
        elif self.t == CAPSULE:
            z = max(-s[1], min(s[1], l[2]))
            v = [l[0], l[1], l[2] - z]
            n = norm(v)
            p = l if n <= s[0] else add([0, 0, z], scl(v, s[0] / n))
        elif self.t == ELLIPSOID:
            if sum((l[i] / s[i]) ** 2 for i in range(3)) <= 1:
                p = l
            else:
                lo, hi = 0.0, max(s) * norm(l) + 1.0

                def g(t):
                    return sum((s[i] * l[i] / (s[i] * s[i] + t)) ** 2 for i in range(3)) - 1
                while g(hi) > 0:
                    hi *= 2
                for _ in range(200):
                    mid = 0.5 * (lo + hi)
                    if g(mid) > 0:
                        lo = mid
                    else:
                        hi = mid
                    if hi - lo <= 1e-16 * (1 + hi):
                        break
                t = 0.5 * (lo + hi)
                p = [s[i] * s[i] * l[i] / (s[i] * s[i] + t) for i in range(3)]
        elif self.t == CYLINDER:
            rad = math.hypot(l[0], l[1])
            k = 1.0 if rad <= s[0] else s[0] / rad
            p = [l[0] * k, l[1] * k, max(-s[1], min(s[1], l[2]))]
        else:
            p = [max(-s[i], min(s[i], l[i])) for i in range(3)]
        return self.to_world(p)


def separated_reference(A, B, iters=4000):
    """alternating projections; returns (lower bound, upper bound, a, b) of the distance, or None if the bodies overlap"""
    b = list(B.pos)
    a = A.project(b)
    last = None
    for k in range(iters):
        b = B.project(a)
        a = A.project(b)
        d = norm(sub(b, a))
        if last is not None and abs(last - d) <= 1e-15 * (1 + d) and k > 20:
            break
        last = d
    ub = norm(sub(b, a))
    if ub < 1e-9:
        return None
    n = scl(sub(b, a), 1 / ub)
    lb = -B.h(scl(n, -1.0)) - A.h(n)
    return lb, ub, a, b


def extent(A, B, d):
    """support value of the Minkowski difference A - B along the unit direction d"""
    return A.h(d) + B.h(scl(d, -1.0))


def penetration_reference(A, B, starts, rng):
    """multi-start projected-gradient minimisation of the extent over unit directions; returns (min extent, direction)"""
    best, bestd = None, None
    cands = [unit(d) for d in starts if norm(d) > 1e-12]
    for m in (A.mat, B.mat):
        for i in range(3):
            col = [m[i], m[3 + i], m[6 + i]]
            cands += [col, scl(col, -1.0)]
    for _ in range(24):
        cands.append(unit([rng.gauss(0, 1) for _ in range(3)]))
    for d in cands:
        val = extent(A, B, d)
        step = 0.5
        for it in range(200):
            g = sub(A.support(d), B.support(scl(d, -1.0)))          # gradient of the extent
            gt = sub(g, scl(d, dot(g, d)))
            gn = norm(gt)
            if gn < 1e-13:
                break
            improved = False
            while step > 1e-14:
                nd = unit(sub(d, scl(gt, step / max(gn, 1e-300) * min(1.0, gn))))
                nv = extent(A, B, nd)
                if nv < val - 1e-16:
                    d, val, improved = nd, nv, True
                    step = min(step * 2, 1.0)
                    break
                step *= 0.5
            if not improved:
                break
        if best is None or val < best:
            best, bestd = val, d
    return best, bestd


# ------------------------------------------------------------------------------------- support cases (tie + oracle 1)
def rot_special(rng):
    """rotation matrices with exact entries: signed permutations"""
    perm = rng.choice([(0, 1, 2), (1, 2, 0), (2, 0, 1)])
    sg = [rng.choice([1.0, -1.0]) for _ in range(3)]
    m = [0.0] * 9
    for i in range(3):
        m[3 * i + perm[i]] = sg[i]
    det = dot(m[0:3], cross(m[3:6], m[6:9]))
    if det < 0:
        m[6:9] = [-v for v in m[6:9]]
    return m


def support_cases(ctx):
    rng = ctx.rng
    big = ctx.tier != "quick"
    n = 24 if not big else 500
    cs = []      # (cmd, type, mat, pos, size, dir, kind)

    def dirs(mat):
        out = [(unit([rng.gauss(0, 1) for _ in range(3)]), "unit")]
        out.append(([rng.gauss(0, 1) * 3 for _ in range(3)], "nonunit"))
        e = [0.0, 0, 0]
        e[rng.randrange(3)] = rng.choice([1.0, -1.0])
        out.append((matvec(mat, e), "local-axis"))
        d = [rng.gauss(0, 1), rng.gauss(0, 1), 0.0]
        rng.shuffle(d)
        out.append((matvec(mat, unit(d)), "zero-component"))
        return out
    for k in range(n):
        for t in TYPES:
            mat = G.rmat(rng) if k % 4 else rot_special(rng)
            pos = G.rvec(rng, 2.0)
            size = [rng.uniform(0.02, 1.0) for _ in range(3)]
            for d, kind in dirs(mat):
                cs.append(("SUP", t, mat, pos, size, d, kind))
            if t == CAPSULE:
                cs.append(("LINE", t, mat, pos, size, dirs(mat)[rng.randrange(4)][0], "line"))
            if t == SPHERE:
                cs.append(("POINT", t, mat, pos, size, dirs(mat)[0][0], "point"))
    # exact zeros, signed zeros, zero and tiny directions (degenerate arms of ellipsoid / cylinder)
    for t in TYPES:
        for mat in (EYE, rot_special(rng)):
            size = [0.25, 0.5, 0.75]
            for d in ([0.0, 0, 0], [0.0, 0, 1.0], [0.0, 0, -1.0], [1.0, 0, 0], [0, -1.0, 0], [-0.0, 0.0, 1.0], [0.0, -0.0, -0.0], [1e-16, 0, 0], [1e-15, 1e-15, 0],
                      [3e-16, -3e-16, 1.0], [2e-15, 0, 1.0], [1e-15, 0, -1.0], [0.6, 0, 0.8], [0, 0.6, -0.8], [1e-200, 0, 0], [4e-15, 3e-15, 0], [7e-16, 7e-16, 7e-16]):
                cs.append(("SUP", t, mat, [0.5, -1.0, 2.0], size, d, "special"))
            cs.append(("LINE", CAPSULE, mat, [0.5, -1.0, 2.0], size, [0.0, 0, 0], "line")) if t == CAPSULE else None
            cs.append(("LINE", CAPSULE, mat, [0.5, -1.0, 2.0], size, [1.0, 0, 0], "line")) if t == CAPSULE else None
    return cs


def mesh_cases(ctx):
    rng = ctx.rng
    big = ctx.tier != "quick"
    cs = []
    for k in range(30 if not big else 300):
        nv = rng.choice([1, 2, 3, 4, 8, 20, 60])
        if rng.random() < 0.3:      # lattice vertices: ties between dot products
            verts = [[f32(rng.choice([-1.0, 0.0, 1.0])) for _ in range(3)] for _ in range(nv)]
        else:
            verts = [[f32(rng.uniform(-1, 1)) for _ in range(3)] for _ in range(nv)]
        mat = G.rmat(rng) if k % 3 else rot_special(rng)
        pos = G.rvec(rng, 2.0)
        vi = rng.choice([-1, -1, rng.randrange(nv)])
        d = unit([rng.gauss(0, 1) for _ in range(3)]) if k % 5 else matvec(mat, [0.0, 0.0, 1.0])
        cs.append((mat, pos, verts, vi, d))
    return cs


def mink_cases(ctx):
    rng = ctx.rng
    big = ctx.tier != "quick"
    cs = []
    for k in range(40 if not big else 600):
        t1, t2 = rng.choice(TYPES), rng.choice(TYPES)
        o = []
        for t in (t1, t2):
            o.append((t, G.rmat(rng) if k % 4 else rot_special(rng), G.rvec(rng, 2.0), [rng.uniform(0.05, 1.0) for _ in range(3)], rng.choice([0.0, 0.0, 0.1, 0.01, -0.1])))
        if k % 2:
            d = unit([rng.gauss(0, 1) for _ in range(3)]) if k % 6 else [0.0, 0.0, 1.0]
            cs.append(("MINK", o[0], o[1], d))
        else:
            x = [rng.gauss(0, 1) for _ in range(3)]
            cs.append(("GJKS", o[0], o[1], x + [norm(x)]))
    return cs


def coq_pre():
    return "\n".join([
        "Definition g (l : list float) (i : nat) : float := nth i l 0%float.",
        "Definition V (l : list float) (i : nat) : vec3 float := (g l i, g l (i+1), g l (i+2)).",
        "Definition M (l : list float) (i : nat) : mat3 float := (g l i, g l (i+1), g l (i+2), g l (i+3), g l (i+4), g l (i+5), g l (i+6), g l (i+7), g l (i+8)).",
        "Fixpoint vlist (l : list float) : list (vec3 float) := match l with a :: b :: c :: r => (a, b, c) :: vlist r | _ => [] end.",
        "Definition zf (z : Z) : float := nofZ z.",
        "(* support function of a geom given as type, mat, pos, size (the callback chosen by mjc_initCCDObj) *)",
        "Definition sup (t : Z) (mat : mat3 float) (pos size d : vec3 float) : vec3 float :=",
        "  let '(s0, s1, s2) := size in",
        "  if (t =? 2)%Z then sphereSupport pos s0 d else if (t =? 3)%Z then capsuleSupport mat pos s0 s1 d",
        "  else if (t =? 4)%Z then ellipsoidSupport mat pos size d else if (t =? 5)%Z then cylinderSupport mat pos s0 s1 d",
        "  else fst (boxSupport mat pos size d).",
        "Definition model (op : Z) (t : Z) (a : list float) : list float :=",
        "  let mat := M a 0 in let pos := V a 9 in let size := V a 12 in let d := V a 15 in",
        "  if (op =? 0)%Z then v2l (sup t mat pos size d) ++ [if (t =? 6)%Z then zf (snd (boxSupport mat pos size d)) else zf (-1)]",
        "  else if (op =? 1)%Z then v2l (lineSupport mat pos (g a 13) d) ++ [zf (-1)]",
        "  else if (op =? 2)%Z then v2l (pointSupport pos) ++ [zf (-1)]",
        "  else if (op =? 3)%Z then (* mesh: mat pos dir then the vertices; t = cached index *)",
        "    let r := meshSupport mat pos (vlist (skipn 15 a)) t (V a 12) in v2l (fst r) ++ [zf (snd r)]",
        "  else (* Minkowski: obj1 = a[0..16) obj2 = a[16..32) then dir[3] or x_k[3] x_norm; t = 10*type1 + type2 *)",
        "    let t1 := (t / 10)%Z in let t2 := (t mod 10)%Z in",
        "    let s1 := sup t1 (M a 0) (V a 9) (V a 12) in let s2 := sup t2 (M a 16) (V a 25) (V a 28) in",
        "    let r := if (op =? 4)%Z then minkSupport s1 s2 (g a 15) (g a 31) (V a 32) (scl3 (V a 32) (nopp none))",
        "             else gjkSupport s1 s2 (g a 15) (g a 31) (V a 32) (g a 35) in",
        "    let '(v, v1, v2) := r in v2l v ++ v2l v1 ++ v2l v2.",
        "Definition chk (c : Z * Z * list float * list float) : bool := let '(op, t, a, out) := c in fclose_list %s (model op t a) out." % TOL,
    ]) + "\n"


def check_support_point(ctx, t, mat, pos, size, d, res, kind):
    """oracle 1: the returned point lies in the shape and attains the support value (unit / generic directions only)"""
    S = Shape(t, size, pos, mat)
    nd = norm(d)
    sc = 1 + max(abs(v) for v in pos) + max(size)
    sig = {"site": "support", "shape": NAME[t]}
    if any(v != v for v in res):
        ctx.violation("impl_violation", {"type": NAME[t], "mat": mat, "pos": pos, "size": size, "dir": d}, expected="finite point", observed=res, theorem="C15 oracle: support point finite", signature=dict(sig, **{"class": "nan"}))
        return
    needs_unit = t in (SPHERE, CAPSULE)
    if needs_unit and abs(nd - 1) > 1e-12:
        return
    ex = S.excess(res)
    if ex > 1e-9 * sc:
        ctx.violation("impl_violation", {"type": NAME[t], "mat": mat, "pos": pos, "size": size, "dir": d, "kind": kind}, expected="support point inside the shape", observed={"point": res, "excess": ex},
                      theorem="C15_support_" + NAME[t], signature=dict(sig, **{"class": "membership"}))
    if nd < 1e-9:
        return
    ld = mattvec(mat, d)
    if t == ELLIPSOID and sum((ld[i] * size[i]) ** 2 for i in range(3)) < 1e-28:
        return
    slack = size[0] * math.hypot(ld[0], ld[1]) if (t == CYLINDER and ld[0] * ld[0] + ld[1] * ld[1] < 1e-29) else 0.0
    want = S.h(d)
    got = dot(res, d)
    if got < want - slack - 1e-9 * sc * nd:
        ctx.violation("impl_violation", {"type": NAME[t], "mat": mat, "pos": pos, "size": size, "dir": d, "kind": kind}, expected="<point, dir> = support value %.17g" % want, observed={"point": res, "value": got},
                      theorem="C15_support_" + NAME[t], signature=dict(sig, **{"class": "maximal"}))


# ------------------------------------------------------------------------------------- distance oracle cases
def dist_cases(ctx):
    rng = ctx.rng
    big = ctx.tier != "quick"
    n = 70 if not big else 900
    cs = []
    pairs = [(SPHERE, ELLIPSOID), (CAPSULE, ELLIPSOID), (CAPSULE, CYLINDER), (ELLIPSOID, ELLIPSOID), (ELLIPSOID, CYLINDER), (ELLIPSOID, BOX),
             (CYLINDER, CYLINDER), (CYLINDER, BOX), (BOX, BOX)]
    for k in range(n):
        t1, t2 = pairs[k % len(pairs)]
        if rng.random() < 0.5:
            t1, t2 = t2, t1
        s1 = [rng.uniform(0.05, 0.3) for _ in range(3)]
        s2 = [rng.uniform(0.05, 0.3) for _ in range(3)]
        q1, q2 = G.rquat(rng), G.rquat(rng)
        if k % 7 == 0:           # aligned configurations: parallel faces / axes
            q1 = [1.0, 0, 0, 0]
            q2 = rng.choice([[1.0, 0, 0, 0], [math.sqrt(0.5), math.sqrt(0.5), 0, 0], [math.sqrt(0.5), 0, 0, math.sqrt(0.5)]])
        p1 = G.rvec(rng, 0.3)
        A = Shape(t1, s1, p1, G.quat2mat(q1))
        dirv = unit(G.rvec(rng))
        # place the second body so that the gap along dirv is about `gap` (bisection on overlap along the ray)
        gap = rng.choice([rng.uniform(0.0, 0.2), rng.uniform(0.0, 0.02), rng.uniform(-0.015, 0.0), rng.uniform(-0.05, 0.0), rng.uniform(-0.03, -0.005), rng.uniform(-0.12, -0.03), 1e-4, -1e-4])
        lo, hi = 0.0, 2.0
        for _ in range(40):
            mid = 0.5 * (lo + hi)
            B = Shape(t2, s2, add(p1, scl(dirv, mid)), G.quat2mat(q2))
            # crude separation measure along dirv
            sep = -B.h(scl(dirv, -1.0)) - A.h(dirv)
            if sep < gap:
                lo = mid
            else:
                hi = mid
        p2 = add(p1, scl(dirv, 0.5 * (lo + hi)))
        cs.append((t1, s1, p1, q1, t2, s2, p2, q2))
    # exactly axis-aligned PENETRATING pairs (millimetres deep) in the world frame: centres on a common world axis (+-z, +-x, +-y: the first
    # geom below / above / beside the second one), geom axes mapped onto world axes.  GJK then ends with a segment through the origin that is
    # exactly parallel to a coordinate axis (polytope2 / hexahedron start of the EPA).  Both geom orders are run by the caller.
    acombos = [(tA, tB, q, d, gap) for (tA, tB) in pairs + [(b, a) for (a, b) in pairs if a != b] for (_, q) in G.ALIGNED_QUATS[:4]
               for d in ([0.0, 0, 1.0], [0.0, 0, -1.0], [1.0, 0, 0], [-1.0, 0, 0], [0, 1.0, 0], [0, -1.0, 0]) for gap in (-0.002, -0.008, -0.03)]
    must = [c for c in acombos if c[2] == G.ALIGNED_QUATS[0][1] and c[3][2] != 0 and c[4] == -0.008]      # every pair, +-z, identity orientation
    rest = [c for c in acombos if c not in must]
    for (tA, tB, qB, d, gap) in must + rng.sample(rest, 30 if not big else 400):
        sA = [rng.choice([0.1, 0.15]), rng.choice([0.2, 0.12]), rng.choice([0.25, 0.08])]
        sB = [rng.choice([0.1, 0.2]), rng.choice([0.1, 0.15]), rng.choice([0.12, 0.3])]
        pA = [float(rng.randrange(-2, 3)) * 0.25 for _ in range(3)]           # dyadic centre: the alignment stays exact
        A0, B0 = Shape(tA, sA, [0.0, 0, 0], EYE), Shape(tB, sB, [0.0, 0, 0], G.quat2mat(qB))
        off = A0.h(d) + B0.h(scl(d, -1.0)) + gap
        cs.append((tA, sA, pA, [1.0, 0, 0, 0], tB, sB, add(pA, scl(d, off)), list(qB)))
    cs += deep_cases(ctx)
    return cs


def deep_cases(ctx):
    """DEEP penetration: the centre of the first body lies inside the second one (for a sphere / capsule: its core, the point or
    segment mjc_ccd shrinks it to, is inside the other geom, so the shallow 'inflate' shortcut is not taken and the full GJK+EPA
    runs).  Generic stratum: random off-axis interior points, random orientations.  Family stratum 'deep-core-on-axis' (KNOWN
    finding C15-F2): sphere / capsule centre exactly on a principal axis of, or at the centre of, the other geom."""
    rng = ctx.rng
    big = ctx.tier != "quick"
    cs = []
    cores = [SPHERE, CAPSULE]
    others = [ELLIPSOID, CYLINDER, BOX]
    gen_pairs = [(a, b) for a in cores for b in others if not (a == SPHERE and b in (CYLINDER, BOX)) and not (a == CAPSULE and b == BOX)]
    gen_pairs += [(ELLIPSOID, ELLIPSOID), (ELLIPSOID, CYLINDER), (CYLINDER, ELLIPSOID), (ELLIPSOID, BOX), (CYLINDER, CYLINDER), (CYLINDER, BOX), (BOX, CYLINDER), (BOX, BOX)]

    def interior(tB, sB, frac):
        """a point of the geom frame at relative depth: frac = 0 centre ... 1 surface, along a random off-axis direction"""
        while True:
            u = unit([rng.gauss(0, 1) for _ in range(3)])
            if min(abs(x) for x in u) > 0.15:
                break
        S = Shape(tB, sB, [0.0, 0, 0], EYE)
        lo, hi = 0.0, 2.0
        for _ in range(50):
            mid = 0.5 * (lo + hi)
            if S.excess(scl(u, mid)) < 0:
                lo = mid
            else:
                hi = mid
        return scl(u, lo * frac)
    reps = 2 if not big else 25
    for (tA, tB) in gen_pairs:
        for k in range(reps):
            sA = [rng.uniform(0.04, 0.12), rng.uniform(0.05, 0.2), rng.uniform(0.04, 0.12)]
            sB = [rng.uniform(0.15, 0.4), rng.uniform(0.15, 0.4), rng.uniform(0.15, 0.4)]
            qB, qA = G.rquat(rng), G.rquat(rng)
            pBw = G.rvec(rng, 0.5)
            pA = Shape(tB, sB, pBw, G.quat2mat(qB)).to_world(interior(tB, sB, rng.choice([0.2, 0.5, 0.8, rng.uniform(0.05, 0.95)])))
            cs.append((tA, sA, pA, qA, tB, sB, pBw, qB, None))
    # the on-axis family
    for (tA, tB) in [(SPHERE, ELLIPSOID), (CAPSULE, ELLIPSOID), (CAPSULE, CYLINDER)]:
        for k in range(2 if not big else 12):
            sA = [rng.choice([0.1, 0.05]), rng.choice([0.1, 0.15]), 0.1]
            sB = [rng.choice([0.5, 0.25]), rng.choice([0.3, 0.2]), rng.choice([0.2, 0.25])]
            axis = rng.randrange(3)
            ext = sB[axis] if tB != CYLINDER else (sB[0] if axis < 2 else sB[1])
            off = [0.0, 0, 0]
            off[axis] = ext * rng.choice([0.0, 0.25, 0.5, 0.75, rng.uniform(0, 0.9)]) * rng.choice([1, -1])
            q = G.rquat(rng) if k % 2 else [1.0, 0, 0, 0]
            cs.append((tA, sA, matvec(G.quat2mat(q), off), list(q), tB, sB, [0.0, 0, 0], list(q), "deep-core-on-axis"))
    return cs


def touching_cases(ctx):
    """axis-aligned pairs of GJK/EPA shapes exactly touching (gap 0) and nearly touching (|gap| from 1e-12 to 1e-5, both signs), in the
    canonical frame and under a common random rigid motion.  B is centred on a principal axis d of A with its own axes mapped onto
    A's axes, so both bodies are symmetric about the line of centres and the true signed distance along d equals the gap exactly."""
    rng = ctx.rng
    big = ctx.tier != "quick"
    pairs = [(ELLIPSOID, ELLIPSOID), (ELLIPSOID, CYLINDER), (ELLIPSOID, BOX), (CYLINDER, CYLINDER), (CYLINDER, BOX), (BOX, BOX),
             (SPHERE, ELLIPSOID), (CAPSULE, ELLIPSOID), (CAPSULE, CYLINDER)]
    combos = [(tA, tB, qn, q, dn, d, gap) for (tA, tB) in pairs for (qn, q) in G.ALIGNED_QUATS[:4] for (dn, d) in (G.ALIGNED_DIRS[0], G.ALIGNED_DIRS[2], G.ALIGNED_DIRS[3])
              for gap in (0.0, 1e-12, -1e-12, 1e-10, -1e-10, 1e-9, -1e-9, 1e-8, -1e-8, 1e-7, -1e-7, 1e-6, -1e-6, 1e-5, -1e-5)]
    if not big:
        combos = rng.sample(combos, 60) + [c for c in combos if c[0] == CYLINDER and c[1] == CYLINDER and c[2] == "aligned" and c[4] == "+y"]
    out = []
    for gid, (tA, tB, qn, qB, dn, d, gap) in enumerate(combos):
        sA = [rng.choice([0.1, 0.15]), rng.choice([0.2, 0.12]), rng.choice([0.25, 0.08])]
        sB = [rng.choice([0.1, 0.2]), rng.choice([0.1, 0.15]), rng.choice([0.12, 0.3])]
        A0, B0 = Shape(tA, sA, [0.0, 0, 0], EYE), Shape(tB, sB, [0.0, 0, 0], G.quat2mat(qB))
        pB = scl(d, A0.h(d) + B0.h(scl(d, -1.0)) + gap)
        qR = unit(G.qmul(G.qmul(G.qaxis([0, 0, 1.0], rng.uniform(0.3, 2.8)), G.qaxis([0, 1.0, 0], rng.uniform(0.2, 1.3))), G.qaxis([1.0, 0, 0], rng.uniform(0.2, 1.3))))
        for motion in (None, (qR, G.rvec(rng, 1.0))):
            out.append(dict(group=gid, label="%s-%s %s along %s gap %g" % (NAME[tA], NAME[tB], qn, dn, gap), tA=tA, sA=sA, tB=tB, sB=sB, qB=qB, pB=pB, gap=gap, motion=motion, swap=False))
    return out


def touching_line(c, margin):
    (tA, sA, pA, qA, tB, sB, pB, qB) = G.aligned_world(c)
    return "WORLD %d %s %d %s %s\n" % (tA, " ".join(hx(x) for x in sA + pA + qA), tB, " ".join(hx(x) for x in sB + pB + qB), " ".join(hx(x) for x in [margin, 0, margin, 0, 1.0]))


def touching_oracle(ctx, cases, results, results0, stats):
    """KNOWN finding C15-F1 (class touching-degenerate): aligned (axis-parallel / perpendicular) GJK/EPA pairs with |gap| <= 1e-5.
    results: worlds with margin 0.01 per geom (mj_geomDistance clause); results0: the same worlds with margin 0 (contact clause)."""
    for c, w, w0 in zip(cases, results, results0):
        world = list(G.aligned_world(c))
        case = {"touching": c["label"], "world": world, "rigid_motion": c["motion"]}
        sig = {"site": "mjc_ccd", "class": "touching-degenerate" if abs(c["gap"]) <= 1e-5 else "distance"}
        if w is None or w0 is None:
            continue
        stats["touching_checked"] = stats.get("touching_checked", 0) + 1
        bad = None
        for which in ("gd12", "gd21"):
            err = abs(w[which] - c["gap"])
            stats["touching_max_err"] = max(stats.get("touching_max_err", 0.0), err)
            if err > 2e-6 and bad is None:
                bad = ("mj_geomDistance of (nearly) touching bodies equals the gap", c["gap"], {which: w[which]})
        if bad is None and not (c["tA"] == BOX and c["tB"] == BOX):
            # contacts of mj_collision with margin 0: none when separated by more than the tolerance, else dist = gap
            d0 = [x["dist"] for x in w0["cons"]]
            if d0:
                stats["touching_contact_max_err"] = max(stats.get("touching_contact_max_err", 0.0), max(abs(x - c["gap"]) for x in d0))
            if any(abs(x - c["gap"]) > 2e-6 for x in d0):
                bad = ("contact dist of (nearly) touching bodies at margin 0 equals the gap", c["gap"], d0)
            elif c["gap"] < -2e-6 and not d0:
                bad = ("overlapping bodies get a contact at margin 0", "a contact with dist %.3g" % c["gap"], "ncon=0")
        if bad:
            stats["touching_failures"] = stats.get("touching_failures", 0) + 1
            ctx.violation("impl_violation", dict(case, what=bad[0]), expected=bad[1], observed=bad[2], theorem="C15 oracle: distance of touching bodies", signature=sig)


def world_line(c, swap):
    (t1, s1, p1, q1, t2, s2, p2, q2) = c[:8]
    if swap:
        (t1, s1, p1, q1, t2, s2, p2, q2) = (t2, s2, p2, q2, t1, s1, p1, q1)
    # margins 0, gaps 0 except a detection margin large enough to obtain contacts for near pairs; distmax 1
    return "WORLD %d %s %d %s %s\n" % (t1, " ".join(hx(x) for x in s1 + p1 + q1), t2, " ".join(hx(x) for x in s2 + p2 + q2), " ".join(hx(x) for x in [0.005, 0, 0.005, 0, 1.0]))


def parse_world(line):
    t = line.split()
    if t[0] == "ERR":
        return None
    ncon = int(t[0])
    v = [unhx(x) for x in t[1:16]]
    rest = t[16:]
    cons = []
    for i in range(ncon):
        r = rest[16 * i:16 * i + 16]
        vals = [unhx(x) for x in r[:14]]
        cons.append(dict(dist=vals[0], pos=vals[1:4], normal=vals[4:7], g=(int(r[14]), int(r[15]))))
    return dict(detect=v[0], gd12=v[1], ft12=v[2:8], gd21=v[8], ft21=v[9:15], cons=cons)


def run(ctx):
    rng = ctx.rng
    phase = {}
    t0 = time.time()
    ctx.coq_props(allowed_axioms=F.STD_AXIOMS, extra_targets=["Lib/Num.vo", "Lib/NumF.vo", "Model/Spatial.vo", "Model/CollidePrim.vo", "Model/ConvexSupport.vo"])
    phase["coq_props"] = round(time.time() - t0, 1)
    t0 = time.time()
    e_sup = ctx.driver("c15_support", ["c15_support.c"])
    e_gjk = ctx.driver("c15_gjk", ["c15_gjk.c"])
    e_w = ctx.driver("c13_prim", ["c13_prim.c"])
    phase["build"] = round(time.time() - t0, 1)
    ctx.cov["support"]["phase_s"] = phase
    if e_sup is None or e_gjk is None or e_w is None:
        return
    t0 = time.time()
    coq_cases, descr, kinds = [], [], {}
    # ---------------- per-shape support functions
    scs = support_cases(ctx)
    inp = "".join(("SUP %d " % c[1] if c[0] == "SUP" else c[0] + " ") + " ".join(hx(x) for x in c[2] + c[3] + c[4] + c[5]) + "\n" for c in scs)
    rc, out, err = ctx.run(e_sup, inp)
    lines = out.strip("\n").split("\n") if out.strip() else []
    if rc != 0 or len(lines) != len(scs):
        ctx.broken.append(("correspondence", "driver c15_support failed (SUP)", "rc=%s lines=%d/%d %s" % (rc, len(lines), len(scs), err[-800:])))
        return
    OPC = {"SUP": 0, "LINE": 1, "POINT": 2}
    for c, line in zip(scs, lines):
        cmd, t, mat, pos, size, d, kind = c
        kinds["%s:%s:%s" % (cmd, NAME[t], kind)] = kinds.get("%s:%s:%s" % (cmd, NAME[t], kind), 0) + 1
        tk = line.split()
        if tk[0] == "ERR":
            ctx.violation("impl_violation", {"cmd": cmd, "type": NAME[t]}, expected="a support point", observed="no support callback", theorem="C15 oracle: mjc_initCCDObj installs a support function",
                          signature={"site": "mjc_initCCDObj", "shape": NAME[t]})
            continue
        res = [unhx(x) for x in tk[:3]]
        vi = int(tk[3])
        if cmd == "SUP":
            check_support_point(ctx, t, mat, pos, size, d, res, kind)
        elif cmd == "LINE" and norm(d) > 0:
            a = [mat[2], mat[5], mat[8]]
            want = dot(pos, d) + size[1] * abs(dot(a, d))
            if dot(res, d) < want - 1e-9 * (1 + abs(want)) or abs(abs(dot(sub(res, pos), a)) - size[1]) > 1e-9:
                ctx.violation("impl_violation", {"cmd": cmd, "mat": mat, "pos": pos, "size": size, "dir": d}, expected="segment end point with value %.17g" % want, observed=res,
                              theorem="C15_support_line", signature={"site": "support", "shape": "line", "class": "maximal"})
        coq_cases.append("(%d%%Z, %d%%Z, %s, %s)" % (OPC[cmd], t, F.flist(mat + pos + size + d), F.flist(res + [float(vi)])))
        descr.append((cmd + " " + NAME[t], kind, mat + pos + size + d, line))
    # ---------------- mesh support
    mcs = mesh_cases(ctx)
    inp = "".join("MESH %s %d %d %s %s\n" % (" ".join(hx(x) for x in mat + pos), len(verts), vi, " ".join(hx(x) for v in verts for x in v), " ".join(hx(x) for x in d)) for mat, pos, verts, vi, d in mcs)
    rc, out, err = ctx.run(e_sup, inp)
    lines = out.strip("\n").split("\n") if out.strip() else []
    if rc != 0 or len(lines) != len(mcs):
        ctx.broken.append(("correspondence", "driver c15_support failed (MESH)", "rc=%s lines=%d/%d %s" % (rc, len(lines), len(mcs), err[-800:])))
        return
    for (mat, pos, verts, vi, d), line in zip(mcs, lines):
        tk = line.split()
        res = [unhx(x) for x in tk[:3]]
        k = int(tk[3])
        kinds["MESH"] = kinds.get("MESH", 0) + 1
        ld = mattvec(mat, d)
        dots = [dot(ld, v) for v in verts]
        ok = 0 <= k < len(verts) and dots[k] >= max(dots) - 1e-12 and norm(sub(res, add(matvec(mat, verts[k]), pos))) < 1e-9
        if not ok:
            ctx.violation("impl_violation", {"cmd": "MESH", "mat": mat, "pos": pos, "verts": verts, "vertindex": vi, "dir": d}, expected="a vertex maximising the dot product (max %.17g)" % max(dots),
                          observed={"index": k, "point": res}, theorem="C15_support_mesh", signature={"site": "support", "shape": "mesh", "class": "maximal"})
        flat = [x for v in verts for x in v]
        coq_cases.append("(3%%Z, (%d)%%Z, %s, %s)" % (vi, F.flist(mat + pos + d + flat), F.flist(res + [float(k)])))
        descr.append(("MESH", "n=%d cached=%d" % (len(verts), vi), mat + pos + d, line))
    # ---------------- Minkowski support
    kcs = mink_cases(ctx)

    def objtxt(o):
        return "%d %s" % (o[0], " ".join(hx(x) for x in o[1] + o[2] + o[3] + [o[4]]))
    inp = "".join("%s %s %s %s\n" % (cmd, objtxt(o1), objtxt(o2), " ".join(hx(x) for x in tail)) for cmd, o1, o2, tail in kcs)
    rc, out, err = ctx.run(e_gjk, inp)
    lines = out.strip("\n").split("\n") if out.strip() else []
    if rc != 0 or len(lines) != len(kcs):
        ctx.broken.append(("correspondence", "driver c15_gjk failed", "rc=%s lines=%d/%d %s" % (rc, len(lines), len(kcs), err[-800:])))
        return
    for (cmd, o1, o2, tail), line in zip(kcs, lines):
        kinds[cmd] = kinds.get(cmd, 0) + 1
        if line.strip() == "ERR":
            continue
        vals = [unhx(x) for x in line.split()]
        v, v1, v2 = vals[0:3], vals[3:6], vals[6:9]
        # oracle: vert = vert1 - vert2 and it attains the Minkowski support value along dir (unit directions)
        d = tail[:3] if cmd == "MINK" else scl(tail[:3], -1.0 / tail[3])
        A, B = Shape(o1[0], o1[3], o1[2], o1[1]), Shape(o2[0], o2[3], o2[2], o2[1])
        want = A.h(d) + B.h(scl(d, -1.0)) + 0.5 * max(0.0, o1[4]) + 0.5 * max(0.0, o2[4])
        if abs(norm(d) - 1) < 1e-9 and (norm(sub(v, sub(v1, v2))) > 1e-12 or abs(dot(v, d) - want) > 1e-9 * (1 + abs(want))):
            ctx.violation("impl_violation", {"cmd": cmd, "obj1": o1, "obj2": o2, "tail": tail}, expected="vert = vert1 - vert2 with <vert, dir> = h_A(dir) + h_B(-dir) (+ margins/2) = %.17g" % want,
                          observed={"vert": v, "vert1": v1, "vert2": v2, "value": dot(v, d)}, theorem="C15_minkowski", signature={"site": "support()", "class": "minkowski"})
        a = o1[1] + o1[2] + o1[3] + [o1[4]] + o2[1] + o2[2] + o2[3] + [o2[4]] + tail
        coq_cases.append("(%d%%Z, %d%%Z, %s, %s)" % (4 if cmd == "MINK" else 5, 10 * o1[0] + o2[0], F.flist(a), F.flist(vals)))
        descr.append((cmd + " %s-%s" % (NAME[o1[0]], NAME[o2[0]]), "", a, line))
    phase["support_calls_and_oracle"] = round(time.time() - t0, 1)
    t0 = time.time()
    fails = ctx.coq_eval("c15", "From Coq Require Import ZArith PrimFloat Bool.\nFrom MJV Require Import Lib.Num Lib.NumF Model.Spatial Model.ConvexSupport.\nOpen Scope nat_scope.",
                         coq_cases, "chk", pre=coq_pre())
    seen = set()
    for i in fails:
        op, kind, a, line = descr[i]
        if (op, kind) in seen:
            continue
        seen.add((op, kind))
        ctx.violation("correspondence", {"op": op, "kind": kind, "args": a}, expected="model output (Model/ConvexSupport.v at binary64, tolerance 2^-30 scaled)", observed=line[:600],
                      found_input=False, theorem="correspondence c15 " + op, signature={"op": op, "kind": kind},
                      note="implementation and Coq model disagree on this input; the oracle on implementation outputs did not flag it")
    phase["coq_eval"] = round(time.time() - t0, 1)
    t0 = time.time()
    # ---------------- distance oracle through the full pipeline (native GJK/EPA)
    dcs = dist_cases(ctx)
    allstats = {}
    # pass "converged": mjOption.ccd_iterations raised to 200 so that GJK/EPA stop on their tolerance (1e-6): strict tolerances;
    # pass "default": ccd_iterations = 35 as shipped: the EPA on curved shapes is iteration-limited, tolerances scaled with the depth
    for mode, iters in (("converged", 200), ("default", 0)):
        inp = "CCD %d\n" % iters + "".join(world_line(c, False) + world_line(c, True) for c in dcs)
        rc, out, err = ctx.run(e_w, inp)
        lines = out.strip("\n").split("\n") if out.strip() else []
        stats = {"separated_checked": 0, "separated_uncertified": 0, "penetrating_checked": 0, "contacts_checked": 0, "max_sep_err": 0.0,
                 "max_pen_err_shallow": 0.0, "max_pen_err_deep": 0.0, "max_contact_vs_geomdist": 0.0, "max_swap_angle_deg": 0.0}
        allstats[mode] = stats
        if rc != 0 or len(lines) != 2 * len(dcs):
            ctx.broken.append(("correspondence", "driver c13_prim failed (WORLD for C15)", "rc=%s lines=%d/%d %s" % (rc, len(lines), 2 * len(dcs), err[-800:])))
        else:
            for k, c in enumerate(dcs):
                distance_oracle(ctx, c, parse_world(lines[2 * k]), parse_world(lines[2 * k + 1]), stats, rng, mode)
    stats = allstats["converged"]
    # ---------------- exactly touching / almost touching aligned pairs (the 'touching' clause of the quantifier)
    tcs = touching_cases(ctx)
    rc, out, err = ctx.run(e_w, "CCD 0\n" + "".join(touching_line(c, 0.01) + touching_line(c, 0.0) for c in tcs))
    lines = out.strip("\n").split("\n") if out.strip() else []
    if rc != 0 or len(lines) != 2 * len(tcs):
        ctx.broken.append(("correspondence", "driver c13_prim failed (touching stream for C15)", "rc=%s lines=%d/%d %s" % (rc, len(lines), 2 * len(tcs), err[-800:])))
    else:
        touching_oracle(ctx, tcs, [G.parse_world_line(l) for l in lines[0::2]], [G.parse_world_line(l) for l in lines[1::2]], stats)
    phase["distance_oracle"] = round(time.time() - t0, 1)
    # ---------------- coverage
    ctx.cov["evaluations"] = len(coq_cases) + 2 * len(dcs)
    ctx.cov["distinct_nontrivial"] = sum(1 for d in descr if len(set(abs(v) for v in d[2])) > 4) + stats["separated_checked"] + stats["penetrating_checked"]
    ctx.cov["rule"] = ("every support call (5 primitive shapes through the callback installed by mjc_initCCDObj, mjc_lineSupport, mjc_pointSupport, mjc_meshSupport with and without cached index, static support()/gjkSupport() with and without margins; "
                       "directions: random unit, non-unit, local axes, zero components, signed zeros, zero and sub-mjMINVAL vectors; rotation matrices random and exact signed permutations) is evaluated in the Coq model at binary64 and compared with tolerance 2^-30 scaled; "
                       "non-trivial = case whose arguments take more than four distinct absolute values, plus every two-geom world whose distance was certified against the reference")
    ctx.cov["samples"] = [{"op": d[0], "kind": d[1], "args": d[2][:40]} for d in (descr[:1] + descr[len(descr) // 2:len(descr) // 2 + 1] + descr[-1:])]
    ctx.cov["correspondence_disagreements"] = len(fails)
    ctx.cov["support"]["cases_per_kind"] = kinds
    ctx.cov["support"]["distance_oracle"] = allstats
    ctx.cov["explanation"] = ("theorems of Props/C15.v proved over R for all inputs; model tied to the real support functions on %d calls; distance oracle on %d two-geom worlds x 2 geom orders "
                              "(%d separated pairs certified, %d penetrating pairs)" % (len(coq_cases), len(dcs), stats["separated_checked"], stats["penetrating_checked"]))


def distance_oracle(ctx, c, w1, w2, stats, rng, mode):
    (t1, s1, p1, q1, t2, s2, p2, q2) = c[:8]
    family = c[8] if len(c) > 8 else None
    key = "%s-%s" % (NAME[t1], NAME[t2])
    case = {"world": [t1, s1, p1, q1, t2, s2, p2, q2], "ccd_iterations": 200 if mode == "converged" else 35}
    strict = mode == "converged"
    sig = {"site": "mjc_ccd", "pair": "-".join(sorted([NAME[t1], NAME[t2]]))}

    def viol(what, exp, obs, cls):
        ctx.violation("impl_violation", dict(case, what=what, family=family), expected=exp, observed=obs, theorem="C15 oracle: " + what,
                      signature=dict(sig, **{"class": family or cls}))
    if w1 is None or w2 is None:
        viol("mj_collision / mj_geomDistance run without error", "results", "ERR", "error")
        return
    A, B = Shape(t1, s1, p1, G.quat2mat(q1)), Shape(t2, s2, p2, G.quat2mat(q2))
    gd = w1["gd12"]
    # ---- swap symmetry of mj_geomDistance: within one world (two argument orders) and across the two worlds (roles of the bodies exchanged)
    alld = [w1["gd12"], w1["gd21"], w2["gd12"], w2["gd21"]]
    deep = min(alld) < -0.02
    dmax = abs(min(min(alld), 0.0))
    # default settings (35 iterations): the EPA is iteration-limited, 0.5 percent up to depth 0.05, observed up to 1.9 percent (and 21 degrees) for deeper penetrations
    relax = 5e-3 if dmax < 0.05 else 3e-2
    symtol = 2e-6 if strict else relax * dmax + 1e-5
    if max(alld) - min(alld) > symtol:
        viol("mj_geomDistance gives the same distance when the two geoms are swapped", "equal distances (tolerance %g)" % symtol, alld, "swap-distance")
    # witness points exchanged: normal reversed (only when the witness pair is unique enough: compare directions)
    if gd < 1.0 and abs(gd) > 1e-6 and family is None:      # (on-axis family: axisymmetric, the penetration direction is not unique)
        n12 = sub(w1["ft12"][3:], w1["ft12"][:3])
        n21 = sub(w1["ft21"][3:], w1["ft21"][:3])
        if norm(n12) > 1e-9 and norm(n21) > 1e-9:
            cosang = dot(n12, n21) / (norm(n12) * norm(n21))
            if cosang > -1 + (1e-3 if strict else (3e-2 if dmax < 0.05 else 0.15)):     # default: tip-to-tip ellipsoids 11 degrees at depth 0.008
                viol("swapping the geoms reverses the normal (witness points exchanged)", "normals opposite (cos = -1)", {"cos": cosang, "ft12": w1["ft12"], "ft21": w1["ft21"]}, "swap-normal")
    # ---- reference distance
    ref = separated_reference(A, B)
    if gd > 1e-9 and ref is not None:
        lb, ub, a, b = ref
        if ub - lb < 1e-7:
            stats["separated_checked"] += 1
            err = max(lb - gd, gd - ub, 0.0)
            stats["max_sep_err"] = max(stats["max_sep_err"], err)
            if err > 1e-6:
                viol("separation distance matches the reference", "distance in [%.17g, %.17g]" % (lb, ub), gd, "distance")
        else:
            stats["separated_uncertified"] += 1
    elif gd <= 1e-9:
        # penetration: extent along the reported normal and minimality
        n = sub(w1["ft12"][3:], w1["ft12"][:3])
        starts = [sub(p2, p1)]
        if norm(n) > 1e-12:
            # fromto goes from the surface point of geom 1 to that of geom 2: for penetration it points from 2 into 1, i.e. -normal
            starts += [scl(n, -1.0), n]
        for con in w1["cons"]:
            starts += [con["normal"], scl(con["normal"], -1.0)]
        depth = -gd
        refd, refdir = penetration_reference(A, B, starts, rng)
        stats["penetrating_checked"] += 1
        tolp = 2e-6 if strict else relax * depth + 1e-5         # default mode: iteration-limited EPA (ellipsoid tips: up to 2.9e-5 at depth 0.008)
        errp = abs(refd - depth)
        if depth < 0.02:
            stats["max_pen_err_shallow"] = max(stats["max_pen_err_shallow"], errp)
        elif family is None:
            stats["max_pen_err_deep"] = max(stats["max_pen_err_deep"], errp)
            stats["max_pen_relerr_deep"] = max(stats.get("max_pen_relerr_deep", 0.0), errp / depth)
        if refd < -1e-9:
            # the reference proves the bodies are separated (a direction with negative extent is a separating direction)
            viol("penetration reported for separated bodies", "separated (extent %.3g along %s)" % (refd, refdir), gd, "distance")
        elif errp > tolp:
            viol("penetration depth matches the reference (minimum extent of the Minkowski difference over unit directions)", refd, depth, "depth")
    # ---- contacts of mj_collision agree with mj_geomDistance (single-contact GJK/EPA pairs; box-box uses its own collider)
    for w in (w1, w2):
        if len(w["cons"]) == 1 and not (t1 == BOX and t2 == BOX):
            stats["contacts_checked"] += 1
            cd = w["cons"][0]["dist"]
            epa_depth = w["detect"] - cd            # the contact is found by EPA on the shapes inflated by margin/2 each
            tolc = 2e-6 if strict else (5e-3 if epa_depth < 0.05 else 3e-2) * epa_depth + 1e-5
            stats["max_contact_vs_geomdist"] = max(stats["max_contact_vs_geomdist"], abs(cd - w["gd12"]))
            if abs(cd - w["gd12"]) > tolc:
                viol("contact dist agrees with mj_geomDistance", w["gd12"], cd, "contact")
    # contact normals of the two worlds (bodies exchanged): both point from the geom of lower type to the other, i.e. same physical direction
    if len(w1["cons"]) == 1 and len(w2["cons"]) == 1 and not (t1 == BOX and t2 == BOX) and abs(w1["cons"][0]["dist"]) > 1e-6 and family is None:
        n1, n2 = w1["cons"][0]["normal"], w2["cons"][0]["normal"]
        # world 1: geom ids (0: body A, 1: body B); world 2: (0: body B, 1: body A).  Express both as "from A to B".
        g1 = w1["cons"][0]["g"]
        g2 = w2["cons"][0]["g"]
        nA1 = n1 if g1[0] == 0 else scl(n1, -1.0)
        nA2 = n2 if g2[0] == 1 else scl(n2, -1.0)
        ang = math.degrees(math.acos(max(-1.0, min(1.0, dot(nA1, nA2)))))
        stats["max_swap_angle_deg"] = max(stats["max_swap_angle_deg"], ang)
        # the normal is the normalised difference of two witness points that are only accurate to ~sqrt(tolerance x curvature radius):
        # a few degrees at small depth are inherent to a tolerance-terminated method
        if ang > (3.0 if strict else (15.0 if dmax < 0.05 else 30.0)):
            viol("exchanging the two bodies reverses the contact normal", "same physical direction", {"normal_world1": n1, "geoms1": g1, "normal_world2": n2, "geoms2": g2}, "swap-normal")
