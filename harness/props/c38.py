"""C38 — the asset cache (mjCCache) behaves as a bounded priority cache."""
import re, os
import framework as F

META = {
    "id": "C38", "category": "proof", "design_ref": "DESIGN.md section 4, C38",
    "technique": "Coq proof (invariant by induction over arbitrary operation histories + refinement to an abstract "
                 "finite-map spec) of a hand-written state-machine model of mjCCache, tied to the working tree by exact "
                 "correspondence (C++ driver compiling user_cache.h/.cc, full private-state dump after every operation, "
                 "compared inside Coq) on random histories over 3 models x 4 asset ids; threaded runs replayed in logged "
                 "lock-acquisition order",
    "text": "Proved in Coq for ALL histories of Insert/PopulateData/HasAsset/DeleteAsset/RemoveModel/Reset(model)/Reset/"
            "SetCapacity/Size/Capacity from an empty cache (non-negative sizes and capacities): no operation reaches undefined "
            "behaviour or runs out of fuel (Trim terminates); Size() = sum of the bytes of the held assets and <= capacity; "
            "entries_ is exactly the set of held assets ordered by (access count, insertion number); models_ and the per-asset "
            "reference sets are mutually consistent; Trim evicts the shortest prefix of that order that restores the bound "
            "(every evicted asset is below every survivor); a successful PopulateData returns the data of the most recent Insert "
            "that created the asset or changed its timestamp, and succeeds only if the resource timestamp equals the stored one; "
            "RemoveModel deletes exactly the assets whose only reference was that model, the others survive unchanged except "
            "for the reference (for every iteration order of the unordered_set); every operation refines an abstract "
            "finite-map specification. Concurrency: proved that any interleaving of per-thread operation sequences executed "
            "atomically (each public method holds the single mutex for its whole body) is a sequential history, hence satisfies "
            "all of the above; the premise (each public method takes the mutex exactly once, first statement is the lock_guard, "
            "private helpers take none) is checked on the source text and dynamically on every operation. Adjacent defect noticed, "
            "outside the clauses of the property text and NOT alarmed on: HasAsset returns a pointer into the cache's own node "
            "after releasing the mutex, so under concurrent Reset/Delete/Trim/Insert the caller's read is a use-after-free or "
            "data race (threaded runs therefore compare HasAsset by null-ness only; a single-thread aliasing witness is in "
            "coverage.support). NOT proved: the C++ "
            "memory model / data-race freedom itself, size_t wrap-around (sizes assumed far below 2^64), behaviour of the "
            "std containers (modelled by their specification). The model is tied to the code only by correspondence on the "
            "histories of each run.",
    "note": "Trusted: Coq kernel; hand-written model Model/Cache.v (strings as integers; unordered containers as functions/"
            "sorted lists; entries_ as a list ordered through the comparator; mju_isModifiedResource as timestamp inequality); "
            "correspondence harness (g++, driver c38_cache.cc which replaces std::mutex by a logging mutex via one macro and "
            "reads private members with -fno-access-control). Theorems closed under the global context.",
    "assumptions": ["sizes/capacities are non-negative and far below 2^64 (no size_t wrap-around)",
                    "provider 'modified' callback = timestamp inequality (true of all providers in the tree)",
                    "threads: each public method is atomic because it holds mutex_ for its whole body (premise checked syntactically and by lock counting)",
                    "tie is differential testing on the histories of this run"],
}

IDS = [0, 1, 2, 3]
MS = [0, 1, 2]
DRIVER_FLAGS = ("-fno-access-control",)


# ------------------------------------------------------------------ histories
def gen_op(rng, cnt):
    r = rng.random()
    if r < 0.34:
        cnt[0] += 1
        return ("I", rng.choice(MS), rng.choice(IDS), rng.choice([0, 1, 2]), 100 + cnt[0], rng.choice([0, 1, 2, 3, 3, 5, 8]))
    if r < 0.56:
        return ("P", rng.choice(IDS), rng.choice([-1, 0, 0, 1, 1, 2]), rng.choice([1, 1, 1, 0]))
    if r < 0.62:
        return ("H", rng.choice(IDS))
    if r < 0.68:
        return ("D", rng.choice(IDS))
    if r < 0.78:
        return ("R", rng.choice(MS))
    if r < 0.84:
        return ("X", rng.choice(MS))
    if r < 0.86:
        return ("Z",)
    if r < 0.95:
        return ("C", rng.choice([0, 2, 4, 6, 8, 10, 12, 16, 30]))
    return (rng.choice("SK"),)


def gen_history(rng, n):
    cnt = [0]
    return [gen_op(rng, cnt) for _ in range(n)]


def op_txt(o):
    return " ".join(str(x) for x in o)


def op_coq(o):
    c = o[0]
    if c == "I":
        return "OInsert %d %d %d %d %d" % o[1:]
    if c == "P":
        return "OPop %d %s %s" % (o[1], "None" if o[2] < 0 else "(Some %d)" % o[2], "true" if o[3] else "false")
    if c == "H":
        return "OHas %d" % o[1]
    if c == "D":
        return "ODelete %d" % o[1]
    if c == "R":
        return "ORemoveModel %d" % o[1]
    if c == "X":
        return "OResetModel %d" % o[1]
    if c == "Z":
        return "OReset"
    if c == "C":
        return "OSetCap %d" % o[1]
    return "OSize" if c == "S" else "OCap"


# ------------------------------------------------------------------ driver output
class Toks:
    def __init__(self, s):
        self.t = s.split()
        self.i = 0

    def next(self):
        x = self.t[self.i]
        self.i += 1
        return x

    def num(self):
        return int(self.next())

    def expect(self, w):
        x = self.next()
        if x != w:
            raise ValueError("expected %s got %s at %d" % (w, x, self.i))

    def peek(self):
        return self.t[self.i] if self.i < len(self.t) else None


def parse_res(tk):
    tk.expect("R")
    return [tk.num() for _ in range(tk.num())]


def parse_dump(tk):
    tk.expect("D")
    d = {"cap": tk.num(), "ins": tk.num(), "size": tk.num()}
    tk.expect("E")
    d["ent"] = [tk.num() for _ in range(tk.num())]
    tk.expect("A")
    d["assets"] = {}
    for _ in range(tk.num()):
        i = tk.num()
        a = {"ts": tk.num(), "bytes": tk.num(), "data": tk.num(), "ins": tk.num(), "acc": tk.num()}
        a["refs"] = [tk.num() for _ in range(tk.num())]
        d["assets"][i] = a
    tk.expect("M")
    d["models"] = {}
    for _ in range(tk.num()):
        m = tk.num()
        d["models"][m] = [tk.num() for _ in range(tk.num())]
    return d


def parse_seq(tk, n):
    out = []
    for _ in range(n):
        tk.expect("L")
        locks = tk.num()
        r = parse_res(tk)
        d = parse_dump(tk)
        tk.expect(";")
        out.append((locks, r, d))
    return out


def zl(xs):
    return "[" + "; ".join(("(%d)" % x) if x < 0 else str(x) for x in xs) + "]"


def dump_coq(d):
    """canonical dump as the Coq model prints it (Cache.dump over IDS, MS); None if out of universe."""
    if any(i not in IDS for i in d["assets"]) or any(m not in MS for m in d["models"]):
        return None
    rows = [[d["cap"], d["ins"], d["size"]], d["ent"]]
    for i in IDS:
        a = d["assets"].get(i)
        rows.append([] if a is None else [a["ts"], a["bytes"], a["data"], a["ins"], a["acc"]] + a["refs"])
    for m in MS:
        rows.append(d["models"].get(m, []))
    return "[" + "; ".join(zl(r) for r in rows) + "]"


EMPTY = lambda cap: {"cap": cap, "ins": 0, "size": 0, "ent": [], "assets": {}, "models": {}}


# ------------------------------------------------------------------ independent oracle on implementation output
def state_invariants(d):
    errs = []
    tot = sum(a["bytes"] for a in d["assets"].values())
    if d["size"] != tot:
        errs.append("size_ %d != sum of held asset bytes %d" % (d["size"], tot))
    if d["size"] > d["cap"]:
        errs.append("size_ %d exceeds capacity %d" % (d["size"], d["cap"]))
    if sorted(d["ent"]) != sorted(d["assets"]):
        errs.append("entries_ %s is not the set of held assets %s" % (d["ent"], sorted(d["assets"])))
    else:
        keys = [(d["assets"][i]["acc"], d["assets"][i]["ins"]) for i in d["ent"]]
        if any(not (keys[k] < keys[k + 1]) for k in range(len(keys) - 1)):
            errs.append("entries_ not ordered by (access count, insertion number): %s" % keys)
    for m in set(list(d["models"]) + [r for a in d["assets"].values() for r in a["refs"]]):
        a_side = sorted(i for i, a in d["assets"].items() if m in a["refs"])
        if sorted(d["models"].get(m, [])) != a_side:
            errs.append("model %d: models_ lists %s but assets referencing it are %s" % (m, d["models"].get(m, []), a_side))
    return errs


def oracle(cap0, ops, outs):
    """property-level checks on the implementation's own output; returns [(index, message)]."""
    errs = []
    B = EMPTY(cap0)
    last = {}      # id -> data of the most recent insert that created the asset or changed its timestamp
    for k, (o, (locks, r, A)) in enumerate(zip(ops, outs)):
        def err(msg):
            errs.append((k, msg))
        if locks != 1:
            err("public method acquired the mutex %d times (expected exactly once)" % locks)
        for e in state_invariants(A):
            err(e)
        for i in list(last):
            if i not in B["assets"]:
                del last[i]
        c = o[0]
        same = lambda ids: all(A["assets"].get(i) == B["assets"].get(i) for i in ids)
        tid = o[2] if c == "I" else o[1] if c in "PHD" else None
        others = [i for i in set(B["assets"]) | set(A["assets"]) if i != tid]
        if c in "SKH":
            if A != B:
                err("observer changed the state")
            want = B["size"] if c == "S" else B["cap"] if c == "K" else (B["assets"][o[1]]["ts"] if o[1] in B["assets"] else -1)
            if r != [want]:
                err("%s returned %s, expected %s" % (c, r, want))
        elif c == "P":
            a = B["assets"].get(o[1])
            hit = a is not None and o[2] >= 0 and o[2] == a["ts"]
            if hit:
                if r != [1 if o[3] else 0, a["data"]]:
                    err("lookup of unmodified asset returned %s, expected data %d" % (r, a["data"]))
                if o[1] in last and r[1] != last[o[1]]:
                    err("lookup returned data %d but the most recent insert that (re)defined the asset stored %d" % (r[1], last[o[1]]))
                a2 = dict(a, acc=a["acc"] + 1)
                if A["assets"].get(o[1]) != a2 or not same(others):
                    err("successful lookup must only increment the access count")
            else:
                if r != [0, -1]:
                    err("lookup of absent/modified asset returned %s" % r)
                if A != B:
                    err("failed lookup changed the state")
        elif c == "I":
            _, m, i, ts, data, sz = o
            if r == [0]:
                if A != B:
                    err("refused insert changed the state")
            else:
                a = A["assets"].get(i)
                if a is None or m not in a["refs"]:
                    err("accepted insert: asset absent or not referenced by the inserting model")
                elif i not in B["assets"] or B["assets"][i]["ts"] != ts:
                    last[i] = data
                    if (a["ts"], a["bytes"], a["data"]) != (ts, sz, data):
                        err("accepted insert of new/modified asset did not store (ts,size,data)")
                else:
                    b = B["assets"][i]
                    if (a["ts"], a["bytes"], a["data"]) != (b["ts"], b["bytes"], b["data"]):
                        err("insert with equal timestamp replaced the data")
                if not same(others):
                    err("insert touched another asset")
        elif c == "D":
            if o[1] in A["assets"] or not same(others):
                err("DeleteAsset: wrong set of assets afterwards")
        elif c == "R":
            m = o[1]
            for i, b in B["assets"].items():
                if b["refs"] == [m]:
                    if i in A["assets"]:
                        err("RemoveModel kept asset %d whose only reference was the removed model" % i)
                else:
                    want = dict(b, refs=[x for x in b["refs"] if x != m])
                    if A["assets"].get(i) != want:
                        err("RemoveModel: asset %d still referenced by %s did not survive unchanged: %s" % (i, want["refs"], A["assets"].get(i)))
            if set(A["assets"]) - set(B["assets"]):
                err("RemoveModel created assets")
        elif c == "X":
            m = o[1]
            for i, b in B["assets"].items():
                if m in b["refs"]:
                    if i in A["assets"]:
                        err("Reset(model) kept asset %d of the model" % i)
                elif A["assets"].get(i) != b:
                    err("Reset(model) touched asset %d of other models" % i)
        elif c == "Z":
            if A["assets"] or A["size"] != 0 or A["cap"] != B["cap"]:
                err("Reset() left data behind")
        elif c == "C":
            if A["cap"] != o[1]:
                err("SetCapacity did not set the capacity")
            ev = [i for i in B["assets"] if i not in A["assets"]]
            key = lambda i: (B["assets"][i]["acc"], B["assets"][i]["ins"])
            for i in A["assets"]:
                if A["assets"][i] != B["assets"].get(i):
                    err("SetCapacity changed surviving asset %d" % i)
            if ev and A["assets"] and max(map(key, ev)) > min(map(key, A["assets"])):
                err("eviction does not follow (access count, insertion number): evicted %s kept %s" % (sorted(map(key, ev)), sorted(map(key, A["assets"]))))
            if ev:
                lastev = max(ev, key=key)
                if B["size"] - sum(B["assets"][i]["bytes"] for i in ev if i != lastev) <= o[1]:
                    err("evicted more assets than needed")
        B = A
    return errs


def static_lock_check(repo):
    """premise of the linearisation theorem, on the source text: the first statement of every public
    mjCCache method is a scoped lock of mutex_, private helpers do not lock."""
    src = open(os.path.join(repo, "src/user/user_cache.cc")).read()
    hdr = open(os.path.join(repo, "src/user/user_cache.h")).read()
    src_nc = re.sub(r"//[^\n]*", "", src)
    if len(re.findall(r"\bstd::mutex\s+mutex_\s*;", hdr)) != 1 or len(re.findall(r"mutex", re.sub(r"//[^\n]*|#include[^\n]*", "", hdr))) != 2:
        return "user_cache.h: expected exactly one member `std::mutex mutex_`"
    private = {"Delete", "Trim"}
    found = []
    for m in re.finditer(r"\bmjCCache::(\w+)\s*\(([^)]*)\)\s*(const)?\s*\{", src_nc):
        name = m.group(1)
        i = m.end()
        depth, j = 1, i
        while depth and j < len(src_nc):
            depth += {"{": 1, "}": -1}.get(src_nc[j], 0)
            j += 1
        body = src_nc[i:j - 1]
        lock = re.match(r"\s*std::(lock_guard|scoped_lock|unique_lock)\s*(<[^>]*>)?\s*\w+\s*[({]\s*mutex_\s*[)}]\s*;", body)
        found.append(name)
        if name in private:
            if "mutex_" in body:
                return "private helper %s touches mutex_" % name
        else:
            if not lock:
                return "public method %s does not start by locking mutex_" % name
            if "unlock" in body or body.count("mutex_") != 1:
                return "public method %s manipulates the lock inside its body" % name
    need = {"SetCapacity", "HasAsset", "Insert", "PopulateData", "RemoveModel", "Reset", "Capacity", "Size", "DeleteAsset", "Delete", "Trim"}
    if not need <= set(found):
        return "methods not found in user_cache.cc: %s" % sorted(need - set(found))
    return None


# ------------------------------------------------------------------ running
def run_seq(ctx, exe, cases):
    """cases: [(cap0, ops)] -> list of parsed outputs or None (crash) per case"""
    inp = "".join("S %d %d %s\n" % (cap, len(ops), " ".join(op_txt(o) for o in ops)) for cap, ops in cases)
    rc, out, err = ctx.run(exe, inp, timeout=300)
    lines = out.split("\n")
    res = []
    for k, (cap, ops) in enumerate(cases):
        try:
            res.append(parse_seq(Toks(lines[k]), len(ops)))
        except (ValueError, IndexError):
            res.append(None)
    return rc, res, err


def coq_case(cap, ops, exp):
    """exp: [(res list, dump dict or None)]"""
    es = []
    for r, d in exp:
        dc = None if d is None else dump_coq(d)
        es.append("(%s, %s)" % (zl(r), "None" if dc is None else "Some %s" % dc))
    return "(%d, [%s], [%s])" % (cap, "; ".join(op_coq(o) for o in ops), "; ".join(es))


CHECKER = "fun c => match c with (cap, h, e) => check_trace %s %s h e (init cap) end" % (zl(IDS), zl(MS))
IMPORTS = "From Coq Require Import ZArith.\nFrom MJV Require Import Lib.Eqb Model.Cache.\nOpen Scope Z_scope."


def shrink(ctx, exe, cap, ops, fails):
    """greedy one-op-removal / prefix shrinking; fails(cap, ops, outs) -> bool"""
    cur = list(ops)
    for _ in range(12):
        cands = [cur[:k] for k in range(1, len(cur))] + [cur[:k] + cur[k + 1:] for k in range(len(cur))]
        cands = [c for c in cands if c]
        if not cands:
            break
        rc, res, _ = run_seq(ctx, exe, [(cap, c) for c in cands])
        bad = fails(cap, cands, res)
        if bad is None:
            break
        cur = cands[bad]
    return cur


def run(ctx):
    rng = ctx.rng
    ctx.coq_props(allowed_axioms=(), extra_targets=["Lib/Eqb.vo", "Model/Cache.vo"])
    msg = static_lock_check(ctx.repo)
    if msg:
        ctx.broken.append(("tie", "lock discipline premise of C38_linearizable no longer holds syntactically", msg))
    exe = ctx.driver("c38_cache", ["c38_cache.cc"], extra=DRIVER_FLAGS)
    if exe is None:
        return
    thorough = ctx.tier == "thorough"
    cases = []
    if getattr(ctx, "replay", None) and ctx.replay.get("case") and "ops" in ctx.replay["case"]:
        c = ctx.replay["case"]
        cases.append((c["cap"], [tuple(o) for o in c["ops"]]))
    else:
        # hand-written corner histories first (smallest cases first)
        cases += [(10, [("I", 0, 1, 5, 100, 4), ("I", 1, 2, 5, 101, 4), ("P", 1, 5, 1), ("I", 1, 1, 6, 102, 6), ("C", 5), ("S",)]),
                  (8, [("I", 0, 0, 0, 1, 3), ("I", 1, 0, 0, 2, 3), ("R", 0), ("P", 0, 0, 1), ("R", 1), ("H", 0)]),
                  (8, [("I", 0, 0, 0, 1, 3), ("I", 0, 1, 0, 2, 3), ("I", 1, 1, 1, 3, 5), ("X", 0), ("S",)]),
                  (6, [("I", 0, 0, 0, 1, 3), ("I", 0, 1, 0, 2, 3), ("I", 0, 2, 0, 3, 1), ("P", 0, 0, 1), ("C", 3), ("C", 0)])]
        for n in range(1, 4):
            for _ in range(40 if not thorough else 200):
                cases.append((rng.choice([0, 4, 8, 10, 16]), gen_history(rng, n)))
        for _ in range(500 if not thorough else 2500):
            cases.append((rng.choice([4, 8, 10, 10, 16, 30]), gen_history(rng, rng.randrange(4, 40))))
    rc, res, err = run_seq(ctx, exe, cases)
    crashed = [k for k, r in enumerate(res) if r is None]
    if crashed:
        k = crashed[0]
        cap, ops = cases[k]

        def f_crash(cap, cands, rs):
            for j, r in enumerate(rs):
                if r is None:
                    return j
            return None
        small = shrink(ctx, exe, cap, ops, f_crash)
        ctx.violation("impl_violation", {"cap": cap, "ops": small}, expected="every history runs to completion",
                      observed="driver crashed / produced no output (rc=%s %s)" % (rc, err[-300:]), theorem="C38_no_ub",
                      signature={"site": "mjCCache", "kind": "crash"})
        cases = [c for k2, c in enumerate(cases) if res[k2] is not None]
        res = [r for r in res if r is not None]
    # oracle on implementation output
    reported = set()
    order = sorted(range(len(cases)), key=lambda k: len(cases[k][1]))
    for k in order:
        cap, ops = cases[k]
        errs = oracle(cap, ops, res[k])
        if errs:
            cls = re.sub(r"\d+", "N", errs[0][1])[:60]
            if cls in reported or len(reported) >= 3:
                continue
            reported.add(cls)

            def f_or(cap, cands, rs, cls=cls):
                for j, r in enumerate(rs):
                    if r is not None and any(re.sub(r"\d+", "N", e[1])[:60] == cls for e in oracle(cap, cands[j], r)):
                        return j
                return None
            small = shrink(ctx, exe, cap, ops, f_or)
            _, rs, _ = run_seq(ctx, exe, [(cap, small)])
            e2 = oracle(cap, small, rs[0]) if rs[0] else errs
            ctx.violation("impl_violation", {"cap": cap, "ops": small}, expected="property C38 on the implementation's own output",
                          observed="; ".join("op %d: %s" % e for e in e2[:4]), theorem="C38_invariant / C38_lookup / C38_trim_order / C38_remove_model",
                          signature={"site": "mjCCache", "kind": cls})
    # correspondence with the Coq model: result of every op + full state dump after every op
    coq_cases = [coq_case(cap, ops, [(r, d) for (_, r, d) in res[k]]) for k, (cap, ops) in enumerate(cases)]
    fails = ctx.coq_eval("c38", IMPORTS, coq_cases, CHECKER, shard=150)
    if fails:
        k = min(fails, key=lambda k: len(cases[k][1]))
        cap, ops = cases[k]

        def f_corr(cap, cands, rs):
            cc = [coq_case(cap, c, [(r, d) for (_, r, d) in rs[j]]) if rs[j] is not None else "(0, [OSize], [])" for j, c in enumerate(cands)]
            fl = ctx.coq_eval("c38_shrink", IMPORTS, cc, CHECKER, shard=150)
            return min(fl) if fl else None
        small = shrink(ctx, exe, cap, ops, f_corr)
        _, rs, _ = run_seq(ctx, exe, [(cap, small)])
        ctx.violation("correspondence", {"cap": cap, "ops": small}, expected="trace of Model/Cache.v (check_trace)",
                      observed=[{"res": r, "state": d} for (_, r, d) in (rs[0] or [])][-2:], found_input=False,
                      theorem="correspondence c38_cache", signature={"site": "mjCCache"},
                      note="implementation and Coq model disagree on this history (%d of %d histories disagree)" % (len(fails), len(cases)))
    # threaded histories, replayed in logged lock order
    nthr = 0
    thr_fail = 0
    if not getattr(ctx, "replay", None):
        tcases = []
        for _ in range(60 if not thorough else 600):
            cap = rng.choice([8, 10, 16])
            pre = gen_history(rng, rng.randrange(0, 6))
            nt = rng.choice([2, 3, 4])
            per = [gen_history(rng, rng.randrange(1, 8)) for _ in range(nt)]
            tcases.append((cap, pre, per))
        inp = "".join("T %d %d %s %d %s\n" % (cap, len(pre), " ".join(map(op_txt, pre)), len(per),
                                              " ".join("%d %s" % (len(p), " ".join(map(op_txt, p))) for p in per))
                      for cap, pre, per in tcases)
        rc, out, err = ctx.run(exe, inp, timeout=300)
        lines = out.split("\n")
        tcoq = []
        interleaved = 0
        for k, (cap, pre, per) in enumerate(tcases):
            try:
                tk = Toks(lines[k])
                pre_out = parse_seq(tk, len(pre))
                tk.expect("O")
                log = [tk.num() for _ in range(tk.num())]
                results = []
                for t in range(len(per)):
                    tk.expect("t")
                    results.append([parse_res(tk) for _ in range(tk.num())])
                tk.expect("F")
                final = parse_dump(tk)
            except (ValueError, IndexError):
                ctx.broken.append(("correspondence", "threaded driver run failed", "rc=%s case=%d %s" % (rc, k, err[-300:])))
                break
            if sorted(log) != sorted(t for t, p in enumerate(per) for _ in p):
                ctx.violation("impl_violation", {"cap": cap, "pre": pre, "threads": per}, expected="each public method acquires mutex_ exactly once",
                              observed="lock log %s" % log, theorem="C38_linearizable (premise)", signature={"site": "mjCCache", "kind": "lock count"})
                continue
            for e in state_invariants(final):
                ctx.violation("impl_violation", {"cap": cap, "pre": pre, "threads": per, "lock_order": log}, expected="invariant after threaded history",
                              observed=e, theorem="C38_invariant", signature={"site": "mjCCache", "kind": "threaded invariant"})
            pos = [0] * len(per)
            ops, exp = list(pre), [(r, d) for (_, r, d) in pre_out]
            for t in log:
                ops.append(per[t][pos[t]])
                exp.append((results[t][pos[t]], None))
                pos[t] += 1
            if ops:
                exp[-1] = (exp[-1][0], final)
            if any(log[i] != log[i + 1] and log[i + 1] in log[:i] for i in range(len(log) - 1)):
                interleaved += 1
            tcoq.append(coq_case(cap, ops, exp))
            nthr += 1
        tf = ctx.coq_eval("c38_thr", IMPORTS, tcoq, CHECKER, shard=150)
        thr_fail = len(tf)
        for k in tf[:1]:
            ctx.violation("correspondence", {"threaded_case": tcoq[k][:1500]}, expected="model replayed in lock-acquisition order",
                          observed="results/final state differ", found_input=False, theorem="C38_linearizable", signature={"site": "mjCCache threaded"},
                          note="threaded history is not explained by the sequential model in lock order")
        rcw, outw, _ = ctx.run(exe, "W 10 0\n")
        mw = re.match(r"W (-?\d+) (-?\d+)", outw)
        ctx.cov["support"]["HasAsset_result_aliases_cache_node"] = (
            "pointee of HasAsset(a0) read %s at return and %s after a later Insert(a0, other timestamp) in the same thread"
            % (mw.group(1), mw.group(2)) if mw else "witness run failed")
        ctx.cov["support"]["threaded_histories"] = nthr
        ctx.cov["support"]["threaded_histories_truly_interleaved"] = interleaved
    # coverage
    nontriv = set()
    nops = 0
    for k, (cap, ops) in enumerate(cases):
        nops += len(ops)
        B = EMPTY(cap)
        ev = rej = hit = rm = False
        for o, (_, r, A) in zip(ops, res[k]):
            if o[0] == "C" and len(A["assets"]) < len(B["assets"]):
                ev = True
            if o[0] == "I" and r == [0]:
                rej = True
            if o[0] == "P" and r[0] == 1:
                hit = True
            if o[0] == "R" and any(len(b["refs"]) > 1 and o[1] in b["refs"] for b in B["assets"].values()):
                rm = True
            B = A
        if ev and hit and (rej or rm):
            nontriv.add((cap, tuple(ops)))
    ctx.cov["evaluations"] = len(cases) + nthr
    ctx.cov["operations_compared"] = nops
    ctx.cov["distinct_nontrivial"] = len(nontriv)
    ctx.cov["rule"] = ("random histories of 1..39 operations over 3 models x 4 asset ids, timestamps {0,1,2}, sizes {0,1,2,3,5,8}, capacities 0..30; "
                       "after EVERY operation the result and the full private state (capacity_, insert_num_, size_, entries_ order, every asset "
                       "field, models_) are compared with the Coq model inside Coq; non-trivial = distinct history with an eviction by SetCapacity, "
                       "a successful lookup and (a refused insert or a RemoveModel of a shared asset)")
    ctx.cov["samples"] = [{"cap": c[0], "ops": [list(o) for o in c[1]]} for c in (cases[0], cases[min(len(cases) - 1, 200)], cases[-1])]
    ctx.cov["correspondence_disagreements"] = len(fails) + thr_fail
    ctx.cov["explanation"] = ("invariant/lookup/eviction/RemoveModel/refinement theorems proved for all histories; model tied to user_cache.cc by exact "
                              "state-dump comparison after each of %d operations in %d sequential and %d threaded histories" % (nops, len(cases), nthr))
