"""C51 — first-party plugins (PID actuator, cable elasticity) honour their documented laws."""
import math
import framework as F

META = {
    "id": "C51", "category": "proof", "design_ref": "DESIGN.md section 4, C51",
    "technique": "Coq proofs over R of Gallina models (Model/PID.v, Model/Cable.v, generic over Lib/Num) + float correspondence of the same models with plugin/actuator/pid.cc and plugin/elasticity/cable.cc compiled from the working tree into the driver and driven through mjSpec plugin instances + documented-law oracle and canaries on implementation outputs",
    "text": "filled in below",
    "note": "filled in below",
    "assumptions": [
        "theorems are about exact real arithmetic; IEEE rounding is outside every theorem (the models are run at binary64 only for the tie, tolerance 2^-30 scaled)",
        "hand-written models Model/PID.v and Model/Cable.v; the tie is differential testing on the cases of this run",
        "exp/atan2 of the float runs come from the unverified Lib/FloatFn.v (executable side only)",
    ],
}
META["text"] = (
    "Proved in Coq over the reals, for all inputs, about the model Model/PID.v of plugin/actuator/pid.cc: the value written to actuator_force is kp*e + kd*edot + ki*I with e = setpoint - length, "
    "edot = setpoint rate - velocity and I the updated integral (C51_force_law); whenever imax is configured and accepted by Pid::Create the integral used in the force lies in [-i_max, i_max] in every call, for every state, "
    "and the force of the I term is within the configured imax (C51_integral_clipped, C51_iterm_force_clipped); the plugin's own update law: ActDot requests, through act_dot = (requested - stored)/h, the clipped updated integral and the setpoint just used as the next stored state "
    "(C51_actdot_requests); 'the stored state equals the requested one' is proved ONLY under the explicit hypothesis that the engine integrates the actuator's act slice with the Euler rule and no actrange clamp "
    "(dyntype other than filterexact, actlimited off: C51_stored_state_euler); for such an actuator (dyntype none) the stored integral after every step of every input history is the clipped one "
    "(C51_integral_history); whenever previous_ctrl exists the setpoint used lies within slewmax*h of it (C51_slew_step) and along every input history consecutive setpoints differ by at most slewmax*h after the first step (C51_slew_history); "
    "index arithmetic: for a configuration that passed the actnum validation of Pid::Create every act_dot index written and every act/act_dot index read with dyntype none/integrator/filter/filterexact lies in [actadr, actadr+actnum), "
    "the native activation slot is never written, the act_dot array is unchanged outside the slices of the instance's actuators and actuator_force is unchanged outside the instance's own entries (C51_writes_in_slice, C51_reads_in_slice, C51_actdot_frame, C51_force_frame). "
    "Cable (Model/Cable.v of plugin/elasticity/cable.cc): curvature equal to the reference gives zero LocalStress for every stiffness and both pull-back arms (C51_cable_stress_rest), and when every body with a predecessor is at its reference curvature "
    "Cable::Compute leaves qfrc_passive unchanged (C51_cable_rest_partial: the accumulation mj_applyFT is modelled as qfrc += jacr^T torque; division by a zero segment length is a real-number convention); the constructor's reference curvature omega0 = subQuat(body_quat, qpos0 quaternion of the body's BALL joint) equals the curvature Compute measures at qpos0, so a non-flat cable exerts no force at qpos0 whatever other (slide / hinge) joints its segments carry (C51_cable_omega0_rest, C51_cable_rest_at_qpos0). "
    "Refuted for the faithful model and replayed on the implementation (a finding when it fires): with dyntype filterexact, or with actlimited, the engine integrates/clamps the plugin-owned integral and previous-ctrl slots as if they were the native activation, "
    "so the stored integral is not the requested one and the force deviates from the documented law on the following steps (C51_actlimited_state_refuted, C51_filterexact_state_refuted; recorded as KNOWN_FINDINGS C51-F1; two fixed corpus trajectories reproduce it on every run). Observation (reads, not writes): for dyntypes other than none/integrator/filter/filterexact with an empty slice GetCtrl reads act[actadr-1] (C51_reads_outside_example). "
    "Not proved: nothing about Cable's constructor (stiffness from geometry, omega0) beyond the tie; Visualize. "
    "The models are tied on every run to the plugins compiled from the working tree: per plugin instance the actuator_act_dot and compute callbacks are called on canary-filled arrays and compared entry by entry with the model (whole arrays, so writes outside the slice show up), "
    "mj_step trajectories are compared step by step (act_dot, force, next act), LocalStress is called directly and Cable::Compute is compared through mj_forward with the model's qfrc_passive. "
    "Oracle on implementation output: the documented PID law recomputed from the observable arrays with an integral and previous setpoint tracked by the oracle itself, |I term| <= imax, slew bound, canaries, zero passive force in the stress-free configuration (qpos0, qpos0 with flipped quaternion signs, and stretched slide joints with every ball joint at its reference), untouched foreign dofs.")
META["note"] = ("Trusted: Coq kernel + the standard-library real-number axioms listed in trusted_base; hand-written models; Lib/FloatFn.v (executable side); "
                "correspondence harness (g++, driver c51_plugins.cc which #includes plugin/actuator/pid.cc and plugin/elasticity/cable.cc of the working tree).")

TOL = "0x1p-30"


def hx(x):
    return float(x).hex()


def fl(x):
    t = x.strip()
    if t in ("nan", "-nan"):
        return math.nan
    if t in ("inf", "-inf"):
        return math.inf if t[0] != "-" else -math.inf
    return float.fromhex(t)


def clip(x, lo, hi):
    return lo if x < lo else (hi if x > hi else x)


# ------------------------------------------------------------------------------------- PID case generation
class Inst:
    def __init__(self, kp, ki, kd, imax, slew):
        self.kp, self.ki, self.kd, self.imax, self.slew = kp, ki, kd, imax, slew

    def attrs(self):
        out = []
        for k, v in (("kp", self.kp), ("ki", self.ki), ("kd", self.kd), ("imax", self.imax), ("slewmax", self.slew)):
            if v is not None:
                out += [k, repr(float(v))]
        return out

    def nattr(self):
        return len(self.attrs()) // 2

    @property
    def kiv(self):
        return self.ki or 0.0

    def has_i(self):
        return self.kiv != 0

    def has_s(self):
        return self.slew is not None

    def i_max(self):
        if self.imax is not None and self.has_i():
            return self.imax / self.kiv
        return None

    def actdim(self):
        return int(self.has_i()) + int(self.has_s())


class Act:
    def __init__(self, **kw):
        self.__dict__.update(kw)


def rnd_inst(rng, probe=None):
    if probe == "I":      # force = integral term
        return Inst(None, 1.0, None, rng.choice([None, rng.uniform(0.002, 0.05)]), None)
    if probe == "S":      # force = setpoint - length
        return Inst(1.0, None, None, None, rng.choice([0.0, rng.uniform(0.2, 5)]))
    kp = rng.choice([None, 0.0, rng.uniform(0.5, 40)])
    ki = rng.choice([None, 0.0, rng.uniform(0.5, 40), rng.uniform(0.5, 40)])
    kd = rng.choice([None, rng.uniform(0.1, 4)])
    imax = rng.choice([None, rng.uniform(0.01, 2.0), rng.uniform(0.01, 2.0)])
    slew = rng.choice([None, 0.0, rng.uniform(0.2, 5), rng.uniform(0.2, 5)])
    return Inst(kp, ki, kd, imax, slew)


def rnd_pid_model(rng, euler_only=False, probe=None):
    h = rng.choice([0.002, 0.01, 0.001])
    nj = rng.randint(1, 3)
    ninst = rng.randint(1, 3)
    insts = [rnd_inst(rng, probe if k == 0 else None) for k in range(ninst)]
    nact = rng.randint(ninst, ninst + 3)
    owners = list(range(ninst)) + [rng.choice([-1, -1] + list(range(ninst))) for _ in range(nact - ninst)]
    rng.shuffle(owners)
    acts = []
    for i, o in enumerate(owners):
        a = Act(aid=i, joint=rng.randrange(nj), gear=rng.uniform(0.5, 2), inst=o, cl=0, clo=0.0, chi=0.0, al=0, alo=0.0, ahi=0.0,
                early=rng.randrange(2), tau=rng.choice([rng.uniform(0.02, 0.5), rng.uniform(0.001, 0.01)]), g0=0.0, b0=0.0, b1=0.0, b2=0.0)
        if o >= 0:
            a.dyn = rng.choice([0, 0, 1, 2]) if euler_only else rng.choice([0, 0, 1, 2, 3])
            a.actdim = insts[o].actdim() + (1 if a.dyn in (1, 2, 3) else 0)
            if rng.random() < 0.4:
                a.cl, a.clo, a.chi = 1, -rng.uniform(0.1, 0.6), rng.uniform(0.1, 0.9)
            if a.dyn != 0 and not euler_only and rng.random() < 0.3:
                a.al, a.alo, a.ahi = 1, -rng.uniform(0.05, 0.4), rng.uniform(0.05, 0.4)
        else:
            a.dyn = rng.choice([0, 1, 2])
            a.actdim = -1
            a.g0, a.b0, a.b1, a.b2 = rng.uniform(0.5, 2), rng.uniform(-1, 1), rng.uniform(-2, 0), rng.uniform(-0.5, 0)
            if a.dyn != 0 and rng.random() < 0.3:
                a.al, a.alo, a.ahi = 1, -0.3, 0.3
        acts.append(a)
    jt = [rng.choice([2, 3]) for _ in range(nj)]
    return dict(h=h, nj=nj, insts=insts, acts=acts, jt=jt)


def pid_model_text(M):
    out = ["PIDMODEL %s %d %d %d" % (hx(M["h"]), M["nj"], len(M["acts"]), len(M["insts"]))]
    for I in M["insts"]:
        out.append("%d %s" % (I.nattr(), " ".join(I.attrs())))
    out.append(" ".join(str(t) for t in M["jt"]))
    for a in M["acts"]:
        out.append("%d %s %d %d %d %d %s %s %d %s %s %d %s %s %s %s %s" % (
            a.joint, hx(a.gear), a.inst, a.dyn, a.actdim, a.cl, hx(a.clo), hx(a.chi), a.al, hx(a.alo), hx(a.ahi),
            a.early, hx(a.tau), hx(a.g0), hx(a.b0), hx(a.b1), hx(a.b2)))
    return out


def expected_na(M):
    n = 0
    for a in M["acts"]:
        n += a.actdim if a.inst >= 0 else (1 if a.dyn != 0 else 0)
    return n


# ------------------------------------------------------------------------------------- parsing helpers
class Toks:
    def __init__(self, line):
        self.t = line.split()
        self.i = 0

    def word(self):
        self.i += 1
        return self.t[self.i - 1]

    def expect(self, w):
        x = self.word()
        if x != w:
            raise ValueError("expected %s got %s" % (w, x))

    def floats(self, n):
        r = [fl(x) for x in self.t[self.i:self.i + n]]
        if len(r) != n:
            raise ValueError("short line")
        self.i += n
        return r

    def ints(self, n):
        r = [int(x) for x in self.t[self.i:self.i + n]]
        self.i += n
        return r


# ------------------------------------------------------------------------------------- documented-law oracle
def next_act(a, h, v, dot):
    if a.dyn == 3:
        tau = max(1e-15, a.tau)
        v = v + dot * tau * (1 - math.exp(-h / tau))
    else:
        v = v + dot * h
    if a.al:
        v = clip(v, a.alo, a.ahi)
    return v


def law_setpoint(I, a, h, prev, prev_exists, ctrl, act, act_dot, adr, num, early):
    """the setpoint of the documented law: ctrl (clamped) or the native activation, slew-limited around prev"""
    if a.dyn == 0:
        u = ctrl[a.aid]
        if a.cl:
            u = clip(u, a.clo, a.chi)
    else:
        last = adr + num - 1
        u = act[last]
        if early:
            u = next_act(a, h, act[last], act_dot[last])
    if I.has_s() and prev_exists:
        u = clip(u, prev - I.slew * h, prev + I.slew * h)
    return u


def close(a, b, tol=1e-9):
    if a != a or b != b:
        return a != a and b != b
    return abs(a - b) <= tol * (1 + abs(a) + abs(b))


# ------------------------------------------------------------------------------------- Coq literals
def olist(x):
    return "[]%float" if x is None else F.flist([x])


def zz(n):
    return "(%d)%%Z" % n


def ff(x):
    return "(%s)%%float" % F.fhex(x)


def coq_acts(M, k, actadr, actnum):
    out = []
    for a in M["acts"]:
        if a.inst == k:
            out.append("(%s, %s, %s, %s, %s, %s, %s, %s, %s, %s, %s, %s)" % (
                zz(a.aid), zz(a.dyn), "true" if a.cl else "false", ff(a.clo), ff(a.chi), "true" if a.al else "false", ff(a.alo), ff(a.ahi),
                "true" if a.early else "false", ff(a.tau), zz(actadr[a.aid]), zz(actnum[a.aid])))
    return "[" + "; ".join(out) + "]"


def coq_pid_case(M, k, tpos, ctrl, length, vel, act, din, dout, fin, fout, anext, actadr, actnum):
    I = M["insts"][k]
    attrs = "[%s; %s; %s; %s; %s]" % (olist(I.kp), olist(I.ki), olist(I.kd), olist(I.imax), olist(I.slew))
    return "(%s, %s, %s, %s, (%s, %s, %s, %s), (%s, %s, %s, %s, %s))" % (
        ff(M["h"]), "true" if tpos else "false", attrs, coq_acts(M, k, actadr, actnum),
        F.flist(ctrl), F.flist(length), F.flist(vel), F.flist(act),
        F.flist(din), F.flist(dout), F.flist(fin), F.flist(fout), F.flist(anext) if anext is not None else "[]%float")


PID_PRE = """
Definition oF (l : list float) : option float := match l with x :: _ => Some x | nil => None end.
Definition mkA (t : Z * Z * bool * float * float * bool * float * float * bool * float * Z * Z) : ActPrm :=
  match t with (i, dy, cl, clo, chi, al, alo, ahi, ea, ta, adr, num) => mkAct i dy cl clo chi al alo ahi ea ta adr num end.
Definition chk (c : float * bool * list (list float) * list (Z * Z * bool * float * float * bool * float * float * bool * float * Z * Z) *
                    (list float * list float * list float * list float) *
                    (list float * list float * list float * list float * list float)) : bool :=
  match c with (h, tp, attrs, acts, (ctrl, len, vel, act), (din, dout, fin, fout, anext)) =>
    let g := fun i => oF (nth i attrs nil) in
    let cfg := cfg_of_attrs (g 0%nat) (g 1%nat) (g 2%nat) (g 3%nat) (g 4%nat) in
    let A := map mkA acts in
    fclose_list TOL (inst_actdot cfg A h tp ctrl len act din) dout &&
    fclose_list TOL (inst_compute cfg A h tp ctrl len vel act dout fin) fout &&
    match anext with nil => true | _ => fclose_list TOL (inst_advance A h act dout anext) anext end
  end.
""".replace("TOL", TOL)

CABLE_PRE = """
Definition Q (l : list float) : quat float := (nth 0 l 0, nth 1 l 0, nth 2 l 0, nth 3 l 0)%float.
Definition V (l : list float) : vec3 float := (nth 0 l 0, nth 1 l 0, nth 2 l 0)%float.
Fixpoint cols (n : nat) (a b c : list float) : list (vec3 float) :=
  match n, a, b, c with S k, x :: a', y :: b', z :: c' => (x, y, z) :: cols k a' b' c' | _, _, _, _ => nil end.
Definition BT := (list float * list float * list float * list float * list float * list float * list float)%type.
Definition mkB (nv : nat) (t : BT) : CBody :=
  match t with (bq, jq, k, w0, xq, jac, q0) =>
    mkCBody (Q bq) (Q jq) (nth 0 k 0, nth 1 k 0, nth 2 k 0, nth 3 k 0)%float (V w0) (Q xq)
            (cols nv (firstn nv jac) (firstn nv (skipn nv jac)) (skipn (2 * nv) jac)) end.
(* reference curvature stored by the constructor = model of the constructor on body_quat and the qpos0 quaternion
   of the body's ball joint (located by joint type in the driver) *)
Fixpoint omega0_ok (flat has_prev : bool) (bs : list BT) : bool :=
  match bs with
  | nil => true
  | (bq, _, _, w0, _, _, q0) :: r =>
      fclose_list TOL (v2l (cable_omega0 flat has_prev (Q bq) (Q q0))) w0 && omega0_ok flat true r
  end.
Definition chk (c : nat * bool * list BT * list float) : bool :=
  match c with (nv, flat, bs, out) =>
    fclose_list TOL (cable_compute (map (mkB nv) bs) (repeat 0%float nv)) out && omega0_ok flat false bs end.
""".replace("TOL", TOL)

LS_PRE = """
Definition chk (c : list float * list float * list float * bool * list float) : bool :=
  match c with (k, q, w0, pb, out) =>
    fclose_list TOL (v2l (localStress (nth 0 k 0, nth 1 k 0, nth 2 k 0, nth 3 k 0)%float
                                      (nth 0 q 0, nth 1 q 0, nth 2 q 0, nth 3 q 0)%float (nth 0 w0 0, nth 1 w0 0, nth 2 w0 0)%float pb)) out end.
""".replace("TOL", TOL)


# ------------------------------------------------------------------------------------- cable generation
def unit(q):
    n = math.sqrt(sum(x * x for x in q))
    return [x / n for x in q]


def rquat(rng, scale=1.0):
    return unit([1.0] + [rng.gauss(0, scale) for _ in range(3)]) if scale < 10 else unit([rng.gauss(0, 1) for _ in range(4)])


def rnd_cable(rng):
    n = rng.randint(2, 6)
    flat = rng.choice(["false", "false", "true"])
    curved = rng.random() < 0.7
    geomtype = rng.choice([0, 0, 1, 2])
    multi = rng.random() < 0.6
    bodies = []
    for b in range(n):
        pos = [0.0, 0.0, 1.0] if b == 0 else [rng.uniform(0.05, 0.3), 0.0, 0.0]
        quat = rquat(rng, 0.3) if (curved and b > 0) else [1.0, 0.0, 0.0, 0.0]
        size = [rng.uniform(0.005, 0.03), rng.uniform(0.02, 0.1), rng.uniform(0.005, 0.03)]
        # scalar joints in front of the ball joint (extensible / hinged segments): body_dofnum > 3, so the qpos address of
        # the body's first joint differs from the address of its ball joint; non-zero ref makes qpos0 non-trivial there
        pre = []
        if multi and rng.random() < 0.6:
            for _ in range(rng.randint(1, 2)):
                pre.append((rng.choice([2, 2, 3]), rng.choice([0.0, rng.uniform(-0.3, 0.3)])))
        bodies.append((pos, quat, size, pre))
    # stiffness J*G: radius^4 ~ 1e-8..1e-6: choose moduli so that stiffness is O(0.01 .. 10)
    twist = rng.choice([0.0, rng.uniform(1e5, 1e8)]) if rng.random() < 0.15 else rng.uniform(1e5, 1e8)
    bend = rng.uniform(1e5, 1e8)
    return dict(n=n, flat=flat, twist=twist, bend=bend, firstjoint=rng.choice([0, 1, 2]), geomtype=geomtype,
                otherfirst=rng.randrange(2), bodies=bodies, curved=curved)


def cable_text(C):
    out = ["CABLEMODEL %d %s %s %s %d %d %d" % (C["n"], C["flat"], repr(C["twist"]), repr(C["bend"]), C["firstjoint"], C["geomtype"], C["otherfirst"])]
    for pos, quat, size, pre in C["bodies"]:
        out.append(" ".join(hx(x) for x in pos + quat + size) + " %d" % len(pre) + "".join(" %d %s" % (t, hx(r)) for t, r in pre))
    return out


def cable_rot(C, b):
    """rotational joint of body b: 0 none, 1 ball, 2 free"""
    if b > 0:
        return 1
    fj = C["firstjoint"]
    return 0 if (fj == 2 and C["bodies"][0][3]) else fj


def cable_qpos(C, other, scal, quat, freepos):
    """qpos in model order; scal(b, k) value of the k-th scalar joint of body b, quat(b) of its rotational joint"""
    q = []
    if C["otherfirst"]:
        q.append(other)
    for b in range(C["n"]):
        for k in range(len(C["bodies"][b][3])):
            q.append(scal(b, k))
        r = cable_rot(C, b)
        if r == 2:
            q += freepos
        if r:
            q += quat(b)
    if not C["otherfirst"]:
        q.append(other)
    return q


# ------------------------------------------------------------------------------------- the check
def run(ctx):
    rng = ctx.rng
    big = ctx.tier != "quick"
    ctx.coq_props(allowed_axioms=F.STD_AXIOMS,
                  extra_targets=["Lib/Num.vo", "Lib/NumF.vo", "Lib/FloatFn.vo", "Model/Spatial.vo", "Model/PID.vo", "Model/Cable.vo"])
    exe = ctx.driver("c51_plugins", ["c51_plugins.cc"])
    if exe is None:
        return
    # ------------------------------------------------------------ input script
    script = []
    plan = []          # what to expect back, in order
    nmodels = 60 if big else 14
    for mi in range(nmodels):
        probe = [None, "I", "S"][mi % 3]
        euler_only = (mi % 2 == 0)
        M = rnd_pid_model(rng, euler_only=euler_only, probe=probe)
        script += pid_model_text(M)
        na = expected_na(M)
        nu = len(M["acts"])
        cmds = []
        for rep in range(6 if big else 3):
            t = rng.choice([0.0, 0.37, 1.0])
            qpos = [rng.uniform(-0.5, 0.5) for _ in range(M["nj"])]
            qvel = [rng.uniform(-1, 1) for _ in range(M["nj"])]
            ctrl = [rng.uniform(-1.5, 1.5) for _ in range(nu)]
            act = [rng.choice([rng.uniform(-0.5, 0.5), rng.uniform(-0.01, 0.01)]) for _ in range(na)]
            script.append("FWD " + " ".join(hx(x) for x in [t] + qpos + qvel + ctrl + act))
            cmds.append(("FWD", t, ctrl, act))
        for rep in range(2 if big else 1):
            ns = rng.randint(5, 12)
            qpos = [rng.uniform(-0.3, 0.3) for _ in range(M["nj"])]
            qvel = [rng.uniform(-0.5, 0.5) for _ in range(M["nj"])]
            act = [rng.uniform(-0.02, 0.02) for _ in range(na)]
            base = [rng.uniform(-1, 1) for _ in range(nu)]
            ctrls = []
            for s in range(ns):
                if rng.random() < 0.35:
                    base = [rng.uniform(-1.5, 1.5) for _ in range(nu)]      # jumps and reversals exercise the slew limiter
                ctrls.append([b + rng.uniform(-0.02, 0.02) for b in base])
            script.append("TRAJ %d " % ns + " ".join(hx(x) for x in qpos + qvel + act + [c for cs in ctrls for c in cs]))
            cmds.append(("TRAJ", ns, ctrls, act))
        script.append("END")
        plan.append(("PID", M, cmds))
    # fixed corpus: the two configurations of KNOWN_FINDINGS C51-F1 (plugin-owned act slots integrated /
    # clamped by the engine as if they were the native activation); they must keep being reported
    for dyn, al, act0, u in ((3, 0, [0.0, 0.0], 1.0), (1, 1, [0.5, 0.001], 0.5)):
        a = Act(aid=0, joint=0, gear=1.0, inst=0, dyn=dyn, actdim=2, cl=0, clo=0.0, chi=0.0, al=al, alo=-0.001 if al else 0.0, ahi=0.001 if al else 0.0,
                early=0, tau=0.005, g0=0.0, b0=0.0, b1=0.0, b2=0.0)
        M = dict(h=0.01, nj=1, insts=[Inst(None, 1.0, None, None, None)], acts=[a], jt=[2])
        script += pid_model_text(M)
        ctrls = [[u]] * 4
        script.append("TRAJ 4 " + " ".join(hx(x) for x in [0.0, 0.0] + act0 + [u] * 4))
        script.append("END")
        plan.append(("PID", M, [("TRAJ", 4, ctrls, act0)]))
    ncab = 40 if big else 10
    for ci in range(ncab):
        C = rnd_cable(rng)
        script += cable_text(C)
        ident = [1.0, 0.0, 0.0, 0.0]
        ref = lambda b, k: C["bodies"][b][3][k][1]
        cmds = ["REST"]
        script.append("REST")
        for rep in range(4 if big else 2):
            q = cable_qpos(C, rng.uniform(-1, 1), lambda b, k: ref(b, k) + rng.uniform(-0.2, 0.2),
                           lambda b: rquat(rng, rng.choice([0.05, 0.5, 100])), [rng.uniform(-0.2, 0.2) for _ in range(3)])
            script.append("STATE " + " ".join(hx(x) for x in q))
            cmds.append("STATE")
        # the same rotations written with the opposite quaternion sign: still the stress-free configuration
        q = cable_qpos(C, 0.3, ref, lambda b: ident if b == 0 else [-1.0, 0.0, 0.0, 0.0], [0.0, 0.0, 1.0])
        script.append("STATE " + " ".join(hx(x) for x in q))
        cmds.append("NEGREST")
        # stretched, unbent: only the slide joints move, every ball joint stays at its reference
        if any(t == 2 for bd in C["bodies"] for t, _ in bd[3]):
            q = cable_qpos(C, -0.4, lambda b, k: ref(b, k) + (rng.uniform(-0.2, 0.2) if C["bodies"][b][3][k][0] == 2 else 0.0), lambda b: ident, [0.1, -0.1, 1.0])
            script.append("STATE " + " ".join(hx(x) for x in q))
            cmds.append("STRETCH")
        script.append("END")
        plan.append(("CABLE", C, cmds))
    nls = 400 if big else 80
    ls_cases = []
    for i in range(nls):
        k = [rng.choice([0.0, rng.uniform(0, 5)]), rng.uniform(0, 5), rng.uniform(0, 5), rng.uniform(0.05, 0.5)]
        q = rquat(rng, rng.choice([0.01, 0.5, 100]))
        if rng.random() < 0.1:
            q = [1.0, 0.0, 0.0, 0.0]
        w0 = [rng.uniform(-1, 1) for _ in range(3)]
        pb = rng.randrange(2)
        ls_cases.append((k, q, w0, pb))
        script.append("LS " + " ".join(hx(x) for x in k + q + w0) + " %d" % pb)
    script.append("QUIT")
    rc, out, err = ctx.run(exe, "\n".join(script) + "\n")
    lines = out.split("\n")
    if rc != 0:
        ctx.broken.append(("correspondence", "driver c51_plugins failed", "rc=%s %s" % (rc, err[-800:])))
        return
    pos = [0]

    def nextline():
        pos[0] += 1
        return lines[pos[0] - 1]

    pid_cases, pid_meta = [], []
    cable_cases, cable_meta = [], []
    stats = {"pid_models": 0, "pid_fwd_instances": 0, "pid_traj_steps": 0, "clip_i_active": 0, "slew_active": 0, "canary_entries": 0,
             "cable_models": 0, "cable_states": 0, "ls": 0, "law_checks": 0, "finding_family_hits": 0}
    try:
        for kind, M, cmds in plan:
            head = Toks(nextline())
            head.expect("MODEL")
            status = head.word()
            if status != "OK":
                ctx.broken.append(("correspondence", "model of the generator rejected by the implementation (%s)" % kind, " ".join(head.t[:40])))
                continue
            if kind == "PID":
                stats["pid_models"] += 1
                head.expect("nq"); nq = int(head.word()); head.expect("nv"); nv = int(head.word())
                head.expect("nu"); nu = int(head.word()); head.expect("na"); na = int(head.word())
                head.expect("nplugin"); npl = int(head.word())
                head.expect("actadr"); actadr = head.ints(nu); head.expect("actnum"); actnum = head.ints(nu)
                head.expect("plugin"); aplug = head.ints(nu)
                if na != expected_na(M) or npl != len(M["insts"]) or aplug != [a.inst for a in M["acts"]]:
                    ctx.broken.append(("correspondence", "PID model layout differs from the generator's expectation", "na=%d nplugin=%d plugin=%s" % (na, npl, aplug)))
                    for c in cmds:
                        for _ in range((1 + npl) if c[0] == "FWD" else c[1]):
                            nextline()
                    continue
                h = M["h"]
                for c in cmds:
                    if c[0] == "FWD":
                        _, t, ctrl, act = c
                        tk = Toks(nextline()); tk.expect("FWD"); tk.expect("length"); length = tk.floats(nu); tk.expect("velocity"); vel = tk.floats(nu)
                        tk.expect("act_dot"); eng_dot = tk.floats(na); tk.expect("force"); eng_force = tk.floats(nu)
                        for k in range(npl):
                            tk = Toks(nextline()); tk.expect("INST"); kk = int(tk.word())
                            tk.expect("dot_in"); din = tk.floats(na); tk.expect("dot_out"); dout = tk.floats(na)
                            tk.expect("force_in"); fin = tk.floats(nu); tk.expect("force_out"); fout = tk.floats(nu)
                            tk.expect("untouched"); same = int(tk.word())
                            stats["pid_fwd_instances"] += 1
                            pid_oracle_fwd(ctx, M, k, t, ctrl, act, length, vel, din, dout, fin, fout, same, actadr, actnum, stats)
                            pid_cases.append(coq_pid_case(M, k, t > 0, ctrl, length, vel, act, din, dout, fin, fout, None, actadr, actnum))
                            pid_meta.append(dict(kind="FWD", model=pid_model_text(M), inst=k, time=t, ctrl=ctrl, act=act))
                    else:
                        _, ns, ctrls, act0 = c
                        steps = []
                        for s in range(ns):
                            tk = Toks(nextline()); tk.expect("STEP"); tk.expect("warn"); warn = int(tk.word()); tk.expect("time"); t = tk.floats(1)[0]
                            tk.expect("act"); act = tk.floats(na); tk.expect("length"); length = tk.floats(nu); tk.expect("velocity"); vel = tk.floats(nu)
                            tk.expect("act_dot"); dot = tk.floats(na); tk.expect("force"); force = tk.floats(nu); tk.expect("act_next"); anext = tk.floats(na)
                            if warn or (steps is None):
                                if steps is not None:
                                    stats["traj_cut_by_engine_warning"] = stats.get("traj_cut_by_engine_warning", 0) + 1
                                    good, steps = steps, None
                                continue
                            steps.append((t, act, length, vel, dot, force, anext))
                            stats["pid_traj_steps"] += 1
                            for k in range(npl):
                                pid_cases.append(coq_pid_case(M, k, t > 0, ctrls[s], length, vel, act, dot, dot, force, force, anext, actadr, actnum))
                                pid_meta.append(dict(kind="TRAJ", model=pid_model_text(M), inst=k, step=s, ctrls=ctrls[:s + 1], act0=act0))
                        if steps is None:
                            steps = good
                        if steps:
                            pid_oracle_traj(ctx, M, ctrls, steps, actadr, actnum, stats)
            else:
                C = M
                stats["cable_models"] += 1
                head.expect("nq"); nq = int(head.word()); head.expect("nv"); nv = int(head.word()); head.expect("nbody"); nb = int(head.word())
                head.expect("i0"); i0 = int(head.word()); head.expect("n"); n = int(head.word())
                head.expect("qpos0"); qpos0 = head.floats(nq); head.expect("stiffness"); stiff = head.floats(4 * n); head.expect("omega0"); om0 = head.floats(3 * n)
                other_dof = 0 if C["otherfirst"] else nv - 1
                kmax = max([abs(x) for x in stiff] + [1e-300])
                for cmd in cmds:
                    tk = Toks(nextline()); tk.expect("REST" if cmd == "REST" else "STATE"); tk.expect("qfrc"); qfrc = tk.floats(nv)
                    bodies = []
                    for b in range(n):
                        tb = Toks(nextline()); tb.expect("B"); tb.word()
                        tb.expect("bq"); bq = tb.floats(4); tb.expect("jq"); jq = tb.floats(4); tb.expect("q0"); q0 = tb.floats(4); tb.expect("k"); kk = tb.floats(4); tb.expect("w0"); w0 = tb.floats(3)
                        tb.expect("xq"); xq = tb.floats(4); tb.expect("stress"); st = tb.floats(3); tb.expect("jacr"); jac = tb.floats(3 * nv)
                        bodies.append((bq, jq, kk, w0, xq, jac, q0))
                    stats["cable_states"] += 1
                    sig_case = {"cable": cable_text(C), "state": cmd}
                    if any(bd[3] for bd in C["bodies"]):
                        stats["cable_states_multijoint"] = stats.get("cable_states_multijoint", 0) + 1
                    if cmd in ("REST", "NEGREST", "STRETCH") and (C["flat"] == "false" or not C["curved"]):
                        lim = 1e-9 * (1 + 100 * kmax)
                        if not all(abs(x) <= lim for x in qfrc):
                            ctx.violation("impl_violation", sig_case, expected="qfrc_passive = 0 in the stress-free configuration (%s)" % {"REST": "all joints at qpos0", "NEGREST": "all joints at qpos0, quaternion sign flipped", "STRETCH": "ball joints at qpos0, slide joints moved"}[cmd],
                                          observed=qfrc, theorem="C51_cable_rest_partial", signature={"site": "mujoco.elasticity.cable", "class": "rest-force"})
                    if qfrc[other_dof] != 0.0:
                        ctx.violation("impl_violation", sig_case, expected="the dof of a body outside the cable receives no passive force", observed=qfrc[other_dof],
                                      theorem="C51_cable_rest_partial", signature={"site": "mujoco.elasticity.cable", "class": "foreign-dof"})
                    if any(x != x for x in qfrc):
                        ctx.violation("impl_violation", sig_case, expected="finite qfrc_passive", observed=qfrc, theorem="C51_cable_rest_partial",
                                      signature={"site": "mujoco.elasticity.cable", "class": "nan"})
                    cable_cases.append("(%d%%nat, %s, [%s], %s)" % (nv, "true" if C["flat"] == "true" else "false", "; ".join("(%s)" % ", ".join(F.flist(x) for x in bd) for bd in bodies), F.flist(qfrc)))
                    cable_meta.append(sig_case)
        ls_lits = []
        for (k, q, w0, pb) in ls_cases:
            tk = Toks(nextline()); tk.expect("LS"); st = tk.floats(3)
            stats["ls"] += 1
            ls_lits.append("(%s, %s, %s, %s, %s)" % (F.flist(k), F.flist(q), F.flist(w0), "true" if pb else "false", F.flist(st)))
    except (ValueError, IndexError) as e:
        ctx.broken.append(("correspondence", "driver c51_plugins output not understood", "%s at line %d: %s" % (e, pos[0], lines[pos[0] - 1][:300] if pos[0] <= len(lines) else "")))
        return
    # ------------------------------------------------------------ model evaluation in Coq
    imp = "From Coq Require Import ZArith PrimFloat Bool.\nFrom MJV Require Import Lib.Num Lib.NumF Lib.FloatFn Model.Spatial Model.PID Model.Cable.\n"
    fails = ctx.coq_eval("c51_pid", imp, pid_cases, "chk", pre=PID_PRE, shard=150)
    seen = set()
    for i in fails:
        m = pid_meta[i]
        key = (m["kind"],)
        if key in seen:
            continue
        seen.add(key)
        ctx.violation("correspondence", m, expected="Model/PID.v at binary64 (act_dot, actuator_force%s)" % (", next act" if m["kind"] == "TRAJ" else ""),
                      observed="implementation output differs (tolerance 2^-30 scaled)", found_input=False, theorem="correspondence c51 pid " + m["kind"],
                      signature={"site": "mujoco.pid", "op": m["kind"]}, note="implementation and Coq model disagree; the law oracle did not flag this input")
    cfails = ctx.coq_eval("c51_cable", imp, cable_cases, "chk", pre=CABLE_PRE, shard=40)
    for i in cfails[:1]:
        ctx.violation("correspondence", cable_meta[i], expected="Model/Cable.v cable_compute at binary64", observed="qfrc_passive differs", found_input=False,
                      theorem="correspondence c51 cable compute", signature={"site": "mujoco.elasticity.cable", "op": "compute"})
    lfails = ctx.coq_eval("c51_ls", imp, ls_lits, "chk", pre=LS_PRE, shard=200)
    for i in lfails[:1]:
        k, q, w0, pb = ls_cases[i]
        ctx.violation("correspondence", {"stiffness": k, "quat": q, "omega0": w0, "pullback": pb}, expected="Model/Cable.v localStress at binary64", observed="LocalStress differs",
                      found_input=False, theorem="correspondence c51 LocalStress", signature={"site": "mujoco.elasticity.cable", "op": "LocalStress"})
    # ------------------------------------------------------------ coverage
    ctx.cov["evaluations"] = len(pid_cases) + len(cable_cases) + len(ls_lits)
    ctx.cov["distinct_nontrivial"] = stats["clip_i_active"] + stats["slew_active"] + sum(1 for m in cable_meta if m["state"] == "STATE") + len(ls_lits)
    ctx.cov["rule"] = ("one evaluation = one plugin-instance callback pair (act_dot + compute, on canary-filled arrays) or one mj_step of a trajectory per instance, one cable state (mj_forward) or one LocalStress call, "
                       "each evaluated in the Coq model at binary64 and compared with tolerance 2^-30 scaled; non-trivial = PID evaluations in which the oracle saw the integral clip or the slew clip active, cable states away from rest, LocalStress calls")
    ctx.cov["samples"] = [pid_meta[0] if pid_meta else None, cable_meta[-1] if cable_meta else None]
    ctx.cov["correspondence_disagreements"] = len(fails) + len(cfails) + len(lfails)
    ctx.cov["support"]["stats"] = stats
    ctx.cov["explanation"] = ("theorems of Props/C51.v proved over R for all inputs; models tied to pid.cc / cable.cc of the working tree on %d PID evaluations, %d cable states, %d LocalStress calls; "
                              "documented-law oracle on implementation outputs (%d law checks)" % (len(pid_cases), len(cable_cases), len(ls_lits), stats["law_checks"]))


FAMILY = {"site": "mujoco.pid", "class": "plugin-state-integrated-as-native-activation"}


def pid_oracle_fwd(ctx, M, k, t, ctrl, act, length, vel, din, dout, fin, fout, same, actadr, actnum, stats):
    I = M["insts"][k]
    h = M["h"]
    mine = [a for a in M["acts"] if a.inst == k]
    own = set()
    for a in mine:
        own |= set(range(actadr[a.aid], actadr[a.aid] + actnum[a.aid]))
    case = {"model": pid_model_text(M), "inst": k, "time": t, "ctrl": ctrl, "act": act}
    for j in range(len(din)):
        if j not in own:
            stats["canary_entries"] += 1
            if dout[j] != din[j]:
                ctx.violation("impl_violation", case, expected="act_dot[%d] untouched (outside the act slices of the instance's actuators)" % j, observed=dout[j],
                              theorem="C51_actdot_frame", signature={"site": "mujoco.pid", "class": "act_dot-outside-slice"})
                break
    for i in range(len(fin)):
        if i not in [a.aid for a in mine]:
            stats["canary_entries"] += 1
            if fout[i] != fin[i]:
                ctx.violation("impl_violation", case, expected="actuator_force[%d] untouched (not an actuator of this instance)" % i, observed=fout[i],
                              theorem="C51_force_frame", signature={"site": "mujoco.pid", "class": "force-outside-own-entry"})
                break
    if not same:
        ctx.violation("impl_violation", case, expected="act, ctrl, qpos, qvel, actuator_length, qfrc_actuator, time untouched by the plugin callbacks", observed="changed",
                      theorem="C51_actdot_frame", signature={"site": "mujoco.pid", "class": "state-written"})
    # documented law on this single call (stored state taken from act)
    for a in mine:
        adr, num = actadr[a.aid], actnum[a.aid]
        Iold = act[adr] if I.has_i() else 0.0
        prev = act[adr + int(I.has_i())] if I.has_s() else 0.0
        u = law_setpoint(I, a, h, prev, t > 0, ctrl, act, dout, adr, num, a.early)
        e = u - length[a.aid]
        udot = 0.0 if a.dyn == 0 else dout[adr + num - 1]
        Inew = 0.0
        if I.has_i():
            raw = Iold + e * h
            Inew = raw
            if I.i_max() is not None:
                Inew = clip(raw, -I.i_max(), I.i_max())
                if Inew != raw:
                    stats["clip_i_active"] += 1
        if I.has_s() and t > 0:
            raw_u = law_setpoint(Inst(I.kp, I.ki, I.kd, I.imax, None), a, h, prev, False, ctrl, act, dout, adr, num, a.early)
            if raw_u != u:
                stats["slew_active"] += 1
            if abs(u - prev) > I.slew * h * (1 + 1e-9) + 1e-300:
                pass
        exp = (I.kp or 0.0) * e + (I.kd or 0.0) * (udot - vel[a.aid]) + I.kiv * Inew
        stats["law_checks"] += 1
        if not close(fout[a.aid], exp):
            ctx.violation("impl_violation", dict(case, actuator=a.aid), expected="kp*e + ki*I + kd*edot = %r (e=%r, I=%r)" % (exp, e, Inew), observed=fout[a.aid],
                          theorem="C51_force_law", signature={"site": "mujoco.pid", "class": "law"})
        if I.imax is not None and I.has_i() and I.kiv > 0 and I.imax >= 0:
            # the I term is observable when kp = kd = 0
            if not (I.kp or 0.0) and not (I.kd or 0.0) and abs(fout[a.aid]) > I.imax * (1 + 1e-9):
                ctx.violation("impl_violation", dict(case, actuator=a.aid), expected="|I term| <= imax = %r" % I.imax, observed=fout[a.aid],
                              theorem="C51_iterm_force_clipped", signature={"site": "mujoco.pid", "class": "imax"})


def pid_oracle_traj(ctx, M, ctrls, steps, actadr, actnum, stats):
    """documented law along a trajectory; integral and previous setpoint are tracked by the oracle itself"""
    h = M["h"]
    for a in M["acts"]:
        if a.inst < 0:
            continue
        I = M["insts"][a.inst]
        adr, num = actadr[a.aid], actnum[a.aid]
        family = (a.dyn == 3 or a.al) and (I.has_i() or I.has_s())
        Iacc = steps[0][1][adr] if I.has_i() else 0.0
        prev = None
        used = []
        for s, (t, act, length, vel, dot, force, anext) in enumerate(steps):
            u = law_setpoint(I, a, h, prev if prev is not None else 0.0, prev is not None, ctrls[s], act, dot, adr, num, a.early)
            u_state = law_setpoint(I, a, h, prev if prev is not None else 0.0, prev is not None, ctrls[s], act, dot, adr, num, False)
            e = u - length[a.aid]
            e_state = u_state - length[a.aid]
            udot = 0.0 if a.dyn == 0 else dot[adr + num - 1]
            Inew = 0.0
            Iforce = 0.0
            if I.has_i():
                Iforce = Iacc + e * h
                Inew = Iacc + e_state * h
                if I.i_max() is not None:
                    if clip(Inew, -I.i_max(), I.i_max()) != Inew:
                        stats["clip_i_active"] += 1
                    Iforce = clip(Iforce, -I.i_max(), I.i_max())
                    Inew = clip(Inew, -I.i_max(), I.i_max())
            exp = (I.kp or 0.0) * e + (I.kd or 0.0) * (udot - vel[a.aid]) + I.kiv * Iforce
            stats["law_checks"] += 1
            case = {"model": pid_model_text(M), "actuator": a.aid, "step": s, "ctrls": ctrls[:s + 1], "act0": steps[0][1]}
            if not close(force[a.aid], exp, 1e-8):
                sig = FAMILY if family else {"site": "mujoco.pid", "class": "law"}
                if family:
                    stats["finding_family_hits"] += 1
                ctx.violation("impl_violation", case, expected="kp*e + ki*I + kd*edot = %r with I the clipped running integral of the error (%r) and the setpoint slew-limited around the previous one" % (exp, Iforce),
                              observed=force[a.aid], theorem="C51_force_law / C51_integral_history", signature=sig,
                              note="dyntype=%d actlimited=%d: the engine integrates every act slot of the actuator with mj_nextActivation" % (a.dyn, a.al))
                break
            if prev is not None and I.has_s():
                if u != law_setpoint(Inst(I.kp, I.ki, I.kd, I.imax, None), a, h, 0.0, False, ctrls[s], act, dot, adr, num, False):
                    stats["slew_active"] += 1
            # black-box slew bound: with kp = 1, ki = kd = 0 the setpoint is force + length
            if I.has_s() and (I.kp or 0.0) == 1.0 and not I.kiv and not (I.kd or 0.0):
                used.append(force[a.aid] + length[a.aid])
                if len(used) >= 2 and abs(used[-1] - used[-2]) > I.slew * h * (1 + 1e-6) + 1e-12 and not a.early:
                    sig = FAMILY if family else {"site": "mujoco.pid", "class": "slew"}
                    ctx.violation("impl_violation", case, expected="|setpoint(t) - setpoint(t-1)| <= slewmax*h = %r" % (I.slew * h), observed=abs(used[-1] - used[-2]),
                                  theorem="C51_slew_history", signature=sig)
                    break
            Iacc = Inew
            prev = u_state
