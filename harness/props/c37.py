"""C37 — Model loading never crashes and enforces the schema."""
import base64, os, re, sys
import framework as F
import build as B

sys.path.insert(0, os.path.join(os.path.dirname(os.path.dirname(os.path.dirname(os.path.abspath(__file__)))), "translate"))
import schema2v as S2V

META = {
    "id": "C37", "category": "proof", "design_ref": "DESIGN.md section 5 (C37, moved out of not-applicable: tinyxml2 shim written)",
    "technique": "Coq proof (induction on the document) that a Gallina model of mjXSchema::Check accepts exactly the declaratively conforming "
                 "documents, for every table and every document + fail-closed translator of the MJCF[] table + exact correspondence with the real "
                 "mjXSchema (built from the working tree on a tinyxml2-compatible shim) + independent conformance oracle + fork-isolated crash observation",
    "text": "PARTIAL. PROVED (Coq, no axioms), for EVERY table and EVERY document: the model of mjXSchema::Check (Model/Schema.v: NameMatch with the "
            "worldbody/frame/replicate aliases of the body row, unknown attributes, the four kinds of presence constraints e/t/r/o, the 'R' recursion "
            "loop, first-matching-row child dispatch through include-splicing, '!'/'?' cardinalities with the last offending row reported) returns None "
            "iff the document satisfies the declarative relation Conforms (Model/SchemaSpec.v: membership, governing row, counts; no traversal order): "
            "C37_check_iff_conforms for the matcher whose recursion loop follows NameMatch, C37_check_iff_conforms_outside_aliases for the matcher that "
            "is in the tree at HEAD (recursion loop descends only into children literally named like the row), whose declarative meaning leaves "
            "everything below a <frame>/<replicate> unconstrained; C37_conforming_not_rejected (both variants never reject a conforming document); "
            "C37_exact_name_full_iff_refuted (the HEAD variant accepts a non-conforming document: two unique <inertial> below a <frame>) - replayed on "
            "the implementation: recorded finding C37-F1. C37_table_wellformed: the regenerated table has no duplicate sibling rows, recursion only "
            "through 'R', constraints over declared attributes (vm_compute on coq/Gen/Schema.v). Attribute lexers: C37_numlist_* / C37_keyword_* "
            "(Model/Lex.v) - the whitespace tokenizer + arity rule of mjXUtil::ReadAttr (accepts iff 1..len tokens, exactly len when exact; 0 tokens = "
            "absent) and the keyword lookup of MapValue/MapValues (accepts iff every token is a key, no repeats), for every input. TIED on every run: "
            "translator regenerates the table from src/xml/generated/mjcf_table.inc and reads which recursion variant xml_util.cc contains; the "
            "tree is compared with mjXSchema::Print of the real object; model and real mjXSchema::Check are compared (accept/reject, error class, "
            "element, line) on documents generated from the regenerated table (valid stream, violation stream, include wrappers) and on random small "
            "tables with '!' rows, 'R' rows, body aliases and constraints; lexer models are compared with the real ReadAttr/MapValue(s). INDEPENDENT "
            "ORACLE (python re-implementation of the declarative meaning): a conforming document must not be rejected for schema reasons by mjXSchema "
            "nor by mj_parseXMLString; a document with an injected presence/cardinality violation must be rejected with a non-empty message; wrong enum "
            "keyword / non-numeric text / wrong arity injected into an attribute whose type the generated read table gives must turn an accepted "
            "document into NULL + non-empty error. OBSERVED ONLY (no theorem: crash/UB-freedom is not expressible by an executable model): every "
            "generated and byte-mutated document (truncations, flipped bytes, deleted/duplicated spans, deep nesting, huge numbers, long values) is run "
            "through mj_parseXMLString+mj_compile and mj_loadXML(+mj_forward) in forked children with an alarm; any signal/abort/exit instead of 'model "
            "or NULL + non-empty error' is a violation (thorough tier additionally with -fsanitize=address,undefined); crashing generated documents are "
            "minimised automatically and the innermost remaining element is part of the signature. This stream found two defects that are now repaired in "
            "/repo and kept in a fixed corpus with revert mutants: <asset><model> without file= aborted (bad_optional_access), an unknown <layer role> "
            "keyword exited the process through mju_error. A URDF model and its byte mutations are part of the crash stream (observation only). "
            "Exact-fit stratum: value lists of 499..502, 600, 1000, 5000 entries on every numeric attribute of the read table and on the hand-read "
            "elements (custom numeric/text, keyframes, user data, frame/replicate, mesh, composite) - found the stack-buffer overrun of <numeric> "
            "(C37-F4, repaired, fixed corpus + revert mutant). Include graphs: mj_loadXML through a VFS with several files - chains, trees, diamonds, "
            "self-includes, cycles with an acyclic prefix, cycles through the top file, missing/empty/malformed files, includes with children; oracle "
            "computed from the generated graph alone: cyclic or defective graph => NULL + message, acyclic graph of valid files each included once => "
            "model, always a return. Include expansion (IncludeXML) is NOT modelled in Coq: oracle and observation only. Integer attribute types: "
            "C37_intlist_accepts_iff / C37_intlist_range_rejected (Model/Lex.v read_ints: tokens are [+-]?digit+ literals, accepted iff their VALUE lies "
            "in the type's range, the returned values are these values - nothing wraps) for every range, arity and text; tied to the real ReadAttr<int> / "
            "ReadAttr<unsigned char> with returned values on literals around 2^8, 2^31, 2^32, 2^63, 2^64 and beyond, with a python big-integer oracle; "
            "through the reader: (good, out-of-range) pairs for every kInt attribute of the read table and for hand-read ints (size, numeric size, "
            "replicate/composite count), and overflowing float literals (1e999, 1e39 for float). NOT COVERED: tinyxml2 itself "
            "(the XML tokenizer under test is the harness shim harness/stubs/tinyxml2_shim.cc), URDF, files/includes/assets on disk, src/xml/mjz, "
            "semantic (non-schema) checks of the reader, numeric value conversion of the lexers (strtod/istream).",
    "note": "Trusted: Coq kernel; hand-written models Model/Schema.v, Model/Lex.v (tied by correspondence on the cases of this run); translator "
            "translate/schema2v.py; the tinyxml2 shim (harness/stubs/tinyxml2.h, tinyxml2_shim.cc) which replaces tinyxml2 under src/xml; driver "
            "c37_xml.cc; g++/sanitizers. Theorems are closed under the global context.",
    "assumptions": ["the XML tokenizer/DOM under src/xml is the harness shim, not tinyxml2",
                    "tie of the model to xml_util.cc is differential testing on the cases of this run",
                    "crash half is observation only (fork + alarm, sanitizers in the thorough tier)"],
}

KNOWN_ALIAS_SIG = {"site": "mjXSchema::Check", "class": "alias-subtree-unvalidated"}
ALIASES = ("frame", "replicate")


# ------------------------------------------------------------------ documents
class El:
    __slots__ = ("name", "attrs", "kids")

    def __init__(self, name, attrs=None, kids=None):
        self.name = name
        self.attrs = attrs or []      # list of (name, value)
        self.kids = kids or []

    def copy(self):
        return El(self.name, list(self.attrs), [k.copy() for k in self.kids])


def xml_escape(v):
    return v.replace("&", "&amp;").replace("<", "&lt;").replace(">", "&gt;").replace('"', "&quot;")


def serialize(e, depth=0, out=None):
    top = out is None
    if top:
        out = []
    pad = " " * min(depth, 20)
    attrs = "".join(' %s="%s"' % (a, xml_escape(v)) for a, v in e.attrs)
    if e.kids:
        out.append("%s<%s%s>" % (pad, e.name, attrs))
        for k in e.kids:
            serialize(k, depth + 1, out)
        out.append("%s</%s>" % (pad, e.name))
    else:
        out.append("%s<%s%s/>" % (pad, e.name, attrs))
    if top:
        return "\n".join(out) + "\n"


def walk(e, parent=None):
    yield e, parent
    for k in e.kids:
        yield from walk(k, e)


# ------------------------------------------------------------------ independent oracle (python)
def name_match(sn, lvl, n):
    if sn == "body" and ((lvl == 1 and n == "worldbody") or (lvl != 1 and n == "body") or
                         (lvl >= 1 and n == "frame") or (lvl >= 1 and n == "replicate")):
        return True
    return sn == n


def con_violated(con, names):
    bs = con["bundles"]
    pres = lambda a: a in names
    k = con["kind"]
    if k == "e":
        return sum(1 for b in bs if any(pres(a) for a in b)) > 1
    if k == "t":
        flat = [a for b in bs for a in b]
        n = sum(1 for a in flat if pres(a))
        return n != 0 and n != len(flat)
    if k == "r":
        return pres(bs[0][0]) and not pres(bs[1][0])
    if k == "o":
        return not any(all(pres(a) for a in b) for b in bs)
    return False


def spliced(kids):
    out = []
    for k in kids:
        if k.name == "include":
            out += spliced(k.kids)
        else:
            out.append(k)
    return out


def violations(node, lvl, e, under_alias, out, is_alias_tag=False):
    """declarative meaning of the table, written independently of the Coq model: list of
    (class, under_alias, element name).  The attributes/constraints of an alias tag itself (frame,
    replicate: they carry their own attribute sets, which the table does not know) are not judged."""
    names = [a for a, _ in e.attrs]
    if not is_alias_tag:
        for a in names:
            if a not in node["attrs"]:
                out.append(("attr", under_alias, e.name))
        for c in node["cons"]:
            if con_violated(c, names):
                out.append(("con_" + c["kind"], under_alias, e.name))
    counts = [0] * len(node["subs"])
    for k in spliced(e.kids):
        idx = None
        for i, s in enumerate(node["subs"]):
            if name_match(s["name"], lvl + 1, k.name):
                idx = i
                break
        if idx is not None:
            counts[idx] += 1
            violations(node["subs"][idx], lvl + 1, k, under_alias, out)
        elif node["card"] == "R" and name_match(node["name"], lvl + 1, k.name):
            alias = k.name != node["name"]
            violations(node, lvl + 1, k, under_alias or alias, out, is_alias_tag=alias)
        else:
            out.append(("elem", under_alias, k.name))
    for i, s in enumerate(node["subs"]):
        if s["card"] == "!" and counts[i] != 1:
            out.append(("card", under_alias, e.name))
        if s["card"] == "?" and counts[i] > 1:
            out.append(("card", under_alias, e.name))
    return out


def doc_violations(tree, root):
    if not name_match(tree["name"], 0, root.name):
        return [("elem", False, root.name)]
    return violations(tree, 0, root, False, [])


# ------------------------------------------------------------------ generators
class DocGen:
    def __init__(self, tree, rng, readtab=None, maps=None, real=True):
        self.tree, self.rng, self.readtab, self.maps, self.real = tree, rng, readtab or {}, maps or {}, real
        self.uid = 0

    def value(self, parent, row, attr):
        """a plausible value for the attribute from the typed read table (support only)"""
        rows = self.readtab.get(table_name(parent, row))
        self.uid += 1
        if rows:
            for r in rows:
                if r["attr"] == attr:
                    return typed_value(r, self.maps, self.rng, self.uid)
        return "1"

    def fix_constraints(self, node, names):
        for _ in range(4):
            changed = False
            for c in node["cons"]:
                if not con_violated(c, names):
                    continue
                bs = c["bundles"]
                changed = True
                if c["kind"] == "e":
                    keep = None
                    for b in bs:
                        if any(a in names for a in b):
                            if keep is None:
                                keep = b
                            else:
                                names[:] = [a for a in names if a not in b or a in keep]
                elif c["kind"] == "t":
                    for b in bs:
                        for a in b:
                            if a not in names:
                                names.append(a)
                elif c["kind"] == "r":
                    names.append(bs[1][0])
                elif c["kind"] == "o":
                    for a in bs[0]:
                        if a not in names:
                            names.append(a)
            if not changed:
                break

    def elem(self, node, tag, lvl, depth, budget, parent_name, alias=False):
        rng = self.rng
        if alias:
            names = ["count"] if tag == "replicate" else (["pos"] if rng.random() < 0.5 else [])
        else:
            k = min(len(node["attrs"]), rng.choice([0, 1, 1, 2, 3, 5]))
            names = rng.sample(node["attrs"], k) if k else []
            self.fix_constraints(node, names)
        e = El(tag, [(a, ("2" if (alias and a == "count") else ("0 0 0" if alias else self.value(parent_name, node["name"], a)))) for a in names])
        if depth > 7 or budget[0] <= 0:
            # still honour '!' children
            for s in node["subs"]:
                if s["card"] == "!":
                    e.kids.append(self.elem(s, s["name"], lvl + 1, depth + 1, budget, node["name"]))
            return e
        for s in node["subs"]:
            c = s["card"]
            if c == "!":
                n = 1
            elif c == "?":
                n = 1 if rng.random() < 0.35 else 0
            else:
                n = rng.choice([0, 0, 0, 1, 1, 2]) if lvl > 0 else rng.choice([0, 0, 1, 1, 2])
            for _ in range(n):
                if budget[0] <= 0 and c != "!":
                    break
                budget[0] -= 1
                tag2 = s["name"]
                if s["name"] == "body":
                    tag2 = "worldbody" if lvl + 1 == 1 else "body"
                e.kids.append(self.elem(s, tag2, lvl + 1, depth + 1, budget, node["name"]))
        if node["card"] == "R" and lvl >= 1 and rng.random() < 0.6:
            for _ in range(rng.choice([1, 1, 2])):
                if budget[0] <= 0:
                    break
                budget[0] -= 1
                if node["name"] == "body":
                    tag2 = rng.choice(["body", "body", "frame", "replicate"]) if self.real else rng.choice(["body", "body", "frame", "replicate"])
                else:
                    tag2 = node["name"]
                e.kids.append(self.elem(node, tag2, lvl + 1, depth + 1, budget, node["name"], alias=tag2 != node["name"]))
        rng.shuffle(e.kids)
        return e

    def doc(self, size=25):
        return self.elem(self.tree, self.tree["name"], 0, 0, [size], "")


def typed_value(r, maps, rng, uid):
    k = r["kind"]
    try:
        n = int(r["len"])
    except ValueError:
        n = 1
    if k in ("kBool",):
        return rng.choice(["true", "false"])
    if k in ("kEnum", "kEnumByte", "kFlags"):
        keys = maps.get(r["map"]) or ["true"]
        return rng.choice(keys)
    if k in ("kInt",):
        return " ".join(str(rng.choice([0, 1, 2, 3])) for _ in range(n))
    if k in ("kDouble", "kNum", "kFloat"):
        return " ".join(rng.choice(["0.1", "1", "0.5", "2", "0.25"]) for _ in range(n))
    if k in ("kDoubleVec", "kFloatVec", "kIntVec"):
        return "1 2 3"
    if k == "kChars":
        return "xyz"
    return "n%d" % uid


BODY_KIDS = ("geom", "joint", "site", "camera", "light", "inertial", "body")


def table_name(parent, row):
    """name of the typed-row array (mjcf_read_table.inc) that reads tag `row` below row `parent`, or None"""
    if row in BODY_KIDS:
        return row if parent in ("body", "default", "mujoco") else None
    if parent == "flexcomp" and row == "contact":
        return "flexcomp_contact"
    if parent == "flex" and row == "edge":
        return "flex_edge"
    if parent in ("composite", "fixed", "spatial", "equality", "flexcomp", "flex", "tuple", "plugin"):
        return None
    if row in ("mesh", "material") and parent not in ("asset", "default"):
        return None
    return row


def mutate_violation(tree, root, rng):
    """inject ONE schema violation into a copy of the document; returns (doc, description) or None"""
    d = root.copy()
    # map element -> (row, lvl, under_alias, is_alias_tag)
    info = {}

    def assign(node, lvl, e, ua, alias_tag):
        info[id(e)] = (node, lvl, ua, alias_tag, e)
        for k in e.kids:
            idx = None
            for s in node["subs"]:
                if name_match(s["name"], lvl + 1, k.name):
                    idx = s
                    break
            if idx is not None:
                assign(idx, lvl + 1, k, ua, False)
            elif node["card"] == "R" and name_match(node["name"], lvl + 1, k.name):
                al = k.name != node["name"]
                assign(node, lvl + 1, k, ua or al, al)
    assign(tree, 0, d, False, False)
    items = list(info.values())
    kind = rng.choice(["attr", "elem", "dup", "drop", "con", "misplace", "dup", "con"])
    rng.shuffle(items)
    for (node, lvl, ua, alias_tag, e) in items:
        if kind == "attr" and not alias_tag:
            e.attrs.append(("bogus_attr", "1"))
            return d, "unknown attribute on <%s>" % e.name
        if kind == "elem":
            e.kids.insert(rng.randrange(len(e.kids) + 1), El("bogus_elem"))
            return d, "unknown element below <%s>" % e.name
        if kind == "dup":
            for s in node["subs"]:
                if s["card"] in ("?", "!"):
                    have = [k for k in e.kids if k.name == s["name"]]
                    add = 2 - len(have)
                    for _ in range(max(add, 1)):
                        e.kids.append(El(s["name"]))
                    return d, "unique <%s> repeated below <%s>" % (s["name"], e.name)
        if kind == "drop":
            for s in node["subs"]:
                if s["card"] == "!":
                    e.kids = [k for k in e.kids if k.name != s["name"]]
                    return d, "required <%s> dropped from <%s>" % (s["name"], e.name)
        if kind == "con" and node["cons"] and not alias_tag:
            c = rng.choice(node["cons"])
            names = [a for a, _ in e.attrs]
            bs = c["bundles"]
            if c["kind"] == "e" and len(bs) >= 2:
                want = [bs[0][0], bs[1][0]]
            elif c["kind"] == "t":
                flat = [a for b in bs for a in b]
                if len(flat) < 2:
                    continue
                e.attrs = [(a, v) for a, v in e.attrs if a not in flat]
                want = [flat[0]]
                names = [a for a, _ in e.attrs]
            elif c["kind"] == "r":
                e.attrs = [(a, v) for a, v in e.attrs if a != bs[1][0]]
                want = [bs[0][0]]
                names = [a for a, _ in e.attrs]
            elif c["kind"] == "o":
                flat = [a for b in bs for a in b]
                e.attrs = [(a, v) for a, v in e.attrs if a not in flat]
                want = []
                names = [a for a, _ in e.attrs]
            else:
                continue
            for a in want:
                if a not in names:
                    e.attrs.append((a, "1"))
            return d, "constraint %s of <%s> broken" % (c["kind"], e.name)
        if kind == "misplace" and e.kids and len(items) > 2:
            # move a child element to a place where its tag is not allowed
            k = rng.choice(e.kids)
            for (node2, lvl2, ua2, at2, e2) in items:
                if e2 is e or e2 is k:
                    continue
                ok = any(name_match(s["name"], lvl2 + 1, k.name) for s in node2["subs"]) or \
                    (node2["card"] == "R" and name_match(node2["name"], lvl2 + 1, k.name))
                inside = any(x is e2 for x, _ in walk(k))
                if not ok and not inside:
                    e.kids.remove(k)
                    e2.kids.append(k)
                    return d, "<%s> moved below <%s>" % (k.name, e2.name)
    return None


def wrap_includes(root, rng):
    """wrap some runs of children into <include> elements (kept as elements by mode S: no file loading)"""
    d = root.copy()
    for e, _ in list(walk(d)):
        if len(e.kids) >= 2 and rng.random() < 0.3:
            i = rng.randrange(len(e.kids))
            j = rng.randrange(i, len(e.kids)) + 1
            inc = El("include", [("file", "x.xml")], e.kids[i:j])
            if rng.random() < 0.3 and len(inc.kids) >= 2:
                inc.kids = [El("include", [], inc.kids[:1])] + inc.kids[1:]
            e.kids[i:j] = [inc]
    if rng.random() < 0.2:
        for e, _ in list(walk(d)):
            if rng.random() < 0.1:
                e.kids.append(El("include", [("file", "e.xml")]))
    return d


# random small tables
POOL = ["a", "b", "c", "d", "e", "body", "geom", "joint"]
APOOL = ["p", "q", "r", "s", "t", "u"]


def random_table(rng):
    def mk(name, card, depth, anc):
        attrs = rng.sample(APOOL, rng.choice([0, 1, 2, 3, 4]))
        node = {"name": name, "card": card, "attrs": attrs, "cons": [], "subs": []}
        if len(attrs) >= 2:
            for _ in range(rng.choice([0, 0, 1, 2])):
                kind = rng.choice("etro")
                nb = rng.choice([2, 2, 3]) if kind in "er" else rng.choice([1, 2, 3])
                bundles = [rng.sample(attrs, rng.choice([1, 1, 2])) for _ in range(nb)]
                node["cons"].append({"kind": kind, "bundles": bundles})
        if depth < 3:
            names = [n for n in POOL if n not in anc and n != name]
            rng.shuffle(names)
            nsub = rng.choice([0, 1, 2, 3, 4]) if depth else rng.choice([2, 3, 4, 5])
            for n in names[:nsub]:
                node["subs"].append(mk(n, rng.choice(["!", "?", "*", "*", "R", "!", "?"]), depth + 1, anc + [name]))
        return node
    return mk(rng.choice(["mujoco", "root"]), "!", 0, [])


def flatten_table(tree):
    rows, cons = [], []

    def emit(node):
        idx = len(rows)
        rows.append([node["name"], node["card"]] + node["attrs"])
        for c in node["cons"]:
            cons.append((idx, c["kind"], "|".join(" ".join(b) for b in c["bundles"])))
        if node["subs"]:
            rows.append(["<"])
            for s in node["subs"]:
                emit(s)
            rows.append([">"])
    emit(tree)
    return rows, cons


# ------------------------------------------------------------------ Coq literals
def cs(x):
    return '"' + x.replace('"', '""') + '"'


def coq_dom(t):
    name, line, attrs, kids = t
    return "(Elem %s [%s] %d [%s])" % (cs(name), "; ".join(cs(a) for a in attrs), line, "; ".join(coq_dom(k) for k in kids))


def parse_dump(s):
    toks = s.split()
    pos = [0]

    def rd():
        assert toks[pos[0]] == "("
        name = toks[pos[0] + 1]
        line = int(toks[pos[0] + 2])
        n = int(toks[pos[0] + 3])
        attrs = toks[pos[0] + 4: pos[0] + 4 + n]
        pos[0] += 4 + n
        kids = []
        while toks[pos[0]] == "(":
            kids.append(rd())
        assert toks[pos[0]] == ")"
        pos[0] += 1
        return (name, line, attrs, kids)
    return rd()


ERR_CLASSES = [
    (re.compile(r"^unrecognized element$"), 1),
    (re.compile(r"^unrecognized attribute: '(.*)'$"), 2),
    (re.compile(r"^at most one of .* can be specified$"), 3),
    (re.compile(r"^attributes .* must be specified together$"), 4),
    (re.compile(r"^attribute '.*' requires attribute '.*'$"), 5),
    (re.compile(r"^one of .* must be specified$"), 6),
    (re.compile(r"^unique element '(.*)' found \d+ times$"), 7),
    (re.compile(r"^element '(.*)' is required$"), 8),
]


def classify(msg):
    for rx, code in ERR_CLASSES:
        m = rx.match(msg)
        if m:
            return code, (m.group(1) if m.groups() else "")
    return -1, ""


def unesc(s):
    return s.replace("\\n", "\n").replace("\\t", "\t").replace("\\\\", "\\")



def crash_what(line):
    """stable description of how a forked run ended, from the driver's output line"""
    f = line.split("\t")
    txt = unesc(" ".join(f[2:])) if len(f) > 2 else ""
    m = re.search(r"terminate called after throwing an instance of '([^']+)'", txt)
    if m:
        return m.group(1)
    m = re.search(r"(AddressSanitizer: [\w-]+|runtime error: [^\n]{0,80})", txt)
    if m:
        return m.group(1)
    m = re.search(r"ERROR: (?:Requested index in )?([^\n]{0,60})", txt)
    if m:
        return m.group(1).strip()
    return " ".join(f[:2])


def remove_at(root, path, attr=None):
    d = root.copy()
    e = d
    for i in path[:-1]:
        e = e.kids[i]
    if attr is None:
        del e.kids[path[-1]]
    else:
        e = e.kids[path[-1]] if path else d
        e.attrs = [(a, v) for a, v in e.attrs if a != attr]
    return d


def subtree_size(e):
    return 1 + sum(subtree_size(k) for k in e.kids)


def minimize(ctx, exe, root, mode, what):
    """greedy reduction of a crashing document (elements first, then attributes), same crash class"""
    cur = root
    for _ in range(60):
        cands = []

        def rec(e, path):
            for i, k in enumerate(e.kids):
                cands.append((subtree_size(k), path + [i], None))
                rec(k, path + [i])
        rec(cur, [])
        cands.sort(key=lambda c: -c[0])
        acands = []

        def reca(e, path):
            for a, _ in e.attrs:
                acands.append((0, path, a))
            for i, k in enumerate(e.kids):
                reca(k, path + [i])
        reca(cur, [])
        allc = (cands + acands)[:400]
        if not allc:
            break
        trial = []
        for (_, path, attr) in allc:
            if attr is None:
                trial.append(remove_at(cur, path))
            else:
                d = cur.copy()
                e = d
                for i in path:
                    e = e.kids[i]
                e.attrs = [(a, v) for a, v in e.attrs if a != attr]
                trial.append(d)
        out, err = run_driver(ctx, exe, [("DOC %s" % mode, serialize(t)) for t in trial], args=("--timeout=20",))
        if out is None:
            break
        nxt = None
        for t, ln in zip(trial, out):
            if not ln.split("\t")[0].endswith("RET") and crash_what(ln) == what:
                nxt = t
                break
        if nxt is None:
            break
        cur = nxt
    return cur


def innermost(e):
    while e.kids:
        e = e.kids[-1]
    return e.name


# ------------------------------------------------------------------ driver I/O
def run_driver(ctx, exe, cmds, timeout=900, args=()):
    inp = bytearray()
    for c in cmds:
        if isinstance(c, tuple):
            head, doc = c
            if isinstance(doc, str):
                doc = doc.encode("utf-8", "surrogateescape")
            inp += ("%s %d\n" % (head, len(doc))).encode() + doc + b"\n"
        else:
            inp += c.encode() + b"\n"
    import subprocess
    try:
        r = subprocess.run([exe, "--cwd=" + ctx.scratch] + list(args), input=bytes(inp), capture_output=True, timeout=timeout)
    except subprocess.TimeoutExpired:
        return None, "timeout"
    out = r.stdout.decode("utf-8", "replace").split("\n")
    if out and out[-1] == "":
        out.pop()
    if r.returncode != 0 or len(out) != len(cmds):
        return None, "rc=%d lines=%d/%d %s" % (r.returncode, len(out), len(cmds), r.stderr.decode("utf-8", "replace")[-400:])
    return out, ""


def parse_print(text):
    """mjXSchema::Print -> preorder list of (level, name, type, sorted attrs)"""
    nodes = []
    for ln in unesc(text).split("\n"):
        if not ln.strip():
            continue
        m = re.match(r"^( *)(\S+) \((.)\)\s*(.*)$", ln)
        if m and len(m.group(1)) % 3 == 0 and len(m.group(1)) < 30:
            nodes.append([len(m.group(1)) // 3, m.group(2), m.group(3), m.group(4).split()])
        elif nodes:
            nodes[-1][3] += ln.split()
        else:
            return None
    return nodes


def tree_preorder(node, lvl=0, out=None):
    out = [] if out is None else out
    out.append([lvl, "(world)body" if node["name"] == "body" else node["name"], node["card"], sorted(set(node["attrs"]))])
    for s in node["subs"]:
        tree_preorder(s, lvl + 1, out)
    return out


SEEDS = [
    # curated valid models (compile and step); used for the typed-violation and crash streams
    """<mujoco model="arm">
  <compiler angle="radian" autolimits="true"/>
  <option timestep="0.002" integrator="RK4" gravity="0 0 -9.81"/>
  <default>
    <geom rgba="0.8 0.6 0.4 1" friction="0.9 0.005 0.0001"/>
    <default class="arm"><joint damping="0.5" armature="0.01"/><geom type="capsule" size="0.03"/></default>
  </default>
  <asset>
    <texture name="grid" type="2d" builtin="checker" width="32" height="32" rgb1=".1 .2 .3" rgb2=".2 .3 .4"/>
    <material name="grid" texture="grid" texrepeat="2 2"/>
  </asset>
  <worldbody>
    <light pos="0 0 3" dir="0 0 -1"/>
    <geom name="floor" type="plane" size="2 2 .1" material="grid"/>
    <body name="base" pos="0 0 1">
      <freejoint name="root"/>
      <geom name="torso" type="box" size=".1 .1 .1" mass="1"/>
      <site name="imu" pos="0 0 .1"/>
      <body name="upper" pos=".1 0 0" childclass="arm">
        <joint name="shoulder" type="hinge" axis="0 1 0" range="-1.5 1.5"/>
        <geom name="upper" fromto="0 0 0 .3 0 0"/>
        <body name="lower" pos=".3 0 0">
          <joint name="elbow" type="hinge" axis="0 1 0" range="-2 0"/>
          <geom name="lower" fromto="0 0 0 .25 0 0"/>
          <site name="tip" pos=".25 0 0"/>
        </body>
      </body>
    </body>
  </worldbody>
  <tendon><fixed name="coupled"><joint joint="shoulder" coef="1"/><joint joint="elbow" coef="-1"/></fixed></tendon>
  <actuator>
    <motor name="m_shoulder" joint="shoulder" gear="20" ctrlrange="-1 1"/>
    <position name="p_elbow" joint="elbow" kp="30" ctrlrange="-2 0"/>
    <general name="g_tendon" tendon="coupled" gaintype="fixed" biastype="affine" gainprm="5" biasprm="0 -5 -1"/>
  </actuator>
  <sensor>
    <accelerometer name="acc" site="imu"/><gyro name="gyro" site="imu"/><jointpos name="q_elbow" joint="elbow"/>
    <framepos name="tip_pos" objtype="site" objname="tip"/><actuatorfrc name="f_shoulder" actuator="m_shoulder"/>
  </sensor>
  <keyframe><key name="home" qpos="0 0 1 1 0 0 0 0.3 -0.6" ctrl="0.1 -0.6 0"/></keyframe>
</mujoco>
""",
    """<mujoco>
  <size memory="1M"/>
  <visual><global offwidth="64" offheight="64"/><quality shadowsize="0"/><map znear="0.1"/></visual>
  <statistic extent="2"/>
  <custom><numeric name="n" size="3" data="1 2 3"/><text name="t" data="hello"/></custom>
  <worldbody>
    <frame pos="0 0 1" euler="0 0 30">
      <body name="b1"><joint type="slide" axis="1 0 0"/><geom type="sphere" size=".1"/>
        <replicate count="3" offset=".3 0 0"><geom type="box" size=".02 .02 .02" pos="0 .3 0"/></replicate>
      </body>
    </frame>
    <body name="b2" pos="1 0 1" mocap="true"><geom type="ellipsoid" size=".1 .2 .3" contype="0" conaffinity="0"/></body>
    <body name="b3" pos="0 1 1"><joint name="ball" type="ball"/><geom type="cylinder" size=".05 .2"/><camera name="cam" pos="0 0 1" fovy="60"/></body>
  </worldbody>
  <contact><exclude body1="b1" body2="b3"/><pair geom1="g1" geom2="g2" condim="3"/></contact>
  <equality><weld body1="b1" body2="b3"/><connect body1="b3" body2="b1" anchor="0 0 0"/></equality>
</mujoco>
""".replace('<geom type="sphere" size=".1"/>', '<geom name="g1" type="sphere" size=".1"/>').replace('<geom type="cylinder" size=".05 .2"/>', '<geom name="g2" type="cylinder" size=".05 .2"/>'),
    """<mujoco model="minimal"><worldbody><body><joint/><geom size="1"/></body></worldbody></mujoco>
""",
]


URDF_SEED = """<?xml version="1.0"?>
<robot name="two_link">
  <mujoco><compiler fusestatic="false" discardvisual="false"/></mujoco>
  <material name="blue"><color rgba="0 0 0.8 1"/></material>
  <link name="base"><inertial><origin xyz="0 0 0" rpy="0 0 0"/><mass value="1"/><inertia ixx="0.1" ixy="0" ixz="0" iyy="0.1" iyz="0" izz="0.1"/></inertial>
    <visual><geometry><box size="0.2 0.2 0.2"/></geometry><material name="blue"/></visual>
    <collision><geometry><box size="0.2 0.2 0.2"/></geometry></collision></link>
  <link name="arm"><inertial><origin xyz="0 0 0.25"/><mass value="0.5"/><inertia ixx="0.01" ixy="0" ixz="0" iyy="0.01" iyz="0" izz="0.01"/></inertial>
    <collision><origin xyz="0 0 0.25"/><geometry><cylinder radius="0.03" length="0.5"/></geometry></collision></link>
  <link name="tip"><inertial><mass value="0.1"/><inertia ixx="0.001" ixy="0" ixz="0" iyy="0.001" iyz="0" izz="0.001"/></inertial>
    <collision><geometry><sphere radius="0.04"/></geometry></collision></link>
  <joint name="shoulder" type="revolute"><parent link="base"/><child link="arm"/><origin xyz="0 0 0.1" rpy="0 0 0"/><axis xyz="0 1 0"/>
    <limit lower="-1.5" upper="1.5" effort="10" velocity="1"/><dynamics damping="0.1" friction="0.01"/></joint>
  <joint name="wrist" type="prismatic"><parent link="arm"/><child link="tip"/><origin xyz="0 0 0.5"/><axis xyz="0 0 1"/><limit lower="0" upper="0.1"/></joint>
</robot>
"""


def byte_mutations(seed, rng, n):
    b = seed.encode()
    out = []
    for _ in range(n):
        m = bytearray(b)
        kind = rng.choice(["trunc", "flip", "del", "dup", "ins", "num", "long", "quote", "nul"])
        if kind == "trunc":
            m = m[:rng.randrange(1, len(m))]
        elif kind == "flip":
            for _ in range(rng.choice([1, 1, 2, 5])):
                i = rng.randrange(len(m))
                m[i] = rng.randrange(256) if rng.random() < 0.5 else (m[i] ^ (1 << rng.randrange(8)))
        elif kind == "del":
            i = rng.randrange(len(m))
            j = min(len(m), i + rng.choice([1, 2, 5, 20, 100]))
            del m[i:j]
        elif kind == "dup":
            i = rng.randrange(len(m))
            j = min(len(m), i + rng.choice([1, 5, 20, 100, 400]))
            m[i:i] = m[i:j]
        elif kind == "ins":
            i = rng.randrange(len(m))
            m[i:i] = rng.choice([b"<", b">", b"/>", b"</body>", b"<body>", b"&", b"&#0;", b"&#x110000;", b"<!--", b"<![CDATA[", b"<?", b"'", b'"', b"=", b"\xff\xfe", b"\xef\xbb\xbf"])
        elif kind == "num":
            nums = [mm for mm in re.finditer(rb"-?\d+\.?\d*", bytes(m))]
            if nums:
                mm = rng.choice(nums)
                m[mm.start():mm.end()] = rng.choice([b"1e308", b"-1e308", b"1e-320", b"nan", b"inf", b"-inf", b"2147483647", b"-2147483648",
                                                    b"99999999999999999999", b"0", b"-0", b"1e999", b"0x10", b"1.5.5", b"1e", b"--1", b"1000000"])
        elif kind == "long":
            vals = [mm for mm in re.finditer(rb'"[^"]*"', bytes(m))]
            if vals:
                mm = rng.choice(vals)
                m[mm.start() + 1:mm.end() - 1] = rng.choice([b"a", b"1 ", b"x y ", b"\xc3\xa9"]) * rng.choice([100, 1000, 20000])
        elif kind == "quote":
            i = rng.randrange(len(m))
            m[i:i + 1] = rng.choice([b'"', b"'", b"<", b">"])
        elif kind == "nul":
            i = rng.randrange(len(m))
            m[i:i] = b"\x00"
        out.append((kind, bytes(m)))
    return out


def deep_docs():
    out = []
    for n, tag in ((100, "body"), (480, "body"), (499, "body"), (600, "body"), (300, "frame"), (200, "default"), (480, "replicate")):
        if tag == "default":
            d = "<mujoco>" + "<default>" + "".join('<default class="c%d">' % i for i in range(n)) + "</default>" * (n + 1) + "</mujoco>"
        elif tag == "replicate":
            d = "<mujoco><worldbody>" + '<replicate count="1">' * n + '<geom size="1"/>' + "</replicate>" * n + "</worldbody></mujoco>"
        else:
            d = "<mujoco><worldbody>" + ("<%s>" % tag) * n + '<geom size="1"/>' + ("</%s>" % tag) * n + "</worldbody></mujoco>"
        out.append(("deep_%s_%d" % (tag, n), d.encode()))
    out.append(("wide", ("<mujoco><worldbody>" + '<geom size="1"/>' * 3000 + "</worldbody></mujoco>").encode()))
    out.append(("many_attr_dups", ("<mujoco><worldbody><geom " + 'size="1" ' * 2000 + "/></worldbody></mujoco>").encode()))
    return out



# ------------------------------------------------------------------ include graphs (mj_loadXML through a VFS)
def include_graph(rng, shape):
    """returns (top document text, {file name: text}, expectation) ; expectation in model / null / any.
    Files of kind S are included below <mujoco> (they carry sections), files of kind B below a body."""
    files = {}
    uid = [0]

    def sfile(name, incs_s=(), incs_b=()):
        uid[0] += 1
        files[name] = ('<mujoco>\n <option timestep="0.0%d"/>\n%s <worldbody>\n  <geom name="g%s" size="0.1"/>\n%s </worldbody>\n</mujoco>\n' %
                       (1 + uid[0] % 8, "".join(' <include file="%s"/>\n' % f for f in incs_s), name.replace(".", "_"),
                        "".join('  <include file="%s"/>\n' % f for f in incs_b)))

    def bfile(name, incs_b=(), nested=()):
        files[name] = ('<mujocoinclude>\n <body name="b%s" pos="0 0 1">\n  <geom size="0.1"/>\n%s </body>\n%s</mujocoinclude>\n' %
                       (name.replace(".", "_"), "".join('  <include file="%s"/>\n' % f for f in nested), "".join(' <include file="%s"/>\n' % f for f in incs_b)))

    def top(incs_s=(), incs_b=()):
        return ('<mujoco model="top">\n%s <worldbody>\n  <geom name="floor" type="plane" size="1 1 .1"/>\n%s </worldbody>\n</mujoco>\n' %
                ("".join(' <include file="%s"/>\n' % f for f in incs_s), "".join('  <include file="%s"/>\n' % f for f in incs_b)))
    expect = "model"
    if shape == "plain":
        sfile("s1.xml"); bfile("b1.xml")
        t = top(["s1.xml"], ["b1.xml"])
    elif shape == "chain":
        n = rng.choice([2, 3, 5, 10, 25, 40])
        kind = rng.choice("SB")
        for i in range(n):
            nxt = ["%s%d.xml" % (kind.lower(), i + 1)] if i + 1 < n else []
            if kind == "S":
                sfile("s%d.xml" % i, incs_s=nxt)
            elif rng.random() < 0.5:
                bfile("b%d.xml" % i, nested=nxt)
            else:
                bfile("b%d.xml" % i, incs_b=nxt)
        t = top(["s0.xml"], []) if kind == "S" else top([], ["b0.xml"])
    elif shape == "tree":
        names = ["b%d.xml" % i for i in range(rng.choice([3, 5, 8]))]
        kids = {n: [] for n in names}
        for i in range(1, len(names)):
            kids[names[rng.randrange(i)]].append(names[i])
        for n in names:
            half = len(kids[n]) // 2
            bfile(n, incs_b=kids[n][:half], nested=kids[n][half:])
        sfile("s0.xml", incs_b=[])
        t = top(["s0.xml"], [names[0]])
    elif shape == "diamond":
        bfile("leaf.xml")
        bfile("l.xml", nested=["leaf.xml"]); bfile("r.xml", incs_b=["leaf.xml"])
        t = top([], ["l.xml", "r.xml"])
        expect = "any"       # a file included twice: rejected today ("already included"); either outcome satisfies the property
    elif shape == "twice":
        sfile("s1.xml")
        t = top(["s1.xml", "s1.xml"], [])
        expect = "any"
    elif shape == "self":
        kind = rng.choice("SB")
        if kind == "S":
            sfile("loop.xml", incs_s=["loop.xml"]); t = top(["loop.xml"], [])
        else:
            bfile("loop.xml", nested=["loop.xml"]) if rng.random() < 0.5 else bfile("loop.xml", incs_b=["loop.xml"])
            t = top([], ["loop.xml"])
        expect = "null"
    elif shape == "cycle":
        n = rng.choice([2, 2, 3, 4, 6])
        pre = rng.choice([0, 0, 1, 3])       # acyclic prefix before the cycle is entered
        names = ["c%d.xml" % i for i in range(pre + n)]
        for i, nm in enumerate(names):
            nxt = names[i + 1] if i + 1 < len(names) else names[pre]
            if rng.random() < 0.5:
                bfile(nm, nested=[nxt])
            else:
                bfile(nm, incs_b=[nxt])
        t = top([], [names[0]])
        expect = "null"
    elif shape == "cycle_top":
        if rng.random() < 0.5:
            bfile("a.xml", incs_b=["doc.xml"])
            t = top([], ["a.xml"])
        else:
            t = top(["doc.xml"], [])
        expect = "null"
    elif shape == "missing":
        bfile("a.xml", incs_b=["nothere.xml"])
        t = top([], ["a.xml"])
        expect = "null"
    elif shape == "empty":
        files["e.xml"] = rng.choice(["", " \n", "<mujocoinclude/>", "<!-- only a comment -->"])
        bfile("a.xml", nested=["e.xml"])
        t = top([], ["a.xml"])
        expect = "null"
    elif shape == "badxml":
        files["bad.xml"] = rng.choice(["<mujocoinclude><body></mujocoinclude>", "<a", "<a><b/></a><", "\x00\x01", "<a b=></a>"])
        t = top([], ["bad.xml"])
        expect = "null"
    elif shape == "children":
        bfile("a.xml")
        t = top([], []).replace("<worldbody>", '<worldbody><include file="a.xml"><geom size="1"/></include>')
        expect = "null"
    else:
        raise ValueError(shape)
    return t, files, expect

# ------------------------------------------------------------------ the check
def run(ctx):
    """per-process scratch directory, so that several ./check C37 runs (self-tests) can overlap"""
    import shutil
    base = ctx.scratch
    ctx.scratch = os.path.join(base, "run_%d" % os.getpid())
    os.makedirs(ctx.scratch, exist_ok=True)
    try:
        _run(ctx)
    finally:
        shutil.rmtree(ctx.scratch, ignore_errors=True)
        ctx.scratch = base


def _run(ctx):
    rng = ctx.rng
    quick = ctx.tier == "quick"
    holder = {}

    def gen():
        files, d = S2V.gen(ctx.repo)
        holder["d"] = d
        return files
    ctx.coq_props(allowed_axioms=(), gen=gen,
                  extra_targets=["Model/Schema.vo", "Model/SchemaSpec.vo", "Gen/Schema.vo", "Model/Lex.vo", "Lib/Eqb.vo"])
    if "d" not in holder:
        return
    d = holder["d"]
    tree = d["tree"]
    bnm = d["rec_by_namematch"]
    try:
        maps = S2V.parse_maps(ctx.repo)
        readtab = S2V.parse_read_table(ctx.repo)
    except F.TranslatorError as e:
        ctx.broken.append(("translator", str(e), ""))
        return
    # ---- implementation: src/xml of the working tree on the shim
    with F.Lock("libxml"):
        try:
            lib, info = B.build_lib_xml(ctx.repo)
            ctx.cov["support"]["lib_build"] = info
        except RuntimeError as e:
            ctx.broken.append(("build", "src/xml does not build from the working tree (on the tinyxml2 shim)", str(e)[-1500:]))
            return
    with F.Lock("drv_c37_xml"):
        try:
            exe = B.build_driver("c37_xml", ["c37_xml.cc"], ctx.repo, lib)
        except RuntimeError as e:
            ctx.broken.append(("build", "driver c37_xml does not build against the working tree", str(e)[-1500:]))
            return

    nviol = [0]
    seen_sig = set()

    def alarm(kind, case, **kw):
        nviol[0] += 1
        key = (kind, repr(sorted((kw.get("signature") or {}).items())), kw.get("theorem"))
        if key in seen_sig and kw.get("signature"):
            return
        seen_sig.add(key)
        if len(seen_sig) <= 14:
            ctx.violation(kind, case, **kw)

    API = {"P": "mj_parseXMLString", "C": "mj_parseXMLString+mj_compile", "L": "mj_loadXML"}
    crash_seen = set()

    def report_crash(mode, docbytes, el, ln, mutation="", extra_sig=None):
        """a forked run ended by signal / exit instead of returning: minimise (when the element tree is known) and report"""
        what = crash_what(ln)
        small = None
        if el is not None:
            pre = ("pre", mode, what, innermost(el))
            if len(crash_seen) >= 12 or pre in crash_seen:
                return          # same innermost element already minimised / enough minimised reports in one run
            crash_seen.add(pre)
            small = minimize(ctx, exe, el, mode, what)
            k = (mode, what, innermost(small))
            if k in crash_seen:
                return
            crash_seen.add(k)
        sig = {"site": API[mode], "class": "crash", "what": what}
        if extra_sig:
            sig.update(extra_sig)
        if small is not None:
            sig["element"] = innermost(small)
        case = {"api": API[mode], "doc_b64": base64.b64encode(docbytes).decode()[:8000], "bytes": len(docbytes), "mutation": mutation}
        if small is not None:
            case["minimised_doc"] = serialize(small)
        alarm("impl_violation", case, expected="a model/spec, or NULL with a non-empty error message", observed=ln[:700],
              signature=sig, theorem="(observation) no crash / abort / exit")

    # ================================================================== A. real table: tree + documents
    dg = DocGen(tree, rng, readtab, maps)
    ndocs = 260 if quick else 1500
    docs = []   # (kind, El, description)
    for i in range(ndocs):
        root = dg.doc(size=rng.choice([6, 12, 25, 40]))
        docs.append(("valid", root, ""))
        if rng.random() < 0.25:
            docs.append(("include", wrap_includes(root, rng), "include wrappers"))
        for _ in range(2):
            mv = mutate_violation(tree, root, rng)
            if mv:
                docs.append(("violation", mv[0], mv[1]))
    # hand-written corner cases
    I2 = [El("inertial", [("mass", "1"), ("pos", "0 0 0"), ("diaginertia", "1 1 1")]) for _ in range(2)]
    docs.append(("violation", El("mujoco", [], [El("worldbody", [], [El("body", [], [El("frame", [], I2 + [El("geom", [("size", "1")])])])])]),
                 "two unique <inertial> below <frame> (witness of C37_exact_name_full_iff_refuted)"))
    docs.append(("violation", El("mujoco", [], [El("worldbody", [], [El("body", [], I2 + [El("geom", [("size", "1")])])])]), "two unique <inertial> below <body>"))
    docs.append(("violation", El("mujoco", [], [El("worldbody", [], [El("worldbody")])]), "worldbody below worldbody"))
    docs.append(("violation", El("mujoco", [], [El("body")]), "body at level 1"))
    docs.append(("violation", El("mujoco", [], [El("frame")]), "frame at level 1"))
    docs.append(("violation", El("MuJoCo", [], []), "root tag differs in case"))
    docs.append(("violation", El("include", [], [El("mujoco")]), "root is an include"))
    docs.append(("valid", El("mujoco", [], [El("include", [], [El("option", [], [El("flag")])]), El("include", [], [El("include", [], [])])]), ""))
    docs.append(("violation", El("mujoco", [], [El("include", [], [El("option", [], [El("flag"), El("include", [], [El("flag")])])])]), "duplicate unique through include"))

    cmds = ["TABLE REAL", "PRINT"]
    texts = []
    for (k, root, desc) in docs:
        t = serialize(root)
        texts.append(t)
        cmds.append(("DOC S", t))
    # P mode (mj_parseXMLString) for documents without include wrappers
    pidx = [i for i, (k, _, _) in enumerate(docs) if k != "include" and not any(e.name == "include" for e, _ in walk(docs[i][1]))]
    if quick:
        pidx = pidx[:400]
    for i in pidx:
        cmds.append(("DOC P", texts[i]))
    out, err = run_driver(ctx, exe, cmds)
    if out is None:
        ctx.broken.append(("correspondence", "driver c37_xml failed on the schema document stream", err))
        return
    # ---- tree of the real object
    if not out[0].startswith("TABLE ok %d %d" % (len(d["rows"]), len(d["cons"]))) or out[0].split(" ", 4)[4:] not in ([], [""]):
        ctx.broken.append(("correspondence", "real table size differs from the translated one or schema construction error", out[0]))
    pr = parse_print(out[1][6:]) if out[1].startswith("PRINT ") else None
    if pr != tree_preorder(tree):
        a, b = pr or [], tree_preorder(tree)
        k = next((i for i in range(min(len(a), len(b))) if a[i] != b[i]), min(len(a), len(b)))
        alarm("correspondence", {"what": "mjXSchema tree (Print) differs from the translated tree", "first_difference_at_node": k},
              expected=str(b[k:k + 1]), observed=str(a[k:k + 1]), found_input=False, theorem="translator tie (schema2v.build_tree vs mjXSchema constructor)")
    # ---- S results: oracle + model
    coq_cases, case_idx = [], []
    n_accept = n_reject = 0
    classes_seen = {}
    sres = {}
    for i, (k, root, desc) in enumerate(docs):
        ln = out[2 + i]
        f = ln.split("\t")
        if f[0] == "S OK":
            obs = (0, "", 0, "")
            dump = f[2]
            n_accept += 1
        elif f[0] == "S ERR":
            code, det = classify(unesc(f[5]))
            obs = (code, unesc(f[3]), int(f[4]), det)
            dump = f[2]
            n_reject += 1
            classes_seen[code] = classes_seen.get(code, 0) + 1
            if code < 0:
                alarm("correspondence", {"doc": texts[i][:2000], "message": f[5]}, expected="one of the modelled error classes",
                      observed=f[5], found_input=False, theorem="correspondence c37 (error class)")
        else:
            ctx.broken.append(("correspondence", "generated document did not parse with the shim", ln[:300] + " :: " + texts[i][:300]))
            continue
        sres[i] = obs
        # independent oracle on the implementation output
        viol = doc_violations(tree, root)
        if viol and obs[0] == 0:
            sig = dict(KNOWN_ALIAS_SIG) if all(v[1] for v in viol) else {"site": "mjXSchema::Check", "class": "accepts-" + viol[0][0]}
            alarm("impl_violation", {"doc": texts[i][:3000], "injected": desc, "violations": [list(v) for v in viol[:5]], "api": "mjXSchema::Check"},
                  expected="rejected: the document violates the schema (%s)" % viol[0][0], observed="accepted",
                  signature=sig, theorem="C37_exact_name_full_iff_refuted" if sig == KNOWN_ALIAS_SIG else "C37_check_iff_conforms")
        if not viol and obs[0] != 0:
            alarm("impl_violation", {"doc": texts[i][:3000], "api": "mjXSchema::Check"}, expected="accepted: the document conforms",
                  observed="rejected: %s at <%s> line %d" % (f[5], obs[1], obs[2]), signature={"site": "mjXSchema::Check", "class": "rejects-conforming"},
                  theorem="C37_conforming_not_rejected")
        if f[1] == "1":
            coq_cases.append("(%s, (%d, %s, %d, %s))" % (coq_dom(parse_dump(dump)), obs[0], cs(obs[1]), obs[2], cs(obs[3])))
            case_idx.append(i)
    fails = ctx.coq_eval("c37_real", "From Coq Require Import String ZArith.\nFrom MJV Require Import Model.Schema Gen.Schema.\nOpen Scope string_scope. Open Scope Z_scope.",
                         coq_cases, "fun c => match c with (dm, obs) => result_matches (check_doc rec_by_namematch mjcf_schema dm) obs end", shard=120)
    for j in fails[:4]:
        i = case_idx[j]
        alarm("correspondence", {"doc": texts[i][:3000], "kind": docs[i][0], "injected": docs[i][2]}, expected="model result (Model/Schema.v check_doc on Gen/Schema.v)",
              observed=out[2 + i][:300], found_input=False, theorem="correspondence c37 (real table)",
              note="real mjXSchema::Check and the Coq model disagree on this document; the implementation's decision satisfies the independent oracle")
    # ---- P results: the reader on the same documents
    n_p = 0
    for j, i in enumerate(pidx):
        ln = out[2 + len(docs) + j]
        f = ln.split("\t")
        n_p += 1
        doc64 = base64.b64encode(texts[i].encode()).decode()
        if f[0] != "P RET":
            if not (f[0].endswith("SIGNAL") and f[1] == "14"):
                report_crash("P", texts[i].encode(), docs[i][1], ln, docs[i][0])
            continue
        msg = unesc(f[2]) if len(f) > 2 else ""
        viol = doc_violations(tree, docs[i][1])
        schema_err = msg.startswith("XML Error: Schema violation")
        if f[1] == "NULL" and not msg.strip():
            alarm("impl_violation", {"doc_b64": doc64[:6000], "api": "mj_parseXMLString"}, expected="non-empty error message with NULL",
                  observed="NULL with empty message", signature={"site": "mj_parseXMLString", "class": "null-without-message"}, theorem="(oracle) error message")
        if not viol and schema_err:
            alarm("impl_violation", {"doc": texts[i][:3000], "api": "mj_parseXMLString"}, expected="not rejected for schema reasons: the document conforms",
                  observed=msg[:300], signature={"site": "mj_parseXMLString", "class": "rejects-conforming"}, theorem="C37_conforming_not_rejected")
        if viol and f[1] != "NULL" and not all(v[1] for v in viol):
            alarm("impl_violation", {"doc": texts[i][:3000], "injected": docs[i][2], "api": "mj_parseXMLString"}, expected="NULL + error: schema violation (%s)" % viol[0][0],
                  observed="a spec was returned", signature={"site": "mj_parseXMLString", "class": "accepts-" + viol[0][0]}, theorem="C37_check_iff_conforms")
        # mjXSchema::Check and the reader must agree on schema-class decisions
        if i in sres and (sres[i][0] != 0) != schema_err:
            alarm("correspondence", {"doc": texts[i][:3000]}, expected="mj_parseXMLString reports a schema violation iff mjXSchema::Check on the same table does",
                  observed="Check code %d, reader message %r" % (sres[i][0], msg[:200]), found_input=False, theorem="tie reader <-> mjXSchema")

    # ================================================================== B. random tables
    ntab = 40 if quick else 250
    cmds = []
    tabs = []
    for t in range(ntab):
        tr = random_table(rng)
        rows, cons = flatten_table(tr)
        # the translator's row->tree step must invert flatten_table
        try:
            back = S2V.build_tree(rows, cons, where="random table", strict=True)
        except F.TranslatorError as e:
            ctx.broken.append(("translator", "row->tree step fails on a generated table: " + str(e), ""))
            return
        cmds.append("TABLE %d %d\n%s" % (len(rows), len(cons), "\n".join(["\t".join(r) for r in rows] + ["%d %s %s" % c for c in cons])))
        cmds.append("PRINT")
        g = DocGen(tr, rng, real=False)
        tdocs = []
        for _ in range(6 if quick else 8):
            root = g.doc(size=rng.choice([4, 8, 16]))
            tdocs.append(root)
            if rng.random() < 0.4:
                tdocs.append(wrap_includes(root, rng))
            for _ in range(2):
                mv = mutate_violation(tr, root, rng)
                if mv:
                    tdocs.append(mv[0])
        for root in tdocs:
            cmds.append(("DOC S", serialize(root)))
        tabs.append((tr, back, tdocs))
    flat_cmds = []
    for c in cmds:
        if isinstance(c, str) and c.startswith("TABLE "):
            flat_cmds.append(c)  # multi-line command: counts as ONE output line
        else:
            flat_cmds.append(c)
    out2, err = run_driver(ctx, exe, flat_cmds)
    if out2 is None:
        ctx.broken.append(("correspondence", "driver c37_xml failed on the random-table stream", err))
        return
    coq_cases2, meta2 = [], []
    p = 0
    n_rand_docs = 0
    rand_classes = {}
    for (tr, back, tdocs) in tabs:
        p += 1  # TABLE
        pr = parse_print(out2[p][6:]) if out2[p].startswith("PRINT ") else None
        p += 1
        if pr != tree_preorder(tr) or tree_preorder(back) != tree_preorder(tr):
            alarm("correspondence", {"table": flatten_table(tr)[0]}, expected=str(tree_preorder(tr))[:600], observed=str(pr)[:600], found_input=False,
                  theorem="mjXSchema constructor vs translator (random table)")
        lit = S2V.coq_schema(tr)
        for root in tdocs:
            ln = out2[p]
            p += 1
            n_rand_docs += 1
            f = ln.split("\t")
            text = serialize(root)
            if f[0] == "S OK":
                obs = (0, "", 0, "")
            elif f[0] == "S ERR":
                code, det = classify(unesc(f[5]))
                obs = (code, unesc(f[3]), int(f[4]), det)
                rand_classes[code] = rand_classes.get(code, 0) + 1
            else:
                ctx.broken.append(("correspondence", "generated document did not parse with the shim (random table)", ln[:300]))
                continue
            viol = doc_violations(tr, root)
            only_alias = bool(viol) and all(v[1] for v in viol)
            if viol and obs[0] == 0:
                sig = dict(KNOWN_ALIAS_SIG) if only_alias else {"site": "mjXSchema::Check", "class": "accepts-" + viol[0][0]}
                alarm("impl_violation", {"table_rows": flatten_table(tr)[0], "table_constraints": flatten_table(tr)[1], "doc": text[:2000], "violations": [list(v) for v in viol[:5]]},
                      expected="rejected (%s)" % viol[0][0], observed="accepted", signature=sig,
                      theorem="C37_exact_name_full_iff_refuted" if only_alias else "C37_check_iff_conforms")
            if not viol and obs[0] != 0:
                alarm("impl_violation", {"table_rows": flatten_table(tr)[0], "table_constraints": flatten_table(tr)[1], "doc": text[:2000]}, expected="accepted: conforms",
                      observed=ln[:300], signature={"site": "mjXSchema::Check", "class": "rejects-conforming"}, theorem="C37_conforming_not_rejected")
            coq_cases2.append("(%s, %s, (%d, %s, %d, %s))" % (lit, coq_dom(parse_dump(f[2])), obs[0], cs(obs[1]), obs[2], cs(obs[3])))
            meta2.append((tr, text, ln))
    fails2 = ctx.coq_eval("c37_rand", "From Coq Require Import String ZArith.\nFrom MJV Require Import Model.Schema Gen.Schema.\nOpen Scope string_scope. Open Scope Z_scope.",
                          coq_cases2, "fun c => match c with (tbl, dm, obs) => result_matches (check_doc rec_by_namematch tbl dm) obs end", shard=150)
    for j in fails2[:4]:
        tr, text, ln = meta2[j]
        alarm("correspondence", {"table_rows": flatten_table(tr)[0], "table_constraints": flatten_table(tr)[1], "doc": text[:2000]},
              expected="model result (Model/Schema.v)", observed=ln[:300], found_input=False, theorem="correspondence c37 (random tables)")

    # ================================================================== C. enum keywords / types / arity through the reader
    typed = typed_cases(tree, readtab, maps, rng, quick)
    cmds = []
    for tc in typed:
        cmds.append(("DOC P", tc["good"]))
        cmds.append(("DOC P", tc["bad"]))
    out3, err = run_driver(ctx, exe, cmds)
    n_typed = n_typed_skipped = 0
    typed_kinds = {}
    if out3 is None:
        ctx.broken.append(("correspondence", "driver c37_xml failed on the typed-attribute stream", err))
    else:
        for j, tc in enumerate(typed):
            g = out3[2 * j].split("\t")
            b = out3[2 * j + 1].split("\t")
            for ln, doc in ((g, tc["good"]), (b, tc["bad"])):
                if ln[0] != "P RET" and not (ln[0].endswith("SIGNAL") and ln[1] == "14"):
                    report_crash("P", doc.encode(), None, "\t".join(ln), "typed:%s:%s:%s" % (tc["elem"], tc["attr"], tc["what"]),
                                 extra_sig={"element": tc["elem"], "attribute": tc["attr"]})
            if g[0] != "P RET" or b[0] != "P RET":
                continue
            if g[1] != "SPEC":
                n_typed_skipped += 1      # baseline not accepted for other (semantic) reasons: the pair says nothing
                continue
            n_typed += 1
            typed_kinds[tc["what"]] = typed_kinds.get(tc["what"], 0) + 1
            if tc["what"] == "longlist":
                if b[1] == "NULL" and not (len(b) > 2 and unesc(b[2]).strip()):
                    alarm("impl_violation", {"doc": tc["bad"][:300], "api": "mj_parseXMLString"}, expected="non-empty error message with NULL", observed="\t".join(b)[:200],
                          signature={"site": "mj_parseXMLString", "class": "null-without-message"}, theorem="(oracle) error message")
                continue
            if b[1] != "NULL" or not (len(b) > 2 and unesc(b[2]).strip()):
                alarm("impl_violation", {"doc": tc["bad"][:2000], "element": tc["elem"], "attribute": tc["attr"], "injected": tc["what"], "api": "mj_parseXMLString"},
                      expected="NULL + non-empty error (%s)" % tc["what"], observed="\t".join(b)[:300],
                      signature={"site": "mjXReader", "class": "accepts-" + tc["what"], "element": tc["elem"], "attribute": tc["attr"]}, theorem="(oracle) enum keywords / attribute types")

    # ================================================================== D. lexers: model vs real ReadAttr / MapValue(s)
    n_lex = lexer_tie(ctx, exe, rng, quick, alarm, maps)

    # ================================================================== E. crash observation
    crash_docs = []
    for s in SEEDS:
        crash_docs.append(("seed", s.encode()))
    # fixed corpus (inputs of earlier findings, repaired in /repo: must stay NULL + message), both APIs
    FIXED = [
        El("mujoco", [], [El("asset", [], [El("model", [("content_type", "1")])])]),                      # C37-F2: aborted (bad_optional_access)
        El("mujoco", [], [El("asset", [], [El("model")])]),
        El("mujoco", [], [El("asset", [], [El("material", [], [El("layer", [("role", "1"), ("texture", "1")])])])]),   # C37-F3: exit via mju_error
        El("mujoco", [], [El("asset", [], [El("material", [("name", "m")], [El("layer", [("role", "RGB"), ("texture", "t")])])])]),
        # C37-F4: <numeric> size used as the copy bound into data[500] before it was range-checked (stack buffer overrun)
        El("mujoco", [], [El("custom", [], [El("numeric", [("name", "n"), ("size", "1000"), ("data", " ".join(["1"] * 600))])])]),
        El("mujoco", [], [El("custom", [], [El("numeric", [("name", "n"), ("data", " ".join(["1"] * 501))])])]),
        El("mujoco", [], [El("custom", [], [El("numeric", [("name", "n"), ("size", "501"), ("data", " ".join(["1"] * 501))])])]),
    ]
    crash_el = {}
    for el in FIXED:
        for _ in range(2):      # even index = mj_loadXML, odd = parse+compile
            crash_el[len(crash_docs)] = el
            crash_docs.append(("fixed", serialize(el).encode()))
    for s in SEEDS:
        crash_docs += byte_mutations(s, rng, 60 if quick else 350)
    # exact-fit / overlong value lists on elements whose attributes are read by hand-written code into
    # fixed-size buffers (custom numeric/text/tuple, keyframes, user data, replicate/frame, plugin config)
    def vals(n, v="1"):
        return " ".join([v] * n)
    NS = [1, 3, 499, 500, 501, 502, 600, 1000, 5000] if not quick else [3, 500, 501, 502, 1000, rng.choice([499, 600, 5000])]
    exact = []
    for n in NS:
        exact.append(El("mujoco", [], [El("custom", [], [El("numeric", [("name", "n"), ("data", vals(n))])])]))
        exact.append(El("mujoco", [], [El("custom", [], [El("numeric", [("name", "n"), ("size", str(n)), ("data", vals(n))])])]))
        exact.append(El("mujoco", [], [El("custom", [], [El("numeric", [("name", "n"), ("size", str(2 * n)), ("data", vals(n))])])]))
        exact.append(El("mujoco", [], [El("custom", [], [El("numeric", [("name", "n"), ("size", str(n)), ("data", vals(3))])])]))
        exact.append(El("mujoco", [], [El("custom", [], [El("text", [("name", "t"), ("data", "x" * n)])])]))
        exact.append(El("mujoco", [], [El("keyframe", [], [El("key", [("qpos", vals(n)), ("ctrl", vals(n)), ("act", vals(n)), ("mpos", vals(n)), ("mquat", vals(n))])])]))
        exact.append(El("mujoco", [], [El("size", [("nuser_body", str(n)), ("nuser_geom", str(n))]),
                                       El("worldbody", [], [El("body", [("user", vals(n))], [El("geom", [("size", "1"), ("user", vals(n))])])])]))
        exact.append(El("mujoco", [], [El("worldbody", [], [El("replicate", [("count", "2"), ("offset", vals(n)), ("euler", vals(n))], [El("geom", [("size", "1")])])])]))
        exact.append(El("mujoco", [], [El("worldbody", [], [El("frame", [("pos", vals(n)), ("quat", vals(n))], [El("geom", [("size", "1"), ("fromto", vals(n))])])])]))
        exact.append(El("mujoco", [], [El("option", [("actuatorgroupdisable", vals(n, "3"))]), El("worldbody")]))
        exact.append(El("mujoco", [], [El("asset", [], [El("mesh", [("name", "m"), ("vertex", vals(n)), ("face", vals(n, "0"))])])]))
        exact.append(El("mujoco", [], [El("worldbody", [], [El("body", [], [El("geom", [("size", "1")]), El("composite", [("type", "cable"), ("count", vals(n)), ("vertex", vals(n))])])])]))
    for el in exact:
        crash_el[len(crash_docs)] = el
        crash_docs.append(("exactfit", serialize(el).encode()))
    # URDF: observation only (the schema half does not apply to <robot> documents)
    crash_docs.append(("urdf", URDF_SEED.encode()))
    crash_docs += byte_mutations(URDF_SEED, rng, 40 if quick else 400)
    gen_valid = [texts[i] for i, (k, _, _) in enumerate(docs) if k == "valid"]
    gen_valid_el = [docs[i][1] for i, (k, _, _) in enumerate(docs) if k == "valid"]
    for t, el in list(zip(gen_valid, gen_valid_el))[: (40 if quick else 300)]:
        crash_el[len(crash_docs)] = el
        crash_docs.append(("generated", t.encode()))
        crash_docs += byte_mutations(t, rng, 1 if quick else 2)
    crash_docs += deep_docs()
    for tc in typed[: (30 if quick else 200)]:
        crash_docs.append(("typed_bad", tc["bad"].encode()))
    cmds = []
    for j, (k, b) in enumerate(crash_docs):
        cmds.append(("DOC %s" % ("L" if j % 2 == 0 else "C"), b))
    out4, err = run_driver(ctx, exe, cmds, args=("--timeout=20",), timeout=1500)
    n_crash_runs = n_timeouts = n_models = 0
    seeds_ok = 0
    if out4 is None:
        ctx.broken.append(("correspondence", "driver c37_xml failed on the crash stream", err))
    else:
        for j, ((k, b), ln) in enumerate(zip(crash_docs, out4)):
            n_crash_runs += 1
            f = ln.split("\t")
            mode = "mj_loadXML" if j % 2 == 0 else "mj_parseXMLString+mj_compile"
            if f[0].endswith("SIGNAL") and f[1] == "14":
                n_timeouts += 1
                continue
            if not f[0].endswith("RET"):
                report_crash("L" if j % 2 == 0 else "C", b, crash_el.get(j), ln, k)
                continue
            if "MODEL" in f:
                n_models += 1
                if k == "seed":
                    seeds_ok += 1
                if k == "fixed":
                    alarm("impl_violation", {"doc": b.decode(), "api": mode}, expected="NULL + non-empty error (invalid document of the fixed corpus)",
                          observed=ln[:300], signature={"site": mode, "class": "accepts-fixed-corpus"}, theorem="(oracle) fixed corpus")
            else:
                msg = unesc(f[-1]) if len(f) > 2 else ""
                if not msg.strip():
                    alarm("impl_violation", {"doc_b64": base64.b64encode(b).decode()[:8000], "mutation": k, "api": mode}, expected="non-empty error message with NULL",
                          observed=ln[:300], signature={"site": mode, "class": "null-without-message"}, theorem="(oracle) error message")
        if seeds_ok < len(SEEDS):
            ctx.broken.append(("correspondence", "a curated seed model no longer loads: the crash stream would be vacuous", str([l[:200] for l in out4[:len(SEEDS)]])))


    # ================================================================== F. include graphs through a VFS (mj_loadXML)
    shapes = ["plain", "chain", "tree", "diamond", "twice", "self", "cycle", "cycle_top", "missing", "empty", "badxml", "children"]
    graphs = []
    for sh in shapes:
        for _ in range((3 if sh in ("self", "cycle", "chain", "tree") else 2) if quick else (30 if sh in ("self", "cycle", "chain", "tree") else 8)):
            graphs.append((sh,) + include_graph(rng, sh))
    cmds = []
    for (sh, t, files, expect) in graphs:
        cmds.append("FILES CLEAR")
        for nm, txt in files.items():
            cmds.append(("FILE %s" % nm, txt))
        cmds.append(("DOC L", t))
    out5, err = run_driver(ctx, exe, cmds, args=("--timeout=20",), timeout=1200)
    n_graphs = 0
    graph_outcomes = {}
    if out5 is None:
        ctx.broken.append(("correspondence", "driver c37_xml failed on the include-graph stream", err))
    else:
        p = 0
        for (sh, t, files, expect) in graphs:
            p += 1 + len(files)
            ln = out5[p]
            p += 1
            n_graphs += 1
            f = ln.split("\t")
            case = {"api": "mj_loadXML (VFS)", "shape": sh, "doc.xml": t, "files": {k: v[:600] for k, v in files.items()}}
            if not f[0].endswith("RET"):
                graph_outcomes[sh + ":crash"] = graph_outcomes.get(sh + ":crash", 0) + 1
                alarm("impl_violation", case, expected="a model, or NULL with a non-empty error message" + (" (the include graph has a cycle: NULL + message)" if expect == "null" and sh in ("self", "cycle", "cycle_top") else ""),
                      observed=ln[:500], signature={"site": "mj_loadXML", "class": "crash", "what": crash_what(ln), "element": "include", "shape": sh},
                      theorem="(observation) no crash / abort / exit")
                continue
            got = "model" if "MODEL" in f else "null"
            graph_outcomes[sh + ":" + got] = graph_outcomes.get(sh + ":" + got, 0) + 1
            msg = unesc(f[-1]) if len(f) > 2 else ""
            if got == "null" and not msg.strip():
                alarm("impl_violation", case, expected="non-empty error message with NULL", observed=ln[:300],
                      signature={"site": "mj_loadXML", "class": "null-without-message", "shape": sh}, theorem="(oracle) error message")
            if expect == "null" and got == "model":
                alarm("impl_violation", case, expected="NULL + error: the include graph is cyclic / refers to a missing, empty or malformed file", observed=ln[:300],
                      signature={"site": "mj_loadXML", "class": "accepts-bad-include-graph", "shape": sh}, theorem="(oracle) include graphs")
            if expect == "model" and got == "null":
                alarm("impl_violation", case, expected="a model: acyclic include graph of valid files, each included once", observed=ln[:400],
                      signature={"site": "mj_loadXML", "class": "rejects-valid-include-graph", "shape": sh}, theorem="(oracle) include graphs")

    # thorough: the same stream under ASan/UBSan
    san = None
    if not quick and out4 is not None:
        san = sanitizer_run(ctx, crash_docs, alarm)

    # ---- known finding replay (refuted theorem): two unique <inertial> below <frame>
    ctx.cov["evaluations"] = len(docs) + n_p + n_rand_docs + 2 * len(typed) + n_lex + n_crash_runs + n_graphs
    ctx.cov["distinct_nontrivial"] = len(set(texts)) + n_rand_docs
    ctx.cov["rule"] = ("documents generated by walking the regenerated table (valid stream; one injected violation: unknown attribute/element, repeated unique child, "
                       "dropped required child, broken e/t/r/o constraint, misplaced element; include wrappers), the same on random tables with '!'/'?'/'*'/'R' rows, "
                       "body aliases and constraints; (good,bad) document pairs per typed attribute of the read table; byte mutations of curated and generated models; "
                       "distinct = distinct document texts")
    ctx.cov["samples"] = [{"kind": docs[0][0], "doc": texts[0][:400]}, {"kind": docs[2][0], "injected": docs[2][2], "doc": texts[2][:400]}] + \
                         ([{"typed": typed[0]["what"], "doc": typed[0]["bad"][:300]}] if typed else [])
    ctx.cov["support"].update({
        "rec_by_namematch": bnm, "table_rows": len(d["rows"]), "table_constraints": len(d["cons"]),
        "real_table_docs": len(docs), "accepted": n_accept, "rejected": n_reject, "error_classes_real": classes_seen,
        "model_compared_real": len(coq_cases), "model_disagreements_real": len(fails),
        "random_tables": ntab, "random_table_docs": n_rand_docs, "error_classes_random": rand_classes, "model_disagreements_random": len(fails2),
        "reader_docs": n_p, "typed_pairs": n_typed, "typed_pairs_skipped_baseline_not_accepted": n_typed_skipped, "typed_kinds": typed_kinds,
        "lexer_cases": n_lex, "crash_runs": n_crash_runs, "crash_timeouts_not_counted": n_timeouts, "crash_models_returned": n_models,
        "include_graphs": n_graphs, "include_graph_outcomes": graph_outcomes,
        "sanitizer": san, "violations_total": nviol[0]})
    ctx.cov["explanation"] = ("schema matcher <-> Conforms proved for all tables and documents; model tied to the real mjXSchema on %d+%d documents; "
                              "independent conformance oracle on every document; %d typed-attribute pairs; %d fork-isolated crash runs" %
                              (len(coq_cases), len(coq_cases2), n_typed, n_crash_runs))


# ------------------------------------------------------------------ typed attribute violations
def typed_cases(tree, readtab, maps, rng, quick):
    """(good, bad) document pairs: the element sits in a <default> class when the table has it there
    (no required references needed), else below its normal parent with its required attributes."""
    cases = []
    defaults = {s["name"] for s in next((x for x in tree["subs"] if x["name"] == "default"), {"subs": []})["subs"]}
    parents = {}

    def scan(node, path):
        for s in node["subs"]:
            parents.setdefault(s["name"], []).append(path + [node["name"]])
            scan(s, path + [node["name"]])
    scan(tree, [])

    def wrap(elem_xml, name):
        if name in defaults:
            return "<mujoco><default>%s</default></mujoco>" % elem_xml
        ps = [p for p in parents.get(name, []) if "default" not in p and table_name(p[-1], name) == name]
        if not ps:
            return None
        p = min(ps, key=len)
        open_, close = "", ""
        for tag in p:
            t = tag
            if tag == "body":
                t = "worldbody" if not open_.count("<worldbody>") else "body"
            open_ += "<%s>" % t
            close = "</%s>" % t + close
        if p == ["mujoco", "body"]:
            open_, close = "<mujoco><worldbody><body>", '<geom size="1"/></body></worldbody></mujoco>'
        if name == "body":
            open_, close = "<mujoco><worldbody>", "</worldbody></mujoco>"
        return open_ + elem_xml + close

    for name, rows in sorted(readtab.items()):
        if name in ("equality_base", "sensor_base", "flexcomp_contact", "flex_edge"):
            continue
        req = [r for r in rows if r["required"]]
        base_attrs = []
        uid = [0]
        for r in req:
            uid[0] += 1
            base_attrs.append((r["attr"], typed_value(r, maps, rng, uid[0])))
        for r in req:
            def mkreq(drop):
                attrs = [(a, x) for a, x in base_attrs if not (drop and a == r["attr"])]
                return wrap("<%s%s/>" % (name, "".join(' %s="%s"' % (a, xml_escape(x)) for a, x in attrs)), name)
            if name not in defaults and mkreq(False) is not None:
                cases.append({"elem": name, "attr": r["attr"], "what": "required", "good": mkreq(False), "bad": mkreq(True)})
        for r in rows:
            muts = []
            try:
                n = int(r["len"])
            except ValueError:
                n = None
            if r["kind"] in ("kEnum", "kEnumByte", "kBool"):
                keys = maps.get(r["map"]) if r["kind"] != "kBool" else ["true", "false"]
                if not keys:
                    continue
                muts.append(("enum", keys[0], "no_such_keyword"))
                muts.append(("enum", keys[-1], keys[-1] + " " + keys[-1]))
                muts.append(("enum", keys[0], keys[0].upper() + "X"))
            elif r["kind"] in ("kInt", "kDouble", "kNum", "kFloat") and n is not None:
                good = " ".join(["1"] * n)
                muts.append(("arity", good, " ".join(["1"] * (n + 1))))
                muts.append(("type", good, " ".join(["1"] * (n - 1) + ["abc"])))
                if r["exact"] and n > 1:
                    muts.append(("arity", good, " ".join(["1"] * (n - 1))))
                if r["kind"] == "kInt":
                    muts.append(("type", good, " ".join(["1"] * (n - 1) + ["1.5x"])))
            if r["kind"] in ("kInt",) and n is not None:
                # value range of the attribute type: integer literals outside 32 bits (inside and outside 64 bits) must not be accepted
                for bv in rng.sample(["2147483648", "-2147483649", "4294967297", "4294967295", "8589934592", "99999999999", "-4294967297",
                                      "9223372036854775807", "-9223372036854775808", "18446744073709551617"], 2 if quick else 5):
                    muts.append(("intrange", " ".join(["1"] * n), " ".join(["1"] * (n - 1) + [bv])))
            if r["kind"] in ("kDouble", "kNum", "kFloat") and n is not None:
                muts.append(("floatrange", " ".join(["1"] * n), " ".join(["1"] * (n - 1) + [rng.choice(["1e999", "-1e999"]) if r["kind"] != "kFloat" else rng.choice(["1e39", "-3.5e38", "1e999"])])))
            if r["kind"] in ("kInt", "kDouble", "kNum", "kFloat", "kDoubleVec", "kFloatVec", "kIntVec"):
                # exact-fit / overlong lists: lengths around the fixed-size buffers of the reader (no expectation but "returns")
                for big in ((rng.choice([501, 5000]),) if not quick else (rng.choice([500, 501, 502, 1000, 5000]),)):
                    muts.append(("longlist", "1", " ".join(["1"] * big)))
            if quick and len(muts) > 3:
                muts = rng.sample(muts, 3)
            for what, gv, bv in muts:
                def mk(v):
                    attrs = [(a, x) for a, x in base_attrs if a != r["attr"]] + [(r["attr"], v)]
                    tag = name
                    return wrap("<%s%s/>" % (tag, "".join(' %s="%s"' % (a, xml_escape(x)) for a, x in attrs)), name)
                g, b = mk(gv), mk(bv)
                if g is None:
                    continue
                cases.append({"elem": name, "attr": r["attr"], "what": what, "good": g, "bad": b})
    if quick and len(cases) > 560:
        cases = rng.sample(cases, 560)
    # integer attributes read by hand-written code (not in the typed table): always included
    HAND = [("size", "nconmax", '<mujoco><size nconmax="%s"/></mujoco>', "5"), ("size", "njmax", '<mujoco><size njmax="%s"/></mujoco>', "5"),
            ("size", "nstack", '<mujoco><size nstack="%s"/></mujoco>', "5"), ("size", "nuserdata", '<mujoco><size nuserdata="%s"/></mujoco>', "5"),
            ("size", "nkey", '<mujoco><size nkey="%s"/></mujoco>', "2"), ("size", "nuser_geom", '<mujoco><size nuser_geom="%s"/></mujoco>', "2"),
            ("numeric", "size", '<mujoco><custom><numeric name="n" size="%s" data="1"/></custom></mujoco>', "3"),
            ("replicate", "count", '<mujoco><worldbody><replicate count="%s"><geom size="1"/></replicate></worldbody></mujoco>', "2"),
            ("geom", "contype", '<mujoco><worldbody><geom size="1" contype="%s"/></worldbody></mujoco>', "1"),
            ("geom", "group", '<mujoco><worldbody><geom size="1" group="%s"/></worldbody></mujoco>', "1"),
            ("option", "iterations", '<mujoco><option iterations="%s"/></mujoco>', "10"),
            ("global", "offwidth", '<mujoco><visual><global offwidth="%s"/></visual></mujoco>', "64"),
            ("texture", "width", '<mujoco><asset><texture name="t" type="2d" builtin="flat" width="%s" height="8"/></asset></mujoco>', "8"),
            ("composite", "count", '<mujoco><worldbody><body><geom size="1"/><composite type="cable" count="%s 1 1" curve="s" size="1"><geom type="capsule" size=".01"/></composite></body></worldbody></mujoco>', "3"),
            ("key", "time", '<mujoco><keyframe><key time="%s"/></keyframe></mujoco>', "1")]
    for (el, at, tpl, good) in HAND:
        bads = ["4294967297", "2147483648", "-2147483649", "99999999999", "18446744073709551617"] if at != "time" else ["1e999"]
        for bv in (bads if not quick else rng.sample(bads, min(2, len(bads)))):
            cases.append({"elem": el, "attr": at, "what": "intrange" if at != "time" else "floatrange", "good": tpl % good, "bad": tpl % bv})
    return cases


# ------------------------------------------------------------------ lexers
def lexer_tie(ctx, exe, rng, quick, alarm, maps):
    """real ReadAttr<T>/MapValue/MapValues vs Model/Lex.v on attribute texts made of tokens and whitespace"""
    WS = [" ", "  ", "\t", "\n", " \t ", "\r"]
    TOK = ["1", "0", "-2", "3.5", "1e3", "-0.25", ".5", "7"]
    cases = []
    n = 300 if quick else 2500
    for _ in range(n):
        ntok = rng.choice([0, 0, 1, 1, 2, 3, 4, 5, 7])
        ln = rng.choice([1, 2, 3, 4, 6])
        exact = rng.random() < 0.5
        text = (rng.choice(WS) if rng.random() < 0.4 else "")
        toks = []
        for k in range(ntok):
            t = rng.choice(TOK)
            toks.append(t)
            text += t + (rng.choice(WS) if (k + 1 < ntok or rng.random() < 0.4) else "")
        cases.append(("num", "d" if exact else "D", ln, text, toks))
    keysets = [["false", "true"], ["a", "b", "c"], ["none", "one", "two", "one2"]] + [v for v in list(maps.values())[:6]]
    for _ in range(n):
        keys = rng.choice(keysets)
        multi = rng.random() < 0.5
        ntok = rng.choice([0, 1, 1, 1, 2, 3]) if multi else rng.choice([0, 1, 1, 1, 1, 2])
        toks = [rng.choice(keys + ["zzz", keys[0].upper(), keys[0] + "x"]) if rng.random() < 0.3 else rng.choice(keys) for _ in range(ntok)]
        if multi:
            text = (rng.choice(WS) if rng.random() < 0.3 else "") + "".join(t + rng.choice(WS) for t in toks)
            if text.endswith((" ", "\t", "\n", "\r")) and rng.random() < 0.5:
                text = text.rstrip()
        else:
            text = " ".join(toks) if rng.random() < 0.8 or not toks else (" " + toks[0])
        cases.append(("key", "K" if multi else "k", keys, text, toks))
    # integer lists: literals around the 32-bit and 8-bit limits, beyond 64 bits, signs, leading zeros, malformed
    INTTOK = ["0", "1", "-1", "+5", "-0", "007", "255", "256", "-2", "2147483647", "-2147483648", "2147483648", "-2147483649",
              "4294967295", "4294967296", "4294967297", "8589934592", "-4294967295", "99999999999", "9223372036854775807",
              "-9223372036854775808", "9223372036854775808", "18446744073709551617", "-99999999999999999999999", "1.5", "1e3", "0x10", "12x", "+", "-", "+-1", "1-"]
    for _ in range(n):
        byte = rng.random() < 0.3
        ln = rng.choice([1, 1, 2, 3, 5])
        exact = rng.random() < 0.5
        ntok = rng.choice([0, 1, 1, 1, 2, 3, 5, 6])
        pool = INTTOK if rng.random() < 0.6 else INTTOK[:9]
        toks = [rng.choice(pool) for _ in range(ntok)]
        text = (rng.choice(WS) if rng.random() < 0.3 else "") + "".join(t + (rng.choice(WS) if (k + 1 < ntok or rng.random() < 0.3) else "") for k, t in enumerate(toks))
        cases.append(("int", ("b" if exact else "B") if byte else ("i" if exact else "I"), ln, text, toks))
    cmds = []
    lastkeys = None
    for c in cases:
        if c[0] in ("num", "int"):
            cmds.append(("LEX %s %d" % (c[1], c[2]), c[3]))
        else:
            if c[2] != lastkeys:
                cmds.append("KEYS " + " ".join(c[2]))
                lastkeys = c[2]
            cmds.append(("LEX %s 0" % c[1], c[3]))
    out, err = run_driver(ctx, exe, cmds)
    if out is None:
        ctx.broken.append(("correspondence", "driver c37_xml failed on the lexer stream", err))
        return 0
    coq_cases, metas = [], []
    p = 0
    lastkeys = None
    for c in cases:
        if c[0] == "key" and c[2] != lastkeys:
            p += 1
            lastkeys = c[2]
        ln = out[p]
        p += 1
        txt = cs(c[3])
        if c[0] == "int":
            lo, hi = ((0, 255) if c[1] in "bB" else (-2 ** 31, 2 ** 31 - 1))
            exact = c[1] in "bi"
            # independent oracle (python big integers)
            exp = None
            vals = []
            for t in c[4]:
                if not re.fullmatch(r"[+-]?[0-9]+", t):
                    exp = "format"
                    break
                z = int(t)
                if not (lo <= z <= hi):
                    exp = "range"
                    break
                vals.append(z)
            if exp is None:
                nt = len(vals)
                exp = "ok" if (nt == 0 or (nt <= c[2] and (not exact or nt == c[2]))) else ("few" if (exact and nt < c[2]) else "many")
            if ln.startswith("LEX OK"):
                got = [int(x) for x in ln.split()[3:]]
                res = "(0, [%s])" % "; ".join("(%d)" % g for g in got)
                if exp != "ok" or got != vals:
                    alarm("impl_violation", {"text": c[3], "len": c[2], "exact": exact, "type": "unsigned char" if c[1] in "bB" else "int", "api": "mjXUtil::ReadAttr"},
                          expected=("rejected (%s): a token is not an integer literal within [%d, %d] / wrong arity" % (exp, lo, hi)) if exp != "ok" else "values %s" % vals,
                          observed=ln[:200], signature={"site": "mjXUtil::ReadAttr", "class": "int-" + ("accepts-" + exp if exp != "ok" else "wrong-value")},
                          theorem="C37_intlist_accepts_iff")
            else:
                msg = unesc(ln[8:])
                code = 1 if "too much data" in msg else 2 if "does not have enough data" in msg else 3 if "bad format" in msg else 4 if "number is too large" in msg else 9
                res = "(%d, [])" % code
                if exp == "ok":
                    alarm("impl_violation", {"text": c[3], "len": c[2], "exact": exact, "type": "unsigned char" if c[1] in "bB" else "int", "api": "mjXUtil::ReadAttr"},
                          expected="accepted: integer literals within range and arity, values %s" % vals, observed=ln[:200],
                          signature={"site": "mjXUtil::ReadAttr", "class": "int-rejects-valid"}, theorem="C37_intlist_accepts_iff")
            coq_cases.append("(%d, %d, %s, %s, (@nil string), %s)" % (4 if c[1] in "bB" else 3, c[2], "true" if exact else "false", txt, res))
            metas.append((c, ln))
            continue
        if c[0] == "num":
            if ln.startswith("LEX OK"):
                got = int(ln.split()[2])
                res = "(0, [%d])" % got
                # oracle: tokens count within bounds
                ntok = len(c[4])
                okexp = (ntok == 0) or (ntok <= c[2] and (c[1] == "D" or ntok == c[2]))
                if not okexp or got != ntok:
                    alarm("impl_violation", {"text": c[3], "len": c[2], "exact": c[1] == "d", "api": "mjXUtil::ReadAttr<double>"}, expected="rejected (arity)" if not okexp else "count %d" % ntok,
                          observed=ln, signature={"site": "mjXUtil::ReadAttr", "class": "arity"}, theorem="C37_numlist_accepts_iff")
            else:
                msg = unesc(ln[8:])
                code = 1 if "too much data" in msg else 2 if "does not have enough data" in msg else 3 if "bad format" in msg else 9
                res = "(%d, [])" % code
                ntok = len(c[4])
                okexp = (ntok == 0) or (ntok <= c[2] and (c[1] == "D" or ntok == c[2]))
                if okexp:
                    alarm("impl_violation", {"text": c[3], "len": c[2], "exact": c[1] == "d", "api": "mjXUtil::ReadAttr<double>"}, expected="accepted: %d well-formed numerals within bounds" % ntok,
                          observed=ln, signature={"site": "mjXUtil::ReadAttr", "class": "rejects-wellformed"}, theorem="C37_numlist_accepts_iff")
            coq_cases.append("(0, %d, %s, %s, (@nil string), %s)" % (c[2], "true" if c[1] == "d" else "false", txt, res))
        else:
            keys = c[2]
            toks = c[3].split()
            valid_kw = (c[3] in keys) if c[1] == "k" else (len(toks) > 0 and all(t in keys for t in toks) and len(set(toks)) == len(toks))
            if valid_kw != ln.startswith("LEX OK") and (c[1] == "k" or toks):
                alarm("impl_violation", {"text": c[3], "keys": keys, "api": "mjXUtil::MapValue" + ("s" if c[1] == "K" else "")},
                      expected="accepted: valid keyword(s)" if valid_kw else "rejected: not a list of distinct valid keywords", observed=ln[:200],
                      signature={"site": "mjXUtil::MapValue", "class": "rejects-valid-keyword" if valid_kw else "accepts-invalid-keyword"}, theorem="C37_keyword_accepts_iff")
            if ln.startswith("LEX OK"):
                f = ln.split()
                if c[1] == "k":
                    res = "(0, [%s])" % (f[3] if f[2] == "1" else "")
                else:
                    res = "(0, [%s])" % "; ".join(f[3:])
            else:
                msg = unesc(ln[8:])
                code = 1 if "invalid keyword" in msg else 2 if "duplicate keyword" in msg else 9
                res = "(%d, [])" % code
            coq_cases.append("(%d, 0, false, %s, [%s], %s)" % (1 if c[1] == "k" else 2, txt, "; ".join(cs(k) for k in keys), res))
        metas.append((c, ln))
    fails = ctx.coq_eval("c37_lex", "From Coq Require Import String ZArith.\nFrom MJV Require Import Model.Lex.\nOpen Scope string_scope. Open Scope Z_scope.",
                         coq_cases, "lex_case_ok", shard=400)
    for j in fails[:4]:
        c, ln = metas[j]
        alarm("correspondence", {"lexer": c[1], "arg": c[2], "text": c[3]}, expected="model result (Model/Lex.v)", observed=ln[:300], found_input=False,
              theorem="correspondence c37 (lexers)")
    return len(cases)


def build_san_lib(repo, extra):
    """src/xml + src/user + the shim instrumented with ASan/UBSan; src/engine objects as in the plain
    library (shared object cache) - the parser, reader and compiler are what the documents drive."""
    import glob, subprocess
    from concurrent.futures import ThreadPoolExecutor
    os.makedirs(B.OBJ, exist_ok=True)
    hdig = B.header_digest(repo)
    xdig = B.xml_digest(repo, hdig)
    jobs = []
    for src in B.lib_sources(repo):
        if os.path.basename(src) == "xml_stub.c":
            continue
        inst = "/src/user/" in src
        jobs.append((src, hdig, extra if inst else ()))
    for src in B.xml_sources(repo) + [os.path.join(B.STUBS, "tinyxml2_shim.cc")]:
        jobs.append((src, xdig, extra))
    with ThreadPoolExecutor(max_workers=8) as ex:
        res = list(ex.map(lambda j: B.compile_one(j[0], repo, j[1], j[2]), jobs))
    errs = [e for (_, e) in res if e]
    if errs:
        raise RuntimeError("\n".join(errs))
    objs = [o for (o, _) in res]
    lib = os.path.join(B.BUILD, "lib", "libmj_xml_san_%s.a" % B.sha(("\n".join(objs)).encode())[:24])
    if not os.path.exists(lib):
        os.makedirs(os.path.dirname(lib), exist_ok=True)
        tmp = lib + ".%d.tmp" % os.getpid()
        if os.path.exists(tmp):
            os.remove(tmp)
        subprocess.run(["ar", "rcs", tmp] + objs, check=True)
        os.replace(tmp, lib)
        for old in sorted(glob.glob(os.path.join(B.BUILD, "lib", "libmj_xml_san_*.a")), key=os.path.getmtime)[:-3]:
            try:
                os.remove(old)
            except OSError:
                pass
    return lib


def sanitizer_run(ctx, crash_docs, alarm):
    """thorough tier: src/xml + src/user of the working tree with -fsanitize=address,undefined"""
    import time
    t0 = time.time()
    # -U__SANITIZE_ADDRESS__: include/mujoco/mjsan.h's ASan-only stack instrumentation uses clang-only syntax and needs engine support
    extra = ("-fsanitize=address,undefined", "-U__SANITIZE_ADDRESS__", "-fno-omit-frame-pointer", "-fno-sanitize-recover=undefined")
    with F.Lock("libxml_san"):
        try:
            lib = build_san_lib(ctx.repo, extra)
            exe = B.build_driver("c37_xml_san", ["c37_xml.cc"], ctx.repo, lib, extra=extra, link_extra=("-fsanitize=address,undefined",))
        except RuntimeError as e:
            return {"built": False, "why": str(e)[-300:]}
    sub = crash_docs[:: max(1, len(crash_docs) // 700)]
    cmds = [("DOC %s" % ("L" if j % 2 == 0 else "C"), b) for j, (k, b) in enumerate(sub)]
    import subprocess
    env = dict(os.environ, ASAN_OPTIONS="detect_leaks=0:abort_on_error=0:exitcode=97:allocator_may_return_null=1", UBSAN_OPTIONS="print_stacktrace=0:halt_on_error=1:exitcode=98")
    inp = bytearray()
    for head, doc in cmds:
        inp += ("%s %d\n" % (head, len(doc))).encode() + doc + b"\n"
    try:
        r = subprocess.run([exe, "--cwd=" + ctx.scratch, "--timeout=60"], input=bytes(inp), capture_output=True, timeout=1500, env=env)
    except subprocess.TimeoutExpired:
        return {"built": True, "ran": False, "why": "timeout"}
    out = r.stdout.decode("utf-8", "replace").split("\n")
    nbad = 0
    for j, ((k, b), ln) in enumerate(zip(sub, out)):
        f = ln.split("\t")
        if f[0].endswith("SIGNAL") and f[1] == "14":
            continue
        if not f[0].endswith("RET"):
            nbad += 1
            rep = " ".join(f[2:])[:700] if len(f) > 2 else ""
            m = re.search(r"(runtime error: [^\\]*|AddressSanitizer: [\w-]+)", rep)
            alarm("impl_violation", {"doc_b64": base64.b64encode(b).decode()[:8000], "mutation": k, "api": "mj_loadXML" if j % 2 == 0 else "mj_parseXMLString+mj_compile"},
                  expected="no sanitizer report", observed=ln[:900],
                  signature={"site": "sanitizer", "class": "asan-ubsan", "report": (m.group(1)[:80] if m else " ".join(f[:2]))}, theorem="(observation) no undefined behaviour")
    return {"built": True, "ran": True, "docs": len(sub), "reports": nbad, "wall_s": round(time.time() - t0, 1)}
