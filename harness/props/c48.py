"""C48 — System-identification signal transforms are pure."""
import json, math, os, subprocess
import framework as F

META = {
    "id": "C48", "category": "proof", "design_ref": "DESIGN.md section 4, C48",
    "technique": ("Coq proof (induction over the knots / over the groups of columns) about a Gallina model of TimeSeries.interpolate/resample and the signal modifiers written over the numeric class Num "
                  "+ exact correspondence of the model run at binary64 inside Coq with the Python functions imported by path + purity check by fingerprinting every input buffer before and "
                  "after every modifier call"),
    "text": ("PURITY (modifiers return new time series and never modify the series passed in) is definitional in a functional model - a Gallina function cannot write to its argument - and is "
             "therefore NOT a theorem: it is tied by the correspondence harness, which fingerprints (sha256 of the bytes, shape, dtype, identity of the array objects held by the TimeSeries, index "
             "arrays of the signal mapping, parameter value/nominal/bounds, new_times, the delay dict) every input before and after every call of apply_bias, apply_gain, apply_delay, "
             "apply_time_window, apply_delayed_ts_window, apply_resample_and_delay, TimeSeries.resample and TimeSeries.interpolate (linear and zero-order hold) on the cases of the run, for "
             "C- and Fortran-ordered data; any change is an implementation violation. The same is done for SignalTransform.apply() with every subset of {gain, bias, delay} registrations on the "
             "targets predicted / measured / both (matching and non-matching patterns): BOTH input series, the larger caller arrays that the measured series views, the mappings and all parameters "
             "are fingerprinted before and after, apply() is called three times and must return identical residuals and series each time, and its result must equal the composition of the "
             "standalone modifiers (apply_delayed_ts_window, apply_resample_and_delay / resample, apply_gain, apply_bias, weighted difference, normalisation) on fresh copies. Aliasing of a result with its input (views) is recorded but is not a violation. "
             "Proved in Coq over the real numbers (Props/C48.v): linear interpolation lies between the two neighbouring samples (C48_lerp_within_neighbours) and, for every strictly increasing series "
             "with >= 2 samples and every t in its time range, the samples used are adjacent, bracket t and bound the result (C48_interp_within_neighbours); outside the range the first / last "
             "sample is returned (C48_interp_outside_range); resampling at the original timestamps returns the original data (C48_resample_identity); resampling with columns grouped by delay "
             "equals the column-by-column result, for every key type, per-column operation, key equality that only identifies equal keys, and all columns/delays of equal length "
             "(C48_grouped_equals_columnwise, closed under the global context; instance for the model's delays over R: C48_apply_resample_and_delay_columnwise). "
             "Tied by correspondence (exact, binary64): outputs of all modifiers / resample on the cases of the run equal the model's outputs bit for bit (the arithmetic is elementwise + - * / in "
             "the same order); independent oracles on the implementation output: grouped == column-by-column exactly (np.array_equal against _apply_resample_and_delay_columnwise), identity "
             "at the original timestamps exactly, interpolated values within the neighbours' range up to 4 ulp (the two weights are rounded separately, so over binary64 the bound holds only up "
             "to rounding), window = exactly the rows with min_t <= t <= max_t, bias/gain touch exactly the named columns. "
             "Not covered: interpolation kinds other than linear / zero-order hold (scipy splines), resample(target_dt=...), TimeSeries constructors from MuJoCo models, SignalTransform.enable_sensors / sensor weights (need an MjModel); "
             "scipy.interpolate.interp1d is modelled by the formula of its _call_linear (scipy 1.18), not derived from its source."),
    "note": ("Trusted: Coq kernel + std-lib real-number axioms; PrimFloat for running the model; hand-written model Model/TimeSeries.v; numpy / scipy.interpolate.interp1d of /venv as library "
             "dependencies of the code under test; the mujoco wheel only for `import mujoco`; stand-ins for the missing colorama/tabulate/yaml imports of parameter.py; the fingerprinting driver "
             "c48_ts.py (sha256 over ndarray.tobytes())."),
    "assumptions": ["purity is checked on the calls of this run, not proved", "IEEE rounding is outside the theorems over R; the tie is exact agreement at binary64 on the cases of this run"],
}

PY = "/venv/bin/python"
DRV = os.path.join(os.path.dirname(os.path.dirname(os.path.abspath(__file__))), "drivers")
OPS = {"bias": 0, "gain": 1, "delay": 2, "window": 3, "delayed_window": 4, "resample": 5, "identity": 5, "resample_delay": 6, "interpolate": 5}
SITE = {"bias": "apply_bias", "gain": "apply_gain", "delay": "apply_delay", "window": "apply_time_window", "delayed_window": "apply_delayed_ts_window",
        "resample": "TimeSeries.resample", "identity": "TimeSeries.resample", "resample_delay": "apply_resample_and_delay", "interpolate": "TimeSeries.interpolate",
        "zoh": "TimeSeries.interpolate"}


def gen_cases(ctx):
    rng = ctx.rng
    quick = ctx.tier == "quick"
    cases = []

    def series(nmin=2, nmax=9, dmax=5):
        n = rng.randint(nmin, nmax); d = rng.randint(1, dmax)
        if rng.random() < 0.4:
            dt = rng.choice([0.1, 0.25, 0.5, 1.0]); t0 = rng.choice([0.0, -1.0, 2.5])
            times = [t0 + i * dt for i in range(n)]
        else:
            t = rng.uniform(-2, 2); times = []
            for _ in range(n):
                times.append(t); t += rng.uniform(0.01, 1.0)
        data = [[rng.choice([rng.uniform(-5, 5), float(rng.randint(-3, 3))]) for _ in range(d)] for _ in range(n)]
        # signal mapping: a partition of the columns into named sensors (index order shuffled for some)
        colsleft = list(range(d)); rng.shuffle(colsleft) if rng.random() < 0.3 else None
        mapping = []; k = 0
        while colsleft:
            w = rng.randint(1, min(3, len(colsleft)))
            mapping.append(["s%d" % k, colsleft[:w]]); colsleft = colsleft[w:]; k += 1
        return {"times": times, "data": data, "mapping": mapping, "fortran": rng.random() < 0.25}

    def newtimes(times):
        lo, hi = times[0], times[-1]; span = hi - lo
        c = rng.random()
        m = rng.randint(1, 8)
        if c < 0.3:
            pts = sorted(set(rng.sample(times, min(len(times), m)) + [rng.uniform(lo - 0.3 * span, hi + 0.3 * span) for _ in range(rng.randint(0, 3))]))
        elif c < 0.5:
            pts = sorted(set([lo - rng.uniform(0, 1), lo, hi, hi + rng.uniform(0, 1)] + [rng.uniform(lo, hi) for _ in range(m)]))
        else:
            pts = sorted(set(rng.uniform(lo - 0.3 * span, hi + 0.3 * span) for _ in range(m)))
        return pts

    reps = 25 if quick else 250
    # the smallest delay case first (two samples, one column)
    cases.append({"times": [0.0, 1.0], "data": [[0.0], [1.0]], "mapping": [["s0", [0]]], "op": "delay", "sensor": "s0", "value": [0.5]})
    for _ in range(reps):
        for op in ("bias", "gain"):
            c = series(nmin=1); name, idx = rng.choice(c["mapping"])
            c.update(op=op, sensor=name, value=[rng.uniform(-2, 2) for _ in range(rng.choice([1, len(idx)]))])
            cases.append(c)
        c = series(); name, idx = rng.choice(c["mapping"])
        c.update(op="delay", sensor=name, value=[rng.choice([0.0, rng.uniform(-1, 1), c["times"][1] - c["times"][0]])])
        cases.append(c)
        c = series(nmin=1); t = c["times"]
        a, b = sorted([rng.choice(t + [rng.uniform(t[0] - 1, t[-1] + 1)]), rng.choice(t + [rng.uniform(t[0] - 1, t[-1] + 1)])])
        c.update(op="window", min_t=a, max_t=b)
        cases.append(c)
        c = series(nmin=1); t = c["times"]; n2 = rng.randint(1, 5); t0 = rng.uniform(t[0] - 0.5, t[0] + 0.5)
        dts = [t0 + i * rng.uniform(0.2, 1.0) for i in range(n2)]; dts = sorted(set(dts))
        d1, d2 = sorted([rng.uniform(-0.3, 0.3), rng.uniform(-0.3, 0.3)])
        c.update(op="delayed_window", dtimes=dts, min_delay=d1, max_delay=d2)
        cases.append(c)
        c = series(); c.update(op="resample", new_times=newtimes(c["times"])); cases.append(c)
        c = series(); c.update(op="identity"); cases.append(c)
        c = series(); c.update(op="interpolate", new_times=newtimes(c["times"])); cases.append(c)
        c = series(nmin=1); c.update(op="zoh", new_times=newtimes(c["times"])); cases.append(c)
        c = series(dmax=6)
        pool = [rng.uniform(-0.5, 0.5), rng.uniform(-0.5, 0.5), 0.0]
        sd = None if rng.random() < 0.15 else [[name, rng.choice(pool)] for name, _ in c["mapping"] if rng.random() < 0.7]
        c.update(op="resample_delay", new_times=newtimes(c["times"]), default_delay=rng.choice(pool + [0.1]), sensor_delays=sd, predicted=rng.random() < 0.5)
        cases.append(c)
    return cases


def gen_transform_cases(ctx):
    """SignalTransform.apply: every subset of {gain, bias, delay} registrations x targets predicted / measured / both,
    matching and non-matching patterns, the measured series being a view into a larger caller array"""
    import itertools
    rng = ctx.rng
    quick = ctx.tier == "quick"
    cases = []
    targets = ("predicted", "measured", "both")
    reps = 2 if quick else 12
    first = True
    for rep in range(reps):
        for use_gain, use_bias, use_delay in itertools.product((False, True), repeat=3):
            for tg in targets:
                for tb in (targets if (use_gain and use_bias) else (tg,)):
                    if first:
                        npred, nmeas, d = 6, 3, 1; dtp = 0.1
                    else:
                        npred = rng.randint(8, 30); d = rng.randint(1, 5); dtp = rng.choice([0.01, 0.05, 0.1])
                        nmeas = rng.randint(2, max(2, npred // 2))
                    ptimes = [i * dtp for i in range(npred)]
                    span = ptimes[-1]
                    m0 = 0.25 * span + (0.0 if first else rng.uniform(0, 0.1 * span)); dtm = (0.4 * span) / max(nmeas - 1, 1)
                    mtimes = [m0 + i * dtm for i in range(nmeas)]
                    pdata = [[rng.uniform(-3, 3) for _ in range(d)] for _ in range(npred)]
                    mdata = [[rng.uniform(-3, 3) for _ in range(d)] for _ in range(nmeas)]
                    left = list(range(d)); mapping = []; k = 0
                    while left:
                        w = rng.randint(1, min(2, len(left))); mapping.append(["s%d" % k, left[:w]]); left = left[w:]; k += 1
                    pats = ["s0", "s*", "*", "s%d" % (len(mapping) - 1)] + ([] if first else ["zz*"])
                    c = {"op": "transform", "ptimes": ptimes, "pdata": pdata, "mtimes": mtimes, "mdata": mdata, "mapping": mapping,
                         "normalize": (rep + int(use_gain)) % 2 == 1, "pad": rng.choice([0, 2, 3]) if not first else 2, "fortran": (not first) and rng.random() < 0.2,
                         "gains": [], "biases": [], "delays": []}
                    if use_gain:
                        c["gains"] = [[rng.choice(pats), rng.uniform(0.5, 2.0), tg] for _ in range(1 if first else rng.randint(1, 2))]
                    if use_bias:
                        c["biases"] = [[rng.choice(pats) if not first else "s0", rng.uniform(-1, 1) if not first else 0.25, tb] for _ in range(1 if first else rng.randint(1, 2))]
                        if c["biases"][0][0] == "zz*":
                            c["biases"][0][0] = "s0"      # at least one bias matches a sensor
                    if use_delay:
                        for _ in range(1 if first else rng.randint(1, 2)):
                            v = rng.uniform(0, 0.05 * span)
                            c["delays"].append([rng.choice(pats), v, min(v, 0.0) - (0.0 if first else rng.uniform(0, 0.03 * span)), v + rng.uniform(0, 0.03 * span)])
                    cases.append(c)
                    first = False
    # the smallest bias-only / measured case first
    cases.sort(key=lambda c: 0 if (c["biases"] and not c["gains"] and not c["delays"] and len(c["ptimes"]) == 6) else 1)
    return cases


def transpose(rows, ncol):
    return [[r[j] for r in rows] for j in range(ncol)]


def coq_case(c, rec):
    ncol = len(c["data"][0])
    cols = transpose(c["data"], ncol)
    mp = dict((k, v) for k, v in c["mapping"])
    op = c["op"]
    idx = mp.get(c.get("sensor"), [])
    vals, aux, overrides, flag = [], [], [], False
    if op in ("bias", "gain"):
        vals = c["value"] if len(c["value"]) == len(idx) else c["value"] * len(idx)
    elif op == "delay":
        vals = c["value"]
    elif op == "window":
        vals = [c["min_t"], c["max_t"]]
    elif op == "delayed_window":
        vals = [c["min_delay"], c["max_delay"]]; aux = c["dtimes"]
    elif op in ("resample", "interpolate"):
        aux = c["new_times"]
    elif op == "identity":
        aux = c["times"]
    elif op == "resample_delay":
        aux = c["new_times"]; vals = [c["default_delay"]]; flag = c["predicted"]
        overrides = [(mp[name], d) for name, d in (c["sensor_delays"] or [])]
    if "error" in rec:
        etimes, ecols, edelays = [], [[] for _ in range(ncol)], []
    else:
        if op == "interpolate":
            erows, etimes = rec["array"], aux
        else:
            erows, etimes = rec["data"], rec["times"]
        ecols = transpose(erows, ncol) if erows else [[] for _ in range(ncol)]
        edelays = rec.get("delays", [])
    nl = lambda l: "[" + "; ".join("%d%%nat" % i for i in l) + "]"
    fl = lambda l: F.flist(l) if l else "(@nil float)"
    ll = lambda m: ("[" + "; ".join(fl(r) for r in m) + "]") if m else "(@nil (list float))"
    ov = ("[" + "; ".join("(%s, (%s)%%float)" % (nl(i), F.fhex(d)) for i, d in overrides) + "]") if overrides else "(@nil (list nat * float))"
    return "((%d%%Z, %s, %s), (%s, %s, %s, %s, %s), (%s, %s, %s))" % (OPS[op], fl(c["times"]), ll(cols), nl(idx) if idx else "(@nil nat)", fl(vals), fl(aux), ov,
                                                                     "true" if flag else "false", fl(etimes), ll(ecols), fl(edelays))


PRE = r"""
Definition feq_list := fclose_list 0%float.
Fixpoint feq_mat (a b : list (list float)) : bool :=
  match a, b with [], [] => true | x :: a', y :: b' => andb (feq_list x y) (feq_mat a' b') | _, _ => false end.
Definition run_case (c : (Z * list float * list (list float)) * (list nat * list float * list float * list (list nat * float) * bool) *
                         (list float * list (list float) * list float)) : bool :=
  match c with
  | ((op, times, cols), (idx, vals, aux, overrides, flag), (etimes, ecols, edelays)) =>
      let v0 := nth 0 vals nan in let v1 := nth 1 vals nan in
      if (op =? 0)%Z then feq_mat (apply_bias cols idx vals) ecols
      else if (op =? 1)%Z then feq_mat (apply_gain cols idx vals) ecols
      else if (op =? 2)%Z then feq_mat (apply_delay times cols idx v0) ecols
      else if (op =? 3)%Z then let r := apply_time_window times cols v0 v1 in andb (feq_list (fst r) etimes) (feq_mat (snd r) ecols)
      else if (op =? 4)%Z then let r := apply_delayed_ts_window times cols aux v0 v1 in andb (feq_list (fst r) etimes) (feq_mat (snd r) ecols)
      else if (op =? 5)%Z then andb (feq_list aux etimes) (feq_mat (resample times cols aux) ecols)
      else let delays := build_delays (length cols) v0 overrides flag in
           andb (feq_list delays edelays)
                (andb (feq_mat (apply_resample_and_delay times cols aux delays) ecols)
                      (feq_mat (apply_resample_and_delay_columnwise times cols aux delays) ecols))
  end.
"""


def run(ctx):
    ctx.coq_props(allowed_axioms=F.STD_AXIOMS, extra_targets=["Lib/NumF.vo", "Model/TimeSeries.vo"])
    cases = gen_cases(ctx)
    tcases = gen_transform_cases(ctx)
    if ctx.replay and isinstance(ctx.replay.get("case"), dict) and ctx.replay["case"].get("case"):
        rc = ctx.replay["case"]["case"]
        cases, tcases = ([cases[0]], [rc]) if rc.get("op") == "transform" else ([rc] + cases[:3], tcases[:1])
    ntr = len(tcases)
    cases = cases + tcases
    r = subprocess.run([PY, os.path.join(DRV, "c48_ts.py"), ctx.repo], input=json.dumps({"cases": cases}), capture_output=True, text=True, timeout=900)
    if r.returncode != 0:
        ctx.broken.append(("correspondence", "python driver c48_ts.py failed", (r.stderr or r.stdout)[-1500:]))
        return
    out = json.loads(r.stdout)
    if not all(os.path.realpath(f).startswith(os.path.realpath(ctx.repo)) for f in out["files"]):
        ctx.broken.append(("correspondence", "sysid modules were not loaded from the tree under test", str(out["files"])))
        return
    res = out["results"]
    emitted = {}
    stats = {"calls": 0, "calls_with_modified_input": 0, "alias_data": {}, "errors": {}, "max_range_excess_ulp": 0.0}

    def viol(site, cls, case, expected, observed, theorem):
        key = (site, cls)
        emitted[key] = emitted.get(key, 0) + 1
        if emitted[key] <= 2:
            ctx.violation("impl_violation", {"case": case, "what": cls}, expected=expected, observed=observed, theorem=theorem,
                          signature={"site": site, "class": cls})

    # ---- SignalTransform.apply: purity of both input series, idempotence of repeated calls, composition of the modifiers
    tstats = {"calls": 0, "modified": 0, "not_idempotent": 0, "errors": 0, "by_registration": {}}
    for i in sorted(range(len(cases) - ntr, len(cases)), key=lambda i: (len(cases[i]["ptimes"]) * len(cases[i]["pdata"][0]), i)):
        c, rec = cases[i], res[i]
        site = "SignalTransform.apply"
        tstats["calls"] += 1
        key = "+".join(n for n, l in (("gain", c["gains"]), ("bias", c["biases"]), ("delay", c["delays"])) if l) or "none"
        tstats["by_registration"][key] = tstats["by_registration"].get(key, 0) + 1
        mod = sorted(set(rec.get("modified", [])) | set(rec.get("modified_after_repeats", [])))
        if mod:
            tstats["modified"] += 1
            viol(site, "input_modified_in_place", c, "both input series, the arrays they view, their mappings and the parameters unchanged after apply()",
                 {"modified_after_first_call": rec.get("modified"), "modified_after_three_calls": rec.get("modified_after_repeats"),
                  "measured_result_aliases_caller_array": rec.get("alias_measured")}, "purity (tied by fingerprinting, not a theorem)")
        if "error" in rec:
            tstats["errors"] += 1
            if not rec.get("reference_error"):
                viol(site, "unexpected_exception", c, "a residual", rec["error"], "correspondence")
            continue
        if not rec.get("idempotent"):
            tstats["not_idempotent"] += 1
            viol(site, "repeated_apply_differs", c, {"first_call_residual": rec.get("residual")}, {"third_call_residual": rec.get("residual_third_call")},
                 "purity (tied by fingerprinting, not a theorem)")
        if rec.get("outputs_are_inputs"):
            viol(site, "returns_the_input_series", c, "new series", "an input object was returned", "purity (tied by fingerprinting, not a theorem)")
        if rec.get("reference_error") is None and rec.get("equals_composition") is False:
            viol(site, "differs_from_composition_of_modifiers", c, {"residual_of_composed_standalone_modifiers": rec.get("reference_residual")},
                 {"residual": rec.get("residual")}, "correspondence")
    ctx.cov["support"]["signal_transform_apply"] = tstats
    cases_all, res_all = cases, res
    cases, res = cases[:len(cases) - ntr], res[:len(res) - ntr]

    order = sorted(range(len(cases)), key=lambda i: (len(cases[i]["times"]) * len(cases[i]["data"][0]), i))
    for i in order:
        c, rec = cases[i], res[i]
        op = c["op"]; site = SITE[op]
        stats["calls"] += 1
        ncol = len(c["data"][0]); times = c["times"]
        # ---- purity
        if rec["modified"]:
            stats["calls_with_modified_input"] += 1
            viol(site, "input_modified_in_place", c, "input buffers unchanged (bytes, shape, dtype, identity)", {"modified": rec["modified"], "result_aliases_input_data": rec.get("alias_data")},
                 "purity (tied by fingerprinting, not a theorem)")
        if rec.get("alias_data"):
            stats["alias_data"][site] = stats["alias_data"].get(site, 0) + 1
        if "error" in rec:
            stats["errors"][rec["error"][:40]] = stats["errors"].get(rec["error"][:40], 0) + 1
            empty_expected = False
            if op in ("window", "delayed_window"):
                if op == "window":
                    a, b = c["min_t"], c["max_t"]
                else:
                    a, b = c["dtimes"][0] - c["min_delay"], c["dtimes"][-1] - c["max_delay"]
                empty_expected = not any(a <= t <= b for t in times)
            if not (empty_expected and rec["error"].startswith("ValueError: Empty arrays")):
                viol(site, "unexpected_exception", c, "a TimeSeries", rec["error"], "correspondence")
            continue
        if op == "zoh":
            continue
        rows = rec["array"] if op == "interpolate" else rec["data"]
        # ---- independent oracles
        if op in ("bias", "gain"):
            mp = dict((k, v) for k, v in c["mapping"]); idx = mp[c["sensor"]]
            val = c["value"] if len(c["value"]) == len(idx) else c["value"] * len(idx)
            exp = [list(r) for r in c["data"]]
            for rr in exp:
                for p, j in enumerate(idx):
                    rr[j] = rr[j] + val[p] if op == "bias" else rr[j] * val[p]
            if rows != exp or rec["times"] != times:
                viol(site, "wrong_columns_or_values", c, exp, rows, "correspondence")
        if op == "identity" and (rows != c["data"] or rec["times"] != times):
            viol(site, "resample_at_original_timestamps_is_not_identity", c, c["data"], rows, "C48_resample_identity")
        if op == "resample_delay" and not rec.get("grouped_equals_columnwise_exactly"):
            viol(site, "grouped_differs_from_columnwise", c, rec.get("columnwise"), rows, "C48_grouped_equals_columnwise")
        if op in ("window", "delayed_window"):
            if op == "window":
                a, b = c["min_t"], c["max_t"]
            else:
                a, b = c["dtimes"][0] - c["min_delay"], c["dtimes"][-1] - c["max_delay"]
            keep = [k for k, t in enumerate(times) if a <= t <= b]
            if rec["times"] != [times[k] for k in keep] or rows != [c["data"][k] for k in keep]:
                viol(site, "window_is_not_the_rows_inside_the_interval", c, [times[k] for k in keep], rec["times"], "correspondence")
        if op in ("resample", "interpolate", "identity"):
            nt = times if op == "identity" else c["new_times"]
            for t, row in zip(nt, rows):
                if t < times[0] or t > times[-1]:
                    ref = c["data"][0] if t < times[0] else c["data"][-1]
                    if row != ref:
                        viol(site, "outside_range_is_not_the_end_sample", c, ref, row, "C48_interp_outside_range")
                    continue
                k = next(k for k in range(1, len(times)) if t <= times[k])
                for j in range(ncol):
                    lo, hi = sorted((c["data"][k - 1][j], c["data"][k][j]))
                    ex = max(lo - row[j], row[j] - hi, 0.0)
                    if ex > 0:
                        ulps = ex / math.ulp(max(abs(lo), abs(hi), 5e-324))
                        stats["max_range_excess_ulp"] = max(stats["max_range_excess_ulp"], ulps)
                        if ulps > 4:
                            viol(site, "interpolation_outside_neighbour_range", c, [lo, hi], {"t": t, "value": row[j], "column": j}, "C48_interp_within_neighbours")

    # ---- correspondence with the model at binary64 (exact)
    ccases, cidx = [], []
    for i, (c, rec) in enumerate(zip(cases, res)):
        if c["op"] == "zoh":
            continue
        if "error" in rec and not rec["error"].startswith("ValueError: Empty arrays"):
            continue
        ccases.append(coq_case(c, rec)); cidx.append(i)
    fails = ctx.coq_eval("c48", "From Coq Require Import ZArith PrimFloat Bool.\nFrom MJV Require Import Lib.Num Lib.NumF Model.TimeSeries.",
                         ccases, "run_case", pre=PRE, shard=150)
    for k in fails[:5]:
        i = cidx[k]
        ctx.violation("correspondence", {"case": cases[i]}, expected="model output (Model/TimeSeries.v at binary64, exact)",
                      observed={k2: res[i].get(k2) for k2 in ("times", "data", "array", "delays", "error")}, found_input=False, theorem="correspondence c48",
                      note="implementation and Coq model disagree on this input, but the implementation output satisfies the oracles")
    ctx.cov["evaluations"] = len(cases_all)
    ctx.cov["distinct_nontrivial"] = sum(1 for c in cases if len(c["times"]) >= 3 and len(c["data"][0]) >= 2)
    ctx.cov["rule"] = ("random strictly increasing time stamps (uniform grids and irregular), 1..9 samples x 1..6 columns, C- and Fortran-ordered data, signal mappings that partition the columns "
                       "(contiguous and shuffled index arrays); bias/gain with scalar and per-column values; delays positive/negative/zero/one sample period; windows with end points on and "
                       "between samples (including empty results); new time stamps on knots, between knots and outside the range; per-sensor delay dicts with repeated values; non-trivial = "
                       "at least 3 samples and 2 columns")
    ctx.cov["samples"] = [cases[0], cases[7], cases[-1]]
    ctx.cov["correspondence_disagreements"] = len(fails)
    ctx.cov["support"].update({"modifier_calls_fingerprinted": stats["calls"], "calls_with_modified_input": stats["calls_with_modified_input"],
                               "results_aliasing_input_data_by_site": stats["alias_data"], "exceptions": stats["errors"],
                               "max_excess_over_neighbour_range_in_ulp": stats["max_range_excess_ulp"], "cases_compared_with_model": len(ccases),
                               "implementation_files": out["files"], "oracle_violations": {"%s/%s" % k: v for k, v in emitted.items()}})
    ctx.cov["explanation"] = ("6 theorems (5 over R, grouping law axiom-free); purity tied by fingerprints on %d calls; model tied by exact agreement on %d cases" % (stats["calls"], len(ccases)))
