"""C24 — rotation and pose utilities implement the group operations."""
import itertools, math, os
import framework as F

META = {
    "id": "C24", "category": "proof", "design_ref": "DESIGN.md section 4, C24",
    "technique": "Coq proofs over R of a Gallina model (Model/Spatial.v, generic over Lib/Num) + float correspondence of the same model with the exported mju_*/inlined mji_* C functions and with MJX math.py + numerical law oracle on implementation outputs",
    "text": "filled in below",
    "note": "filled in below",
    "assumptions": [
        "theorems are about exact real arithmetic; IEEE rounding is outside every theorem (the model is run at binary64 only for the tie, tolerance 2^-30 scaled)",
        "hand-written model Model/Spatial.v; tie is differential testing on the cases of this run (random + branch-boundary inputs)",
        "sin/cos/atan2 of the float runs come from the unverified Lib/FloatFn.v (executable side only)",
    ],
}
META["text"] = (
    "Proved in Coq over the reals, for all inputs, about the model Model/Spatial.v of engine_util_spatial.c / engine_inline.h: "
    "mulQuat is associative with neutral element (1,0,0,0) and negQuat is a two-sided inverse up to |q|^2 (inverse on unit quaternions); "
    "quat2Mat(mulQuat a b) = quat2Mat a . quat2Mat b for ALL quaternions (identity-quaternion arm included); for unit q: rotVecQuat (both the mju_ and the mji_ variant, zero-vector and "
    "identity arms included) equals quat2Mat q . v and preserves the norm, quat2Mat q is orthonormal with determinant 1, mat2Quat(quat2Mat q) = q or -q (all four arms, "
    "final normalize4 included); mulPose/negPose on poses with unit quaternions are associative, have the identity pose as neutral element, negPose is a two-sided inverse and trnVecPose is a "
    "group action; axisAngle2Quat of a unit axis is a unit quaternion and quat2Mat of it is the Rodrigues matrix; euler2Quat for EVERY sequence string over xyzXYZ of ANY length (induction over the string) "
    "is the ordered product: extrinsic factors in reverse order times intrinsic factors in order, each factor being axisAngle2Quat of the coordinate axis, and is None exactly when a character is invalid; "
    "mulQuatAxis(q,a) = q*(0,a) and derivQuat(q,w) = (0,w)*q/2; MJX rotate equals rotVecQuat on unit quaternions, MJX quat_integrate equals quatIntegrate for unit q and velocity zero or above its 1e-8 zero test, "
    "MJX quat_sub equals subQuat when the vector part of the relative quaternion is zero or above 1e-8. Partial: C24_sub_integrate_partial (subQuat(quatIntegrate q v h, q) = v*h) is proved for unit q and |h| |v| <= pi under the explicit side conditions that "
    "no mjMINVAL guard fires (h|v| = 0, or |v| >= 1e-15 and |sin(h|v|/2)| >= 1e-15); the atan2/sin/cos identity it needs is proved, not assumed. "
    "Not proved (oracle only, on implementation output): mjd_subQuat and mjd_quatIntegrate against centred finite differences of mju_subQuat/mju_quatIntegrate (the analytic-derivative clause has no theorem); quatZ2Vec maps the z axis onto v/|v|; "
    "subQuat is insensitive to the sign of the quaternion (angle wrapped to [-pi,pi]); quatIntegrate normalises non-unit input; mju_ functions tolerate result/argument aliasing. "
    "The model is tied on every run to the C functions (mju_ exported and mji_ inlined variants, aliasing calls included) and to MJX math.py (float64) by evaluating the model at binary64 inside Coq on the same inputs "
    "(random, identity/zero/pi/branch-boundary/near-mjMINVAL inputs, all 216 Euler sequences plus invalid ones); MJX functions are compared both with their own model (mjx_*) on all inputs and with the C model on the regular domain, "
    "so the same Coq model is the common reference of both implementations.")
META["note"] = ("Trusted: Coq kernel + the standard-library real-number axioms listed in trusted_base; hand-written model Model/Spatial.v; Lib/FloatFn.v elementary functions (executable side); "
                "correspondence harness (gcc, drivers c24_spatial.c and c24_mjx.py, jax from /venv, the constant mujoco.mjMINVAL of the installed wheel used by math.py's safe_div only).")

TOL = "0x1p-30"
LAW_TOL = 1e-10


# ------------------------------------------------------------------------------------- helpers
def hx(x):
    x = float(x)
    if x != x:
        return "nan"
    if x in (math.inf, -math.inf):
        return "inf" if x > 0 else "-inf"
    return x.hex()


def unhx(t):
    t = t.strip()
    if t in ("nan", "-nan", "+nan"):
        return math.nan
    if t in ("inf", "+inf"):
        return math.inf
    if t == "-inf":
        return -math.inf
    return float.fromhex(t)


def norm(x):
    return math.sqrt(sum(c * c for c in x))


def unitize(x):
    n = norm(x)
    return [c / n for c in x]


def matmul(a, b):
    return [sum(a[3 * i + k] * b[3 * k + j] for k in range(3)) for i in range(3) for j in range(3)]


def matvec(a, v):
    return [sum(a[3 * i + k] * v[k] for k in range(3)) for i in range(3)]


def transpose(a):
    return [a[3 * j + i] for i in range(3) for j in range(3)]


def det(m):
    return m[0] * (m[4] * m[8] - m[5] * m[7]) - m[1] * (m[3] * m[8] - m[5] * m[6]) + m[2] * (m[3] * m[7] - m[4] * m[6])


def close(x, y, tol=LAW_TOL):
    if x is None or y is None or len(x) != len(y):
        return False
    sc = 1.0 + max([abs(c) for c in x] + [abs(c) for c in y] + [0.0])
    return all(abs(a - b) <= tol * sc for a, b in zip(x, y))


EYE = [1.0, 0, 0, 0, 1.0, 0, 0, 0, 1.0]
AX = {"x": [1.0, 0, 0], "y": [0, 1.0, 0], "z": [0, 0, 1.0]}


def rodrigues(ax, th):
    k = [0, -ax[2], ax[1], ax[2], 0, -ax[0], -ax[1], ax[0], 0]
    kk = matmul(k, k)
    return [EYE[i] + math.sin(th) * k[i] + (1 - math.cos(th)) * kk[i] for i in range(9)]


# ------------------------------------------------------------------------------------- op tables
# C side: op name -> Coq expression of the model output as list float (a = argument list, s = string)
C_OPS = {
    "rotVecQuat": "v2l (rotVecQuat (V a 0) (Q a 3))",
    "rotVecQuat_i": "v2l (rotVecQuat_i (V a 0) (Q a 3))",
    "rotVecQuat_alias": "v2l (rotVecQuat (V a 0) (Q a 3))",
    "negQuat": "q2l (negQuat (Q a 0))",
    "negQuat_i": "q2l (negQuat (Q a 0))",
    "mulQuat": "q2l (mulQuat (Q a 0) (Q a 4))",
    "mulQuat_i": "q2l (mulQuat (Q a 0) (Q a 4))",
    "mulQuat_alias_a": "q2l (mulQuat (Q a 0) (Q a 4))",
    "mulQuat_alias_b": "q2l (mulQuat (Q a 0) (Q a 4))",
    "mulQuatAxis": "q2l (mulQuatAxis (Q a 0) (V a 4))",
    "mulQuatAxis_i": "q2l (mulQuatAxis (Q a 0) (V a 4))",
    "mulQuatAxis_alias": "q2l (mulQuatAxis (Q a 0) (V a 4))",
    "axisAngle2Quat": "q2l (axisAngle2Quat (V a 0) (g a 3))",
    "axisAngle2Quat_i": "q2l (axisAngle2Quat (V a 0) (g a 3))",
    "quat2Vel": "v2l (quat2Vel (Q a 0) (g a 4))",
    "quat2Vel_i": "v2l (quat2Vel (Q a 0) (g a 4))",
    "subQuat": "v2l (subQuat (Q a 0) (Q a 4))",
    "subQuat_i": "v2l (subQuat (Q a 0) (Q a 4))",
    "quat2Mat": "m2l (quat2Mat (Q a 0))",
    "mat2Quat": "q2l (mat2Quat (M a 0))",
    "mat2Quat_i": "q2l (mat2Quat (M a 0))",
    "derivQuat": "q2l (derivQuat (Q a 0) (V a 4))",
    "quatIntegrate": "q2l (quatIntegrate (Q a 0) (V a 4) (g a 7))",
    "quatIntegrate_i": "q2l (quatIntegrate (Q a 0) (V a 4) (g a 7))",
    "quatZ2Vec": "q2l (quatZ2Vec (V a 0))",
    "normalize3": "(let '(v, n) := normalize3 (V a 0) in v2l v ++ [n])",
    "normalize3_i": "(let '(v, n) := normalize3 (V a 0) in v2l v ++ [n])",
    "normalize4": "(let '(v, n) := normalize4 (Q a 0) in q2l v ++ [n])",
    "normalize4_i": "(let '(v, n) := normalize4 (Q a 0) in q2l v ++ [n])",
    "mulPose": "p2l (mulPose (P a 0) (P a 7))",
    "negPose": "p2l (negPose (P a 0))",
    "trnVecPose": "v2l (trnVecPose (P a 0) (V a 7))",
    "euler2Quat": "oq (euler2Quat (V a 0) s)",
}
# MJX side: op -> (model of math.py itself, C model on the regular domain or None)
X_OPS = {
    "quat_mul": ("q2l (mulQuat (Q a 0) (Q a 4))", "q2l (mulQuat (Q a 0) (Q a 4))"),
    "rotate": ("v2l (mjx_rotate (V a 0) (Q a 3))", "v2l (rotVecQuat (V a 0) (Q a 3))"),
    "quat_inv": ("q2l (mjx_quat_inv (Q a 0))", "q2l (negQuat (Q a 0))"),
    "quat_mul_axis": ("q2l (mulQuatAxis (Q a 0) (V a 4))", "q2l (mulQuatAxis (Q a 0) (V a 4))"),
    "quat_to_mat": ("m2l (quat2Mat (Q a 0))", "m2l (quat2Mat (Q a 0))"),
    "axis_angle_to_quat": ("q2l (mjx_axis_angle_to_quat (V a 0) (g a 3))", "q2l (axisAngle2Quat (V a 0) (g a 3))"),
    "quat_integrate": ("q2l (mjx_quat_integrate (Q a 0) (V a 4) (g a 7))", "q2l (quatIntegrate (Q a 0) (V a 4) (g a 7))"),
    "quat_sub": ("v2l (mjx_quat_sub (Q a 0) (Q a 4))", "v2l (subQuat (Q a 0) (Q a 4))"),
    "quat_to_axis_angle": ("(let '(v, n) := mjx_quat_to_axis_angle (Q a 0) in v2l v ++ [n])", None),
    "normalize_with_norm": ("(let '(v, n) := mjx_normalize3 (V a 0) in v2l v ++ [n])", None),
}
C2X = {"mulQuat": "quat_mul", "rotVecQuat": "rotate", "negQuat": "quat_inv", "mulQuatAxis": "quat_mul_axis",
       "quat2Mat": "quat_to_mat", "axisAngle2Quat": "axis_angle_to_quat", "quatIntegrate": "quat_integrate",
       "subQuat": "quat_sub"}
C2X_ALL = dict(C2X, **{k: k for k in X_OPS})
VEL_OPS = {"subQuat", "subQuat_i", "quat_sub"}     # rotation-vector outputs: a flip at |angle| = pi is the same rotation

OPCODE = {}
for _n in C_OPS:
    OPCODE[("c", _n)] = len(OPCODE)
for _n in X_OPS:
    OPCODE[("x", _n)] = len(OPCODE)
for _n in X_OPS:
    if X_OPS[_n][1]:
        OPCODE[("xc", _n)] = len(OPCODE)


def coq_pre():
    lines = ["Definition g (l : list float) (i : nat) : float := nth i l 0%float.",
             "Definition V l i : vec3 float := (g l i, g l (i+1), g l (i+2)).",
             "Definition Q l i : quat float := (g l i, g l (i+1), g l (i+2), g l (i+3)).",
             "Definition M l i : mat3 float := (g l i, g l (i+1), g l (i+2), g l (i+3), g l (i+4), g l (i+5), g l (i+6), g l (i+7), g l (i+8)).",
             "Definition P l i : pose float := (V l i, Q l (i+3)).",
             "Definition oq (o : option (quat float)) : list float := match o with Some q => q2l q | None => [] end.",
             "Definition nrm (l : list float) : float := PrimFloat.sqrt (fold_left (fun s x => PrimFloat.add s (PrimFloat.mul x x)) l 0%float).",
             "Definition velclose tol (a b : list float) : bool := fclose_list tol a b || "
             "(fclose tol (nrm a) fpi && fclose tol (nrm b) fpi && fclose_list tol a (map PrimFloat.opp b)).",
             "Definition model (op : Z) (s : string) (a : list float) : list float :="]
    for (kind, n), code in OPCODE.items():
        e = C_OPS[n] if kind == "c" else (X_OPS[n][0] if kind == "x" else X_OPS[n][1])
        lines.append("  if (op =? %d)%%Z then %s else" % (code, e))
    lines.append("  [].")
    vel = " || ".join("(op =? %d)%%Z" % OPCODE[k] for k in OPCODE if k[1] in VEL_OPS)
    lines.append("Definition chk (c : Z * string * list float * list float) : bool := match c with (op, s, a, out) => "
                 "if %s then velclose %s (model op s a) out else fclose_list %s (model op s a) out end." % (vel, TOL, TOL))
    return "\n".join(lines) + "\n"


class Impl:
    """batch caller of an implementation (C driver or MJX script); records every call."""

    def __init__(self, ctx, kind, exe, args=(), env=None):
        self.ctx, self.kind, self.exe, self.args, self.env = ctx, kind, exe, list(args), env
        self.log = {}          # (op, args tuple, seq) -> output list | None
        self.ok = True

    def call(self, calls):
        """calls: list of (op, args[, seq]); returns list of outputs (None for ERR)."""
        if not calls:
            return []
        inp = "".join("%s %s%s\n" % (c[0], " ".join(hx(x) for x in c[1]), (" " + (c[2] or "-")) if len(c) > 2 else "") for c in calls)
        rc, out, err = self.ctx.run(self.exe, inp, args=self.args, env=self.env)
        lines = out.strip("\n").split("\n") if out.strip() else []
        if rc != 0 or len(lines) != len(calls):
            if self.ok:
                self.ctx.broken.append(("correspondence", "driver for %s failed" % self.kind, "rc=%s lines=%d/%d %s" % (rc, len(lines), len(calls), err[-800:])))
            self.ok = False
            return [None] * len(calls)
        res = []
        for c, l in zip(calls, lines):
            o = None if l.strip() == "ERR" else [unhx(t) for t in l.split()]
            res.append(o)
            self.log[(c[0], tuple(hx(x) for x in c[1]), c[2] if len(c) > 2 else "")] = o
        return res


def run_laws(impl, laws, opmap=None):
    """laws: list of (meta, generator).  Generators yield lists of calls and receive the outputs;
    they return a list of (law name, expected, observed) failures."""
    results = []
    pending = []
    for meta, gen in laws:
        try:
            pending.append((meta, gen, next(gen)))
        except StopIteration as e:
            results.append((meta, e.value or []))
    while pending:
        batch = []
        for _, _, req in pending:
            batch += [((opmap[c[0]],) + tuple(c[1:])) if opmap else c for c in req]
        res = impl.call(batch)
        nxt, k = [], 0
        for meta, gen, req in pending:
            r = res[k:k + len(req)]
            k += len(req)
            if any(x is None for x in r) and not meta.get("err_ok"):
                results.append((meta, [("no mju_error / driver failure", "values", "ERR")]))
                continue
            try:
                nxt.append((meta, gen, gen.send(r)))
            except StopIteration as e:
                results.append((meta, e.value or []))
        pending = nxt
    return results


# ------------------------------------------------------------------------------------- laws (oracle on impl outputs)
def law_group(a, b, c):
    (ab, bc, ia, ai, na) = yield [("mulQuat", a + b), ("mulQuat", b + c), ("mulQuat", [1.0, 0, 0, 0] + a), ("mulQuat", a + [1.0, 0, 0, 0]),
                                  ("negQuat", a)]
    (l, r, inv1, inv2, ma, mb, mab) = yield [("mulQuat", ab + c), ("mulQuat", a + bc), ("mulQuat", a + na), ("mulQuat", na + a),
                                             ("quat2Mat", a), ("quat2Mat", b), ("quat2Mat", ab)]
    f = []
    if not close(l, r):
        f.append(("mulQuat associative", l, r))
    if not (close(ia, a) and close(ai, a)):
        f.append(("identity quaternion neutral", a, [ia, ai]))
    n2 = sum(x * x for x in a)
    if not (close(inv1, [n2, 0, 0, 0]) and close(inv2, [n2, 0, 0, 0])):
        f.append(("negQuat inverse: q*neg(q) = (|q|^2,0,0,0)", [n2, 0, 0, 0], [inv1, inv2]))
    if not close(mab, matmul(ma, mb), 1e-10 * (1 + sum(x * x for x in a)) * (1 + sum(x * x for x in b))):
        f.append(("quat2Mat(a*b) = quat2Mat(a) quat2Mat(b)", matmul(ma, mb), mab))
    return f


def law_rot(u, v, rot="rotVecQuat"):
    (m, r) = yield [("quat2Mat", u), (rot, v + u)]
    f = []
    if not close(r, matvec(m, v)):
        f.append(("%s(v,q) = quat2Mat(q) v for unit q" % rot, matvec(m, v), r))
    if not close([norm(r)], [norm(v)]):
        f.append(("%s preserves the norm for unit q" % rot, norm(v), norm(r)))
    if not close(matmul(m, transpose(m)), EYE) or not close([det(m)], [1.0]):
        f.append(("quat2Mat(q) orthonormal with det 1 for unit q", EYE, m))
    return f


def law_mat2quat(u, op="mat2Quat"):
    (m,) = yield [("quat2Mat", u)]
    (q,) = yield [(op, m)]
    if not (close(q, u) or close(q, [-x for x in u])):
        return [("%s(quat2Mat(q)) = +-q for unit q" % op, u, q)]
    return []


def law_pose(p1, p2, p3, v):
    (p12, p23, n1, w2, id_l, id_r) = yield [("mulPose", p1 + p2), ("mulPose", p2 + p3), ("negPose", p1), ("trnVecPose", p2 + v),
                                            ("mulPose", [0.0, 0, 0, 1.0, 0, 0, 0] + p1), ("mulPose", p1 + [0.0, 0, 0, 1.0, 0, 0, 0])]
    (l, r, e1, e2, a1, a2, w1) = yield [("mulPose", p12 + p3), ("mulPose", p1 + p23), ("mulPose", p1 + n1), ("mulPose", n1 + p1),
                                        ("trnVecPose", p12 + v), ("trnVecPose", p1 + w2), ("trnVecPose", p1 + v)]
    (back,) = yield [("trnVecPose", n1 + w1)]
    f = []
    ident = [0.0, 0, 0, 1.0, 0, 0, 0]

    def pclose(x, y):   # quaternion part up to sign is NOT allowed here: the product is exact
        return close(x, y)
    if not pclose(l, r):
        f.append(("mulPose associative", l, r))
    if not (pclose(id_l, p1) and pclose(id_r, p1)):
        f.append(("identity pose neutral", p1, [id_l, id_r]))
    if not (pclose(e1, ident) and pclose(e2, ident)):
        f.append(("mulPose(p, negPose(p)) = identity", ident, [e1, e2]))
    if not close(a1, a2):
        f.append(("trnVecPose(p1*p2, v) = trnVecPose(p1, trnVecPose(p2, v))", a2, a1))
    if not close(back, v):
        f.append(("trnVecPose(negPose(p), trnVecPose(p, v)) = v", v, back))
    return f


def law_axis(ax, th):
    (q,) = yield [("axisAngle2Quat", ax + [th])]
    (m,) = yield [("quat2Mat", q)]
    f = []
    if not close([norm(q)], [1.0]):
        f.append(("axisAngle2Quat unit for unit axis", 1.0, norm(q)))
    if not close(m, rodrigues(ax, th)):
        f.append(("quat2Mat(axisAngle2Quat(axis, angle)) = Rodrigues matrix", rodrigues(ax, th), m))
    return f


def law_euler(e, seq):
    out = yield [("euler2Quat", e, seq)] + [("axisAngle2Quat", AX[c.lower()] + [e[i]]) for i, c in enumerate(seq)]
    q, rots = out[0], out[1:]
    # ordered product with the implementation's own mulQuat
    tmp = [1.0, 0, 0, 0]
    for i, c in enumerate(seq):
        (tmp,) = yield [("mulQuat", (tmp + rots[i]) if c.islower() else (rots[i] + tmp))]
    (m,) = yield [("quat2Mat", q)]
    f = []
    if not close(q, tmp):
        f.append(("euler2Quat = ordered product of axis rotations", tmp, q))
    # independent: rotation matrices composed in python
    r = EYE
    for i, c in enumerate(seq):
        ri = rodrigues(AX[c.lower()], e[i])
        r = matmul(r, ri) if c.islower() else matmul(ri, r)
    if not close(m, r):
        f.append(("quat2Mat(euler2Quat) = ordered product of axis rotation matrices", r, m))
    return f


def law_sub_integrate(u, v, h, integ="quatIntegrate", sub="subQuat"):
    (q1,) = yield [(integ, u + v + [h])]
    (d, dn) = yield [(sub, q1 + u), (sub, [-x for x in q1] + u)]
    f = []
    exp = [x * h for x in v]
    if not close(d, exp):
        f.append(("%s(%s(q, v, h), q) = v*h for |v| h < pi" % (sub, integ), exp, d))
    # q and -q are the same rotation: the difference must not depend on the sign (at |angle| = pi both +-v*h are right)
    if not (close(dn, exp) or (abs(norm(exp) - math.pi) < 1e-9 and close(dn, [-x for x in exp]))):
        f.append(("%s(-%s(q, v, h), q) = v*h (sign of the quaternion is irrelevant, angle wrapped to [-pi, pi])" % (sub, integ), exp, dn))
    if not close([norm(q1)], [1.0]):
        f.append(("%s returns a unit quaternion" % integ, 1.0, norm(q1)))
    return f


def law_integrate_nonunit(a, v, h, integ="quatIntegrate"):
    """non-unit input quaternion: the result is the normalised input times the step rotation, hence unit"""
    na = unitize(a)
    (q1, q2) = yield [(integ, a + v + [h]), (integ, na + v + [h])]
    f = []
    if not close([norm(q1)], [1.0]):
        f.append(("%s normalises a non-unit quaternion" % integ, 1.0, norm(q1)))
    elif not close(q1, q2):
        f.append(("%s(q) = %s(q/|q|)" % (integ, integ), q2, q1))
    return f


def law_integrate_sub(qa, qb):
    (d,) = yield [("subQuat", qa + qb)]
    (q,) = yield [("quatIntegrate", qb + d + [1.0])]
    if not (close(q, qa) or close(q, [-x for x in qa])):
        return [("quatIntegrate(qb, subQuat(qa, qb), 1) = +-qa", qa, q)]
    return []


def law_misc(q, w, v):
    (dq, qa, z) = yield [("derivQuat", q + w), ("mulQuatAxis", q + w), ("quatZ2Vec", v)]
    (qq, wq, vz) = yield [("mulQuat", q + [0.0] + w), ("mulQuat", [0.0] + w + q), ("rotVecQuat", [0.0, 0, 1.0] + z)]
    f = []
    if not close(qa, qq):
        f.append(("mulQuatAxis(q, a) = mulQuat(q, (0,a))", qq, qa))
    if not close(dq, [0.5 * x for x in wq]):
        f.append(("derivQuat(q, w) = 0.5 (0,w)*q", [0.5 * x for x in wq], dq))
    if norm(v) >= 1e-15 and not close(vz, unitize(v), 1e-9):
        f.append(("quatZ2Vec(v) rotates the z axis onto v/|v|", unitize(v), vz))
    return f


def law_alias(a, b, v):
    outs = yield [("mulQuat", a + b), ("mulQuat_alias_a", a + b), ("mulQuat_alias_b", a + b), ("mulQuat_i", a + b),
                  ("rotVecQuat", v + a), ("rotVecQuat_alias", v + a), ("mulQuatAxis", a + v), ("mulQuatAxis_alias", a + v)]
    f = []
    if not (outs[0] == outs[1] == outs[2]):
        f.append(("mju_mulQuat tolerates res aliasing an input", outs[0], outs[1:3]))
    if outs[4] != outs[5]:
        f.append(("mju_rotVecQuat tolerates res aliasing vec", outs[4], outs[5]))
    if outs[6] != outs[7]:
        f.append(("mju_mulQuatAxis tolerates res aliasing quat", outs[6], outs[7]))
    return f


def law_mjd_sub(qa, qb, eps=1e-6):
    e3 = [[1.0, 0, 0], [0, 1.0, 0], [0, 0, 1.0]]
    req = [("mjd_subQuat", qa + qb)]
    for i in range(3):
        for s in (eps, -eps):
            req += [("quatIntegrate", qa + e3[i] + [s]), ("quatIntegrate", qb + e3[i] + [s])]
    out = yield req
    D = out[0]
    pert = out[1:]
    req = []
    for k in range(6):
        req += [("subQuat", pert[2 * k] + qb), ("subQuat", qa + pert[2 * k + 1])]
    ys = yield req
    Da = [0.0] * 9
    Db = [0.0] * 9
    for i in range(3):
        yap, ybp, yam, ybm = ys[4 * i], ys[4 * i + 1], ys[4 * i + 2], ys[4 * i + 3]
        for r in range(3):
            Da[3 * r + i] = (yap[r] - yam[r]) / (2 * eps)
            Db[3 * r + i] = (ybp[r] - ybm[r]) / (2 * eps)
    f = []
    if not close(D[:9], Da, 2e-6):
        f.append(("mjd_subQuat Da = centred finite difference of mju_subQuat", Da, D[:9]))
    if not close(D[9:], Db, 2e-6):
        f.append(("mjd_subQuat Db = centred finite difference of mju_subQuat", Db, D[9:]))
    return f


def law_mjd_integrate(q, v, h, eps=1e-6):
    e3 = [[1.0, 0, 0], [0, 1.0, 0], [0, 0, 1.0]]
    s = [x * h for x in v]
    req = [("mjd_quatIntegrate", v + [h]), ("quatIntegrate", q + v + [h])]
    for i in range(3):
        for sg in (eps, -eps):
            req += [("quatIntegrate", q + e3[i] + [sg]), ("quatIntegrate", q + [s[k] + sg * e3[i][k] for k in range(3)] + [1.0])]
    req += [("quatIntegrate", q + v + [h + eps]), ("quatIntegrate", q + v + [h - eps])]
    out = yield req
    D, y = out[0], out[1]
    rest = out[2:]
    req = []
    for k in range(6):
        req += [("quatIntegrate", rest[2 * k] + v + [h])]
    nq = yield req
    req = []
    for k in range(6):
        req += [("subQuat", nq[k] + y), ("subQuat", rest[2 * k + 1] + y)]
    req += [("subQuat", rest[12] + y), ("subQuat", rest[13] + y)]
    ys = yield req
    Dq = [0.0] * 9
    Ds = [0.0] * 9
    for i in range(3):
        qp, sp, qm, sm = ys[4 * i], ys[4 * i + 1], ys[4 * i + 2], ys[4 * i + 3]
        for r in range(3):
            Dq[3 * r + i] = (qp[r] - qm[r]) / (2 * eps)
            Ds[3 * r + i] = (sp[r] - sm[r]) / (2 * eps)
    Dh = [(ys[12][r] - ys[13][r]) / (2 * eps) for r in range(3)]
    f = []
    if not close(D[:9], Dq, 2e-6):
        f.append(("mjd_quatIntegrate Dquat = centred finite difference", Dq, D[:9]))
    if not close(D[9:18], Ds, 2e-6):
        f.append(("mjd_quatIntegrate Dvel = centred finite difference (w.r.t. scaled velocity)", Ds, D[9:18]))
    if not close(D[18:21], Dh, 2e-6):
        f.append(("mjd_quatIntegrate Dscale = centred finite difference", Dh, D[18:21]))
    return f


# ------------------------------------------------------------------------------------- input generators
S2 = math.sqrt(0.5)
S3 = 1 / math.sqrt(3)
Q_SPECIAL_UNIT = [
    [1.0, 0, 0, 0], [-1.0, 0, 0, 0], [1.0, 0, 0, -0.0], [0, 1.0, 0, 0], [0, 0, 1.0, 0], [0, 0, 0, 1.0], [0, 0, 0, -1.0],
    [0.5, 0.5, 0.5, 0.5], [-0.5, 0.5, 0.5, 0.5], [0.5, -0.5, 0.5, -0.5],
    [S2, S2, 0, 0], [S2, 0, S2, 0], [S2, 0, 0, -S2], [0, S2, S2, 0], [0, S2, 0, S2], [0, 0, S2, S2], [0, -S2, S2, 0],
    [0, S3, S3, S3], [0, S3, -S3, S3], [0.5, 0.5, 0.5, -0.5],
    [math.cos(1e-9), math.sin(1e-9), 0, 0], [math.cos(1e-5), 0, math.sin(1e-5), 0],
    [0.49999, math.sqrt(1 - 0.49999 ** 2), 0, 0], [0.50001, 0, math.sqrt(1 - 0.50001 ** 2), 0],
]
Q_SPECIAL_OTHER = [
    [0.0, 0, 0, 0], [1e-16, 0, 0, 0], [9e-16, 0, 0, 0], [1.1e-15, 0, 0, 0], [5e-16, 5e-16, 5e-16, 5e-16], [0, 1e-15, 0, 0],
    [1 + 2.3e-16, 0, 0, 0], [1 - 1.2e-16, 0, 0, 0], [1 + 1e-15, 0, 0, 0], [1 + 3e-15, 0, 0, 0], [1 - 3e-15, 0, 0, 0],
    [1.0, 1e-300, 0, 0], [1.0, 1e-9, 0, 0], [2.0, 0, 0, 0], [0, 3.0, 0, 0], [1e150, 1e150, 0, 0], [1e-200, 1e-200, 0, 0],
    [1.0, 2.0, 3.0, 4.0], [-0.3, 0.1, 10.0, -2.0],
]
V_SPECIAL = [
    [0.0, 0, 0], [0.0, 0, -0.0], [1.0, 0, 0], [0, 1.0, 0], [0, 0, 1.0], [0, 0, -1.0], [0, 0, 2.5], [0, 0, -1e-3],
    [1e-16, 0, 0], [6e-16, 6e-16, 6e-16], [5.7e-16, 5.7e-16, 5.7e-16], [1e-15, 0, 0], [0, 0, 1e-15], [1e-16, 0, 1.0], [1e-16, 1e-16, -1.0],
    [1e-8, 0, 0], [1e-200, 0, 0], [1e200, 1e200, 0], [3.0, -4.0, 12.0], [math.pi, 0, 0], [0, -math.pi, 0],
]


def rq(rng):
    s = rng.choice([1.0, 1.0, 0.3, 3.0])
    return [rng.gauss(0, 1) * s for _ in range(4)]


def ruq(rng, dom=None):
    q = [rng.gauss(0, 1) for _ in range(4)]
    if dom is not None:
        q = [x * 0.3 for x in q]
        q[dom] = rng.choice([-1, 1]) * (1 + abs(q[dom]))
    return unitize(q)


def rv(rng):
    s = rng.choice([1.0, 1.0, 0.1, 10.0])
    return [rng.gauss(0, 1) * s for _ in range(3)]


def m2q_branch(m):
    if m[0] + m[4] + m[8] > 0:
        return 0
    if m[0] > m[4] and m[0] > m[8]:
        return 1
    if m[4] > m[8]:
        return 2
    return 3


def perturb_unit(rng, q):
    """unit quaternions stored in model files are unit only to ~1e-16 .. 1e-15"""
    s = 1 + rng.choice([0, 0, 1e-16, -1e-16, 4e-16, -7e-16])
    return [x * s for x in q]


# ------------------------------------------------------------------------------------- the check
def c_cases(ctx):
    """explicit correspondence cases for the C side: (op, args[, seq])"""
    rng = ctx.rng
    big = ctx.tier != "quick"
    n = 20 if not big else 200
    cs = []
    qs_all = Q_SPECIAL_UNIT + Q_SPECIAL_OTHER
    for q in qs_all:
        cs += [("negQuat", q), ("negQuat_i", q), ("quat2Mat", q), ("normalize4", q), ("normalize4_i", q)]
        for dt in ((1.0, 0.002, -0.5) if big else (1.0, rng.choice([0.002, -0.5]))):
            cs += [("quat2Vel", q + [dt]), ("quat2Vel_i", q + [dt])]
        for v in (V_SPECIAL[:8] if big else [V_SPECIAL[0]] + rng.sample(V_SPECIAL[1:8], 2)) + [rv(rng)]:
            cs += [("rotVecQuat", v + q), ("rotVecQuat_i", v + q), ("mulQuatAxis", q + v), ("mulQuatAxis_i" if big else "derivQuat", q + v), ("derivQuat", q + v)]
        for q2 in rng.sample(qs_all, 6 if big else 2) + [rq(rng)]:
            cs += [("mulQuat", q + q2), ("mulQuat_i", q + q2), ("subQuat", q + q2), ("subQuat_i", q + q2)]
        for v in rng.sample(V_SPECIAL, 5 if big else 2) + [rv(rng)]:
            for h in ((0.0, 1.0, 0.002, -0.7) if big else (rng.choice([0.0, 1.0]), rng.choice([0.002, -0.7]))):
                cs += [("quatIntegrate", q + v + [h]), ("quatIntegrate_i" if (big or rng.random() < 0.5) else "quatIntegrate", q + v + [h])]
    for v in V_SPECIAL:
        cs += [("normalize3", v), ("normalize3_i", v), ("quatZ2Vec", v)]
        for th in ((0.0, -0.0, math.pi, -math.pi, 2 * math.pi, 1e-300, 1e-9, 0.5, 7.0) if big else (0.0, -0.0, math.pi, rng.choice([-math.pi, 2 * math.pi, 1e-300, 1e-9, 0.5, 7.0]))):
            cs += [("axisAngle2Quat", v + [th]), ("axisAngle2Quat_i", v + [th])]
    # normalisation thresholds around mjMINVAL and |norm-1| ~ mjMINVAL
    for k in range(n):
        s = rng.choice([1e-15, 1.0]) * (1 + rng.choice([0, 1, -1, 2, -2, 5, -5, 9, -9, 40]) * 1.11e-16 * rng.choice([1, 1, 10]))
        cs += [("normalize4", [x * s for x in ruq(rng)]), ("normalize3", [x * s for x in unitize(rv(rng))]), ("quatZ2Vec", [x * s for x in unitize(rv(rng))])]
    # random
    for k in range(n):
        a, b, v, u = rq(rng), rq(rng), rv(rng), ruq(rng)
        th = rng.choice([rng.uniform(-7, 7), rng.gauss(0, 1e-4), math.pi])
        cs += [("mulQuat", a + b), ("mulQuat_i", a + b), ("rotVecQuat", v + a), ("rotVecQuat_i", v + u), ("mulQuatAxis", a + v), ("negQuat", a),
               ("quat2Mat", a), ("quat2Mat", u), ("derivQuat", a + v), ("axisAngle2Quat", unitize(v) + [th]), ("axisAngle2Quat_i", v + [th]),
               ("quat2Vel", u + [rng.choice([1.0, 0.002])]), ("quat2Vel_i", a + [1.0]), ("subQuat", u + ruq(rng)), ("subQuat_i", a + b),
               ("quatIntegrate", perturb_unit(rng, u) + v + [rng.choice([0.002, 1.0, -0.3])]), ("quatIntegrate_i", a + v + [0.01]),
               ("quatZ2Vec", v), ("quatZ2Vec", [v[0] * 1e-9, v[1] * 1e-9, rng.choice([-1, 1]) * abs(v[2])]),
               ("mulPose", rv(rng) + perturb_unit(rng, u) + rv(rng) + ruq(rng)), ("mulPose", rv(rng) + a + rv(rng) + b),
               ("negPose", v + u), ("negPose", v + a), ("trnVecPose", rv(rng) + u + v), ("trnVecPose", rv(rng) + a + v)]
        # arbitrary (non-rotation) matrices, also with negative sqrt arguments
        m = [rng.gauss(0, 1) for _ in range(9)]
        cs += [("mat2Quat", m), ("mat2Quat_i", m)]
    # poses with special members
    for q in Q_SPECIAL_UNIT[:12] + Q_SPECIAL_OTHER[:6]:
        for v in (V_SPECIAL[:5] if big else [V_SPECIAL[0], rng.choice(V_SPECIAL[1:5])]):
            cs += [("mulPose", v + q + rv(rng) + ruq(rng)), ("mulPose", rv(rng) + ruq(rng) + v + q), ("negPose", v + q), ("trnVecPose", v + q + rv(rng)),
                   ("trnVecPose", rv(rng) + q + v)]
    # euler: invalid strings (mjERROR) and special angles; the 216 valid sequences come from the laws
    for seq in ["", "x", "xy", "xyzx", "xyzX", "abc", "xyw", "Xy1", "wxy", "xwy", "XYZz", "xxxxxxxx"]:
        cs.append(("euler2Quat", [0.1, -0.2, 0.3], seq))
    for seq in ["xyz", "XYZ", "zyx", "xYz", "zxz", "ZXZ"]:
        for e in ([0.0, 0, 0], [math.pi, 0, -math.pi], [2 * math.pi, math.pi / 2, -math.pi / 2], [1e-9, -1e-9, 1e-300], [100.0, -200.0, 300.0]):
            cs.append(("euler2Quat", e, seq))
    return cs


def c_laws(ctx):
    rng = ctx.rng
    big = ctx.tier != "quick"
    n = 12 if not big else 100
    laws = []

    def add(name, gen, **kw):
        laws.append((dict(law=name, **kw), gen))
    specials = Q_SPECIAL_UNIT
    for k in range(n):
        a, b, c = rq(rng), rq(rng), rq(rng)
        add("group", law_group(a, b, c), inputs=[a, b, c])
        u1, u2, u3 = ruq(rng), ruq(rng), ruq(rng)
        add("group", law_group(u1, rng.choice(specials), u3), inputs=[u1, u3])
        v = rv(rng)
        add("rot", law_rot(u1, v), inputs=[u1, v])
        add("rot", law_rot(u2, v, "rotVecQuat_i"), inputs=[u2, v])
        add("pose", law_pose(rv(rng) + u1, rv(rng) + u2, rv(rng) + u3, v), inputs=[u1, u2, u3, v])
        add("pose", law_pose(rv(rng) + rng.choice(specials), rng.choice(V_SPECIAL[:6]) + u2, rv(rng) + rng.choice(specials), rng.choice(V_SPECIAL[:6])), inputs=["special"])
        ax = unitize(rv(rng))
        th = rng.choice([rng.uniform(-7, 7), rng.gauss(0, 1e-5), math.pi, -math.pi, 0.0])
        add("axis", law_axis(ax, th), inputs=[ax, th])
        add("axis", law_axis(rng.choice([[1.0, 0, 0], [0, 1.0, 0], [0, 0, -1.0]]), th), inputs=[th])
        for dom in range(4):
            u = ruq(rng, dom)
            add("mat2quat", law_mat2quat(u, rng.choice(["mat2Quat", "mat2Quat_i"])), inputs=[u])
        add("mat2quat", law_mat2quat(ruq(rng)), inputs=[])
        # sub o integrate, |v| h < pi
        w = unitize(rv(rng))
        ang = rng.choice([rng.uniform(0, 3.14), rng.uniform(0, 1e-3), 1e-9, 3.1415, 0.0])
        h = rng.choice([1.0, 0.002, 0.5, -0.25])
        vel = [x * ang / abs(h) for x in w]
        add("sub_integrate", law_sub_integrate(u1, vel, h, rng.choice(["quatIntegrate", "quatIntegrate_i"]), rng.choice(["subQuat", "subQuat_i"])), inputs=[u1, vel, h])
        add("integrate_sub", law_integrate_sub(u1, u2), inputs=[u1, u2])
        add("integrate_nonunit", law_integrate_nonunit(a, vel, h, rng.choice(["quatIntegrate", "quatIntegrate_i"])), inputs=[a, vel, h])
        add("misc", law_misc(a, rv(rng), rng.choice([rv(rng), [0, 0, 1.0], [0, 0, -2.0], [1e-20, 0, -1.0]])), inputs=[a])
        add("alias", law_alias(a, b, v), inputs=[a, b, v])
        # derivatives (oracle only)
        ang = rng.choice([1e-9, 1e-5, 1e-2, 1.0, 2.5, rng.uniform(0, 3.0)])
        add("mjd_subQuat", law_mjd_sub_pair(rng, u1, ang), inputs=[u1, ang])
        hh = rng.choice([0.0, 1e-9, 1e-5, 1e-2, 1.0, 2.0])
        add("mjd_quatIntegrate", law_mjd_integrate(u2, [rng.gauss(0, 1) for _ in range(3)], hh), inputs=[u2, hh])
    for u in specials:
        add("mat2quat", law_mat2quat(u), inputs=[u])
        add("mat2quat", law_mat2quat(u, "mat2Quat_i"), inputs=[u])
        for v in (V_SPECIAL[:7] if big else [V_SPECIAL[0], rng.choice(V_SPECIAL[1:7])]):
            add("rot", law_rot(u, v), inputs=[u, v])
            add("rot", law_rot(u, v, "rotVecQuat_i"), inputs=[u, v])
    # every Euler sequence
    for seq in itertools.product("xyzXYZ", repeat=3):
        e = [rng.uniform(-3.2, 3.2) for _ in range(3)]
        add("euler", law_euler(e, "".join(seq)), inputs=[e, "".join(seq)])
    for seq in ("xyz", "XYZ", "zYx"):
        add("euler", law_euler([math.pi, 0.0, -math.pi / 2], seq), inputs=[seq])
    return laws


def law_mjd_sub_pair(rng, qa, ang):
    """qb = qa rotated by ang about a random axis (computed in python), then the FD law"""
    w = unitize([rng.gauss(0, 1) for _ in range(3)])
    s, c = math.sin(ang / 2), math.cos(ang / 2)
    r = [c, w[0] * s, w[1] * s, w[2] * s]
    a = qa
    qb = [a[0] * r[0] - a[1] * r[1] - a[2] * r[2] - a[3] * r[3],
          a[0] * r[1] + a[1] * r[0] + a[2] * r[3] - a[3] * r[2],
          a[0] * r[2] - a[1] * r[3] + a[2] * r[0] + a[3] * r[1],
          a[0] * r[3] + a[1] * r[2] - a[2] * r[1] + a[3] * r[0]]
    return law_mjd_sub(qa, unitize(qb))


def x_cases(ctx):
    rng = ctx.rng
    n = 15 if ctx.tier == "quick" else 200
    cs = []
    for q in Q_SPECIAL_UNIT + [[2.0, 0, 0, 0], [1.0, 2.0, 3.0, 4.0], [0.0, 0, 0, 0], [0, 5e-9, 0, 0], [1.0, 5e-9, -5e-9, 0], [1.0, 2e-8, 0, 0]]:
        cs += [("quat_inv", q), ("quat_to_mat", q), ("quat_to_axis_angle", q)]
        big = ctx.tier != "quick"
        for v in (V_SPECIAL[:7] if big else rng.sample(V_SPECIAL[:7], 2)) + [rv(rng)]:
            cs += [("rotate", v + q), ("quat_mul_axis", q + v)]
        for q2 in rng.sample(Q_SPECIAL_UNIT, 4 if big else 2) + [rq(rng)]:
            cs += [("quat_mul", q + q2), ("quat_sub", q + q2)]
        vs = [[0.0, 0, 0], [5e-9, 0, 0], [5e-9, -5e-9, 9e-9], [2e-8, 0, 0], [1e-7, 0, 0], [0, 0, 1.0], rv(rng)]
        for v in (vs if big else rng.sample(vs, 3)):
            for h in ((0.0, 1.0, 0.002) if big else (rng.choice([0.0, 1.0, 0.002]),)):
                cs.append(("quat_integrate", q + v + [h]))
    for v in [[0.0, 0, 0], [5e-9, 0, 0], [9e-9, 9e-9, 9e-9], [2e-8, 0, 0], [0, 0, 1e-6], [1.0, 0, 0], [3.0, -4.0, 12.0]]:
        cs.append(("normalize_with_norm", v))
        for th in (0.0, math.pi, -math.pi, 1e-9, 0.5, 7.0):
            cs.append(("axis_angle_to_quat", v + [th]))
    for k in range(n):
        a, b, v, u = rq(rng), rq(rng), rv(rng), ruq(rng)
        cs += [("quat_mul", a + b), ("rotate", v + a), ("rotate", v + u), ("quat_inv", a), ("quat_mul_axis", a + v), ("quat_to_mat", a),
               ("axis_angle_to_quat", unitize(v) + [rng.uniform(-7, 7)]), ("quat_integrate", u + v + [rng.choice([0.002, 1.0, -0.3])]),
               ("quat_integrate", a + v + [0.01]), ("quat_sub", u + ruq(rng)), ("quat_sub", a + b), ("quat_to_axis_angle", a), ("normalize_with_norm", v)]
    return cs


def x_regular(op, args):
    """inputs on which MJX and the C functions are meant to coincide: unit quaternions, velocity zero or not tiny"""
    def isunit(q):
        return abs(norm(q) - 1) < 1e-12
    if op in ("quat_mul", "quat_inv", "quat_mul_axis", "quat_to_mat"):
        return all(abs(x) < 1e100 for x in args)
    if op == "rotate":
        return isunit(args[3:7])
    if op == "axis_angle_to_quat":
        return True
    if op == "quat_integrate":
        nv = norm(args[4:7])
        return isunit(args[:4]) and (nv == 0 or nv > 1e-6)
    if op == "quat_sub":
        if not (isunit(args[:4]) and isunit(args[4:8])):
            return False
        # relative rotation not tiny (C switches the axis to (1,0,0) below 1e-15, MJX below 1e-8: the product axis*angle differs only by ~1e-8 then, but stay clear)
        a, b = args[:4], args[4:8]
        d = abs(sum(x * y for x, y in zip(a, b)))
        return d < 1 - 1e-12 or a == b
    return False


def x_laws(ctx):
    rng = ctx.rng
    n = 15 if ctx.tier == "quick" else 100
    laws = []
    for k in range(n):
        a, b, c = rq(rng), rq(rng), rq(rng)
        laws.append((dict(law="group"), law_group(a, b, c)))
        u, v = ruq(rng), rv(rng)
        laws.append((dict(law="rot"), law_rot(u, v)))
        laws.append((dict(law="axis"), law_axis(unitize(rv(rng)), rng.uniform(-7, 7))))
        w = unitize(rv(rng))
        ang = rng.choice([rng.uniform(1e-3, 3.14), 1e-5])
        h = rng.choice([1.0, 0.002])
        laws.append((dict(law="sub_integrate"), law_sub_integrate(u, [x * ang / h for x in w], h)))
    return laws


def explicit_gen(cases):
    yield cases
    return []


def report_laws(ctx, results, side, counts):
    for meta, fails in results:
        counts[meta["law"]] = counts.get(meta["law"], 0) + 1
        for (name, exp, obs) in fails[:1]:
            ctx.violation("impl_violation", {"side": side, "law": name, "inputs": meta.get("inputs")}, expected=exp, observed=obs,
                          theorem="C24 law: " + name, signature={"side": side, "law": name})


def run(ctx):
    rng = ctx.rng
    ctx.coq_props(allowed_axioms=F.STD_AXIOMS,
                  extra_targets=["Lib/Num.vo", "Lib/NumF.vo", "Lib/FloatFn.vo", "Model/Spatial.vo"])
    coq_cases = []   # (code, seq, args, out, descr)
    counts = {}

    # ---------------- C side
    exe = ctx.driver("c24_spatial", ["c24_spatial.c"])
    cimpl = None
    if exe is not None:
        cimpl = Impl(ctx, "C", exe)
        explicit = c_cases(ctx)
        outs = []
        for i in range(0, len(explicit), 5000):
            outs += cimpl.call(explicit[i:i + 5000])
        # mjERROR expected exactly for invalid Euler strings (oracle on impl output)
        for c, o in zip(explicit, outs):
            if c[0] == "euler2Quat":
                valid = len(c[2]) == 3 and all(ch in "xyzXYZ" for ch in c[2])
                if valid != (o is not None) and cimpl.ok:
                    ctx.violation("impl_violation", {"op": "euler2Quat", "seq": c[2]}, expected="error iff the string is not 3 characters of xyzXYZ",
                                  observed="ERR" if o is None else o, theorem="C24_euler2Quat_error", signature={"side": "C", "law": "euler error"})
        res = run_laws(cimpl, c_laws(ctx))
        report_laws(ctx, res, "C", counts)
        explicit_keys = set((c[0], tuple(hx(x) for x in c[1]), c[2] if len(c) > 2 else "") for c in explicit)
        keep = 0.6 if ctx.tier != "quick" else 0.3
        for key, o in cimpl.log.items():
            (op, args, seq) = key
            # quick tier: every explicit case and every euler2Quat call, and a random 30% (thorough: 60%) of the other calls issued by the law oracle
            if op in C_OPS and (key in explicit_keys or op == "euler2Quat" or rng.random() < keep):
                coq_cases.append((OPCODE[("c", op)], seq, args, o, ("C", op)))
    # ---------------- MJX side
    mjx_py = os.path.join(F.VERIF, "harness", "drivers", "c24_mjx.py")
    mjx_src = os.path.join(ctx.repo, "mjx", "mujoco", "mjx", "_src", "math.py")
    xcounts = {}
    if not os.path.exists(mjx_src):
        ctx.broken.append(("correspondence", "MJX math.py not found in the working tree", mjx_src))
    else:
        env = dict(os.environ, JAX_PLATFORMS="cpu", XLA_FLAGS="--xla_force_host_platform_device_count=1")
        ximpl = Impl(ctx, "MJX", "/venv/bin/python", args=[mjx_py, ctx.repo], env=env)
        res = run_laws(ximpl, [(dict(law="explicit", err_ok=True), explicit_gen(x_cases(ctx)))] + x_laws(ctx), opmap=C2X_ALL)
        report_laws(ctx, res, "MJX", xcounts)
        for (op, args, seq), o in ximpl.log.items():
            coq_cases.append((OPCODE[("x", op)], "", args, o, ("MJX", op)))
            if X_OPS[op][1] and x_regular(op, [unhx(t) for t in args]):
                coq_cases.append((OPCODE[("xc", op)], "", args, o, ("MJX~C", op)))
    # ---------------- model evaluation inside Coq
    lits = []
    for code, seq, args, o, _ in coq_cases:
        lits.append("(%d%%Z, \"%s\"%%string, %s, %s)" % (code, seq, F.flist([unhx(t) for t in args]), F.flist(o) if o else "[]%float"))
    fails = ctx.coq_eval("c24", "From Coq Require Import ZArith PrimFloat String Bool.\nFrom MJV Require Import Lib.Num Lib.NumF Lib.FloatFn Model.Spatial.\nOpen Scope nat_scope.",
                         lits, "chk", pre=coq_pre())
    seen = set()
    for i in fails:
        code, seq, args, o, (side, op) = coq_cases[i]
        if (side, op) in seen:
            continue
        seen.add((side, op))
        ctx.violation("correspondence", {"side": side, "op": op, "args": [unhx(t) for t in args], "seq": seq}, expected="model output (Model/Spatial.v at binary64, tolerance 2^-30 scaled)",
                      observed=o if o is not None else "ERR", found_input=False, theorem="correspondence c24 %s %s" % (side, op), signature={"side": side, "op": op},
                      note="implementation and Coq model disagree on this input; the law oracle on implementation outputs did not flag it")
    # ---------------- coverage
    nontriv = 0
    perop = {}
    m2q = [0, 0, 0, 0]
    for code, seq, args, o, (side, op) in coq_cases:
        vals = [unhx(t) for t in args]
        perop[side + ":" + op] = perop.get(side + ":" + op, 0) + 1
        if len(set(abs(v) for v in vals)) > 2:     # not only zeros/ones: a generic or boundary numeric input
            nontriv += 1
        if op in ("mat2Quat", "mat2Quat_i"):
            m2q[m2q_branch(vals)] += 1
    ctx.cov["evaluations"] = len(coq_cases)
    ctx.cov["distinct_nontrivial"] = nontriv
    ctx.cov["rule"] = ("every distinct implementation call (op, arguments) made by this run — explicit correspondence cases (special quaternions/vectors: identity, -identity, pi rotations, "
                       "trace-0 and tie matrices, norms around mjMINVAL and |norm-1| around mjMINVAL, signed zeros, overflow; random) and all calls issued by the law oracle (216 Euler sequences, "
                       "4 mat2Quat arms, poses, sub/integrate, finite differences) — is evaluated in the Coq model at binary64 and compared with tolerance 2^-30 scaled; "
                       "non-trivial = distinct call whose arguments take more than two distinct absolute values (not only zeros and ones)")
    ctx.cov["samples"] = [{"side": c[4][0], "op": c[4][1], "args": [unhx(t) for t in c[2]], "seq": c[1], "out": c[3]} for c in
                          (coq_cases[:1] + coq_cases[len(coq_cases) // 2:len(coq_cases) // 2 + 1] + coq_cases[-1:])]
    ctx.cov["correspondence_disagreements"] = len(fails)
    ctx.cov["support"]["cases_per_op"] = perop
    ctx.cov["support"]["mat2Quat_arm_counts"] = m2q
    ctx.cov["support"]["law_instances_C"] = counts
    ctx.cov["support"]["law_instances_MJX"] = xcounts
    ctx.cov["support"]["oracle_only"] = "mjd_subQuat / mjd_quatIntegrate are checked only by the finite-difference oracle (no theorem)"
    ctx.cov["explanation"] = ("theorems of Props/C24.v proved over R for all inputs; model tied to the C functions and to MJX math.py on %d distinct calls; "
                              "laws re-checked numerically on implementation outputs (%d C law instances, %d MJX)" % (len(coq_cases), sum(counts.values()), sum(xcounts.values())))
