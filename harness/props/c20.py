"""C20 — exhausted arena memory is handled gracefully (partial by design)."""
import glob
import os
import re
import framework as F

META = {
    "id": "C20", "category": "proof", "design_ref": "DESIGN.md section 4, C20",
    "technique": "Coq proof about a hand-written client model of the four allocation sites on top of the C19 allocator model + exact site-level correspondence on a real mjData with a swept number of free arena bytes + whole-step memory sweep through the mjSpec API with crash / guard-zone / consistency oracle",
    "text": ("PARTIAL by design. Proved in Coq (Props/C20.v) for the four allocation sites named by the property, modelled as clients of mj_arenaAllocByte (Model/ArenaClients.v on the allocator model of C19), for every consistent client state, every arena size and every request list: "
             "mj_addContact, arenaAllocEfc (any X-macro request list), arenaAllocIsland and pushPairArena never write through a NULL result; after a failed allocation the client state is consistent "
             "(ncon unchanged, parena rolled back to the end of the contact array / to its value at entry, every efc/island pointer NULL, nefc = nisland = 0, the right mjWARN_* raised, stack and memory untouched) and on success the arrays are non-NULL, consecutive, inside the arena and below the stack. "
             "pushPairArena is modelled in two variants: the code as it is now (NULL test on the result -> mju_error; C20_push_pair) and the code before /repo's repair f316da95f (test on the argument; C20_unfixed_push_pair_refuted: writes through NULL); arenaAllocIsland likewise (failure branch mj_clearEfc + rollback as it is now / clearIsland before repair 62d89235a, which left contact efc_address stale with nefc = 0); the check decides by replay which variants the working tree implements, reports an impl_violation for the old ones (corpus: site calls with too few free bytes, 80-body scene at memory 50000, 12-body cluster scene at memory 251616) and ties the variant found. "
             "Also proved (C20_alloc_dual) for mj_makeY (sparse and dense branch) and the dense branch of mj_makeAR, modelled as phases of mjSTACKALLOCs followed by a group of arena allocations that are tested together: if the NULL test looks at every pointer of the group the function never writes through NULL, restores the stack, and either allocates everything or reaches the failure state of the other sites; the hypothesis is needed (C20_untested_pointer_refuted). These three branches are tied like the four sites (mj_makeY / mj_makeAR called on a forwarded mjData of sparse+PGS and dense+PGS scenes at free-byte counts around every cumulative requirement, stack use included; the phase lists are transcribed by hand from engine_core_constraint.c, so a reordering there shows up as a correspondence failure). "
             "Tie: each of the four site functions of the working tree is called on a real mjData (scene built with the mjSpec API, after mj_forward) with a swept number of free arena bytes, and return value, parena, pstack, maxuse_arena, ncon, nefc, nisland, every efc/island pointer and the warning raised are compared exactly with the model (request lists taken from the X-macros of the tree). "
             "NOT proved, only observed on the inputs of the run: the behaviour of whole mj_step under small memory (other mj_arenaAllocByte call sites: narrowphase contact batches, the sparse branch of mj_makeAR, flex/efm arrays -- not reached: no flex in the scenes --; and stack overflow exits); the sweep scenes vary the options that decide which allocation sites run at all (sparse/dense Jacobian, PGS/CG/Newton, noslip, diagexact, elliptic cones, implicit/implicitfast/RK4, islands) and every allocation site gets its own window of memory sizes in the refinement (keyed by which allocation failed last): the same scenes are simulated with spec->memory (or m->narena after compilation, which reaches arenas of a few hundred bytes) swept from 0 to the needed size, refined adaptively down to single bytes wherever the outcome changes (sizes that are not multiples of 8 included; one scene has parena = 4 mod 8 before its first mjtNum array), with guard zones around the arena, crash detection, a per-allocation oracle evaluated by link-time wrappers after EVERY mj_arenaAllocByte / mj_stackAlloc* call of the engine (block inside [arena+parena, arena+narena-pstack), aligned, 0 <= parena <= narena-pstack; for bump allocators this implies pairwise disjointness and disjointness from the stack region), and checks that every failed arena allocation is followed by a warning or a catchable mju_error, that maxuse_arena <= narena and that ncon/nefc/efc pointers/efc_address/parena/pstack are consistent after every completed step. The same per-allocation oracle runs inside the site-level calls, whose free-byte counts cover every exact-fit size (with and without alignment padding) of every prefix of the request lists. "
             "C20_monotone of the design (retained contacts form a prefix) is not claimed: narrowphase allocates contacts per batch, all or nothing. Call sites not modelled are listed in the evidence."),
    "note": "Trusted: Coq kernel; hand-written models Model/Memory.v and Model/ArenaClients.v; correspondence harness (gcc, drivers c20_sites.c which includes three engine .c files textually, c20_sweep.c with --wrap=mj_arenaAllocByte); ASan not used (guard zones of 256 bytes instead).",
    "assumptions": ["request sizes of the X-macros do not overflow size_t", "mju_error does not return", "whole-step behaviour under small memory is observed, not proved",
                    "tie is differential testing on the cases of this run"],
}

COQ_IMPORTS = "From Coq Require Import ZArith Bool.\nFrom MJV Require Import Lib.Eqb Model.Memory Model.ArenaClients.\nOpen Scope Z_scope."
SITE_NAME = {"P": "pushPairArena", "C": "mj_addContact", "E": "arenaAllocEfc", "I": "arenaAllocIsland"}
# (nbody, nlink, cone, islands, cluster + 10 * unlimited hinges).  The second scene has nefc = 3 rows and nv = 4 with a
# dense Jacobian: an odd number of ints precedes the first mjtNum array, so parena is 4 mod 8 there (padding matters)
SCENES = [("6", "2", "0", "1", "0"), ("0", "3", "0", "0", "10"), ("9", "0", "1", "1", "1"), ("4", "3", "0", "0", "0")]
WRAP = ["-Wl,--wrap=mj_arenaAllocByte", "-Wl,--wrap=mj_stackAllocByte", "-Wl,--wrap=mj_stackAllocInfo",
        "-Wl,--wrap=mj_stackAllocNum", "-Wl,--wrap=mj_stackAllocInt"]
# whole-step sweep: the second scene (12 interpenetrating bodies) has a memory range in which the contact batch
# allocation of narrowphase fails while the step completes
SWEEP_SCENES = [("6", "2", "0", "1", "0"), ("12", "2", "0", "1", "1"), ("9", "0", "1", "1", "1"), ("4", "3", "0", "0", "0")]

PRE = ("Inductive scase := SC (site : Z) (fixed ic : bool) (csz cal psz pal b na pa ps ma nc ne ni : Z) (ep ip : list Z) (reqs : list Z) (out : list Z).\n"
       "Fixpoint pairs (l : list Z) : list (Z * Z) := match l with a :: b :: r => (a, b) :: pairs r | _ => [] end.\n"
       "Definition site_run (c : scase) : list Z := match c with SC site fixed ic csz cal psz pal b na pa ps ma nc ne ni ep ip reqs out =>\n"
       "  let c0 := mkcl (mkst b na pa ps 0 0 ma false []) nc ne ni ep ip [] [] in\n"
       "  obs_cl 0 (if site =? 0 then push_pair true fixed psz pal c0 else if site =? 1 then add_contact true csz cal c0\n"
       "            else if site =? 2 then alloc_efc true csz (pairs reqs) c0 else alloc_island true ic csz (pairs reqs) c0) end.\n")
# mj_makeY / mj_makeAR(dense): phased client (alloc_dual); the functions are void, so the return value is not observed
DPRE = ("Inductive dcase := DC (csz b na pa ps ma nc ne ni : Z) (ep ip dp : list Z) (phs : list phase) (out : list Z).\n"
        "Definition obs_d (o : outc) : list Z := match o with\n"
        "  | Done _ c => [0; parena (ms c); pstack (ms c); maxa (ms c); ncon c; nefc c; nisland c] ++ efcp c ++ islp c ++\n"
        "                (match warns c with (k, i) :: _ => [1; k; i] | [] => [0; 0; 0] end) ++ dualp c\n"
        "  | ErrExit _ => [1] | NullWrite => [2] end.\n"
        "Definition dual_run (c : dcase) : list Z := match c with DC csz b na pa ps ma nc ne ni ep ip dp phs out =>\n"
        "  obs_d (alloc_dual true true true csz phs (mkcl (mkst b na pa ps 0 0 ma false []) nc ne ni ep ip [] dp)) end.\n")
DCHECKER = "fun c => match c with DC _ _ _ _ _ _ _ _ _ _ _ _ _ out => zlist_eqb (dual_run c) out end"
SITE_NAME_D = {"Y": "mj_makeY", "A": "mj_makeAR"}
# scenes for the dual sites: sparse + PGS, dense + PGS (third field: cone + 10 * option bits, see c19_scene.h)
DUAL_SCENES = [("5", "2", "50", "1", "0"), ("5", "2", "60", "0", "0"), ("3", "4", "51", "1", "10"), ("4", "1", "61", "0", "0")]
CHECKER = "fun c => match c with SC _ _ _ _ _ _ _ _ _ _ _ _ _ _ _ _ _ _ out => zlist_eqb (site_run c) out end"


def parse_sites(out, tests):
    """-> list of dicts (one per test) from the driver output"""
    res = []
    lines = [l for l in out.split("\n") if l]
    i = 0
    for (site, avail) in tests:
        r = {"site": site, "avail": avail, "crash": None}
        if i < len(lines) and lines[i].startswith("K "):
            k = list(map(int, lines[i].split()[1:]))
            r.update(csz=k[0], cal=k[1], psz=k[2], pal=k[3], base=k[4], narena=k[5])
            t = list(map(int, lines[i + 1].split()[1:]))
            r["reqs"] = t[1:]
            t = list(map(int, lines[i + 2].split()[1:]))
            r["pre"] = t[:6]
            ne = t[6]
            r["ep"] = t[7:7 + ne]
            ni = t[7 + ne]
            r["ip"] = t[8 + ne:8 + ne + ni]
            i += 3
            if i < len(lines) and lines[i].startswith("D "):
                r["dinfo"] = list(map(int, lines[i].split()[1:]))   # sparse nv nefc nY nA
                i += 1
            if i < len(lines) and lines[i].startswith("O "):
                r["post"] = list(map(int, lines[i].split()[1:]))
                r["wviol"] = r["post"][-7:]     # per-allocation oracle of c20_wrap.h: count, first violation
                del r["post"][-7:]
                r["nstale"] = r["post"].pop()
                i += 1
                if i < len(lines) and lines[i].startswith("P "):
                    r["dual"] = list(map(int, lines[i].split()[2:]))
                    i += 1
            elif i < len(lines) and lines[i].startswith("X "):
                r["crash"] = int(lines[i].split()[1])
                i += 1
            else:
                return None
        else:
            return None
        res.append(r)
    return res


def site_oracle(r):
    """independent oracle on the implementation output of one site call"""
    bad = []
    if r["crash"] is not None:
        return [("null_check_on_wrong_pointer" if r["site"] == "P" else "crash", "returns (with a warning) or raises mju_error; a failed arena allocation is never dereferenced",
                 "process killed by signal %d" % r["crash"])]
    kind, ret = r["post"][0], r["post"][1]
    parena, pstack, maxa, ncon, nefc, nisl = r["post"][2:8]
    ne, ni = len(r["ep"]), len(r["ip"])
    ep, ip = r["post"][8:8 + ne], r["post"][8 + ne:8 + ne + ni]
    nw, wk, wi = r["post"][8 + ne + ni:]
    p0, ps0, ma0, nc0, nefc0, nisl0 = r["pre"]
    base, narena, csz = r["base"], r["narena"], r["csz"]
    if kind == 1:
        if r["site"] in ("C", "E", "I"):
            bad.append(("error", "warning and return value", "mju_error raised"))
        if r["site"] in ("Y", "A"):
            return bad      # stack overflow inside the function: the frame is not released, nothing else to check
        if (parena, pstack, ncon) != (p0, ps0, nc0):
            bad.append(("state", "state unchanged after mju_error", r["post"]))
        return bad
    if pstack != ps0 or parena + pstack > narena:
        bad.append(("state", "pstack unchanged and parena + pstack <= narena", r["post"]))
    if r["wviol"][0]:
        k, b, a, off, pa0, ps0 = r["wviol"][1:]
        bad.append(("block_outside_free_region", "every block handed out lies inside [arena+parena, arena+narena-pstack) and is aligned; 0 <= parena <= narena-pstack",
                    "%d allocation(s) violate this; first: %s allocation of %d bytes (align %d) placed at offset %d with parena=%d pstack=%d narena=%d (free region ends at offset %d)" %
                    (r["wviol"][0], "arena" if k == 1 else "stack", b, a, off, pa0, ps0, narena, narena - ps0)))
    if maxa > narena:
        bad.append(("arena_overrun", "maxuse_arena <= narena", "maxuse_arena=%d narena=%d" % (maxa, narena)))
    if r["nstale"]:
        bad.append(("stale_efc_address", "every contact has efc_address < nefc (-1 when its rows were dropped)",
                    "nefc=%d but %d of %d contacts keep efc_address >= nefc" % (nefc, r["nstale"], ncon)))
    inside = lambda p: base + nc0 * csz <= p <= base + parena
    s = r["site"]
    if s in ("Y", "A"):
        dual = r.get("dual", [])
        if nw == 0 and (not all(p and inside(p) for p in dual) or nefc != nefc0 or ncon != nc0 or ep != r["ep"]):
            bad.append(("success_state", "all arrays of the call allocated inside the arena, constraint set unchanged", r["post"][:8] + dual))
        if nw and (any(ep) or any(ip) or any(dual) or nefc or nisl or parena != nc0 * csz or (nw, wk, wi) != (1, 2, narena) or ncon != nc0):
            bad.append(("failure_state", "every efc/island/dual pointer NULL, nefc = nisland = 0, parena rolled back, mjWARN_CNSTRFULL(narena)", r["post"][:8] + dual))
    elif s == "C":
        if ret == 0 and (ncon != nc0 + 1 or nw):
            bad.append(("count", "ncon+1, no warning", r["post"]))
        if ret == 1 and (ncon != nc0 or parena != nc0 * csz or (nw, wk, wi) != (1, 1, nc0)):
            bad.append(("failure_state", "ncon unchanged, parena = ncon*sizeof(mjContact), mjWARN_CONTACTFULL(ncon)", r["post"]))
        if any(ep) or any(ip) or nefc or nisl:
            bad.append(("failure_state", "efc/island pointers NULL, nefc = nisland = 0 after mj_addContact", r["post"]))
    elif s == "E":
        if ret == 1 and (not all(ep[k] and inside(ep[k]) for k in range(ne)) or nw or ncon != nc0):
            bad.append(("success_state", "all efc pointers set inside the arena, no warning", r["post"]))
        if ret == 0 and (any(ep) or any(ip) or nefc or nisl or parena != nc0 * csz or (nw, wk, wi) != (1, 2, narena) or ncon != nc0):
            bad.append(("failure_state", "pointers NULL, nefc = nisland = 0, parena rolled back, mjWARN_CNSTRFULL(narena)", r["post"]))
    elif s == "I":
        if ret == 1 and (not all(ip[k] and inside(ip[k]) for k in range(ni)) or nw or ep != r["ep"]):
            bad.append(("success_state", "all island pointers set inside the arena, no warning", r["post"]))
        kept = parena == p0 and ep == r["ep"]
        cleared = parena == nc0 * csz and not any(ep)
        if ret == 0 and (any(ip) or nefc or nisl or not (kept or cleared) or (nw, wk, wi) != (1, 2, narena)):
            bad.append(("failure_state", "island pointers NULL, nefc = nisland = 0, parena restored (or everything cleared), mjWARN_CNSTRFULL(narena)", r["post"]))
    elif s == "P":
        if parena < p0 + r["psz"] or nw:
            bad.append(("success_state", "pair stored: parena advanced by sizeof(mjcPair)", r["post"]))
    return bad


def site_case(r, fixed, ic=False):
    if r["crash"] is not None:
        out = [2]
    elif r["post"][0] == 1:
        out = [1]
    else:
        out = [0] + r["post"][1:]
    p0, ps0, ma0, nc0, nefc0, nisl0 = r["pre"]
    return "SC %d %s %s %d %d %d %d %d %d %d %d %d %d %d %d %s %s %s %s" % (
        "PCEI".index(r["site"]), "true" if fixed else "false", "true" if ic else "false", r["csz"], r["cal"], r["psz"], r["pal"], r["base"], r["narena"],
        p0, ps0, ma0, nc0, nefc0, nisl0, F.zlist(r["ep"]), F.zlist(r["ip"]), F.zlist(r["reqs"]), F.zlist(out))


def run(ctx):
    import time
    from c19 import driver_retry
    rng = ctx.rng
    quick = ctx.tier == "quick"
    sup = ctx.cov["support"]
    tm = sup.setdefault("timing_s", {})
    t0 = [time.time()]

    def lap(name):
        tm[name] = round(time.time() - t0[0], 1)
        t0[0] = time.time()
    ctx.coq_props(allowed_axioms=(), extra_targets=["Lib/Eqb.vo", "Model/Memory.vo", "Model/ArenaClients.vo",
                                                    "Proof/MemoryProof.vo", "Proof/ArenaClientsProof.vo"])
    lap("coq_props")
    exe = driver_retry(ctx, "c20_sites", ["c20_sites.c"], link_extra=WRAP)
    swp = driver_retry(ctx, "c20_sweep", ["c20_sweep.c"], link_extra=WRAP)
    if exe is None or swp is None:
        return
    lap("driver_build")
    if getattr(ctx, "replay", None) and isinstance(ctx.replay.get("case"), dict):
        return replay_case(ctx, exe, swp)

    # ---------------------------------------------------------------- 1. site-level tie
    allres = []
    fixed = True
    for sc in (SCENES[:3] if quick else SCENES):
        # request lists first (ample space), then free-byte counts around every prefix boundary
        rc, out, err = ctx.run(exe, "E 1000000\nI 1000000\n", args=list(sc))
        first = parse_sites(out, [("E", 1000000), ("I", 1000000)]) if rc == 0 else None
        if not first:
            ctx.broken.append(("correspondence", "driver c20_sites failed", "rc=%s %s" % (rc, err[-400:])))
            return
        tests = [("P", a) for a in (0, 1, 5, 23, 24, 25, 27, 28, 31, 100)]
        tests += [("C", a) for a in (0, 7, first[0]["csz"] - 1, first[0]["csz"], first[0]["csz"] + 7, first[0]["csz"] + 8, 5000)]
        for site, fr in (("E", first[0]), ("I", first[1])):
            # exact-fit sizes: for every prefix of the request list, every free-byte count from "fits without the
            # alignment padding" - 1 to "fits with the padding" + 1 (offsets relative to d->arena decide the padding)
            start = fr["pre"][3] * fr["csz"] if site == "E" else fr["pre"][0]
            off = start
            cum = 0
            marks = {0, 1}
            exact = set()
            for k in range(0, len(fr["reqs"]), 2):
                b, al = fr["reqs"][k], fr["reqs"][k + 1]
                pad = (-off) % al
                cum += b
                exact |= set(range(cum - 1, (off + pad + b - start) + 2))
                if pad:
                    exact |= set(range(off + b - start - 1, off + pad + b - start + 2))
                off += pad + b
            padded = off - start
            marks |= exact | {padded + 16, padded + 64, padded + 1000}
            cum = padded
            marks = sorted(m for m in marks if m >= 0)
            if quick and len(marks) > 60:
                marks = sorted(set(rng.sample(marks, 50)) | {0, cum - 1, cum, cum + 64, cum + 1000})
            tests += [(site, a) for a in marks]
            tests += [(site, rng.randrange(0, cum + 100)) for _ in range(4 if quick else 40)]
        rc, out, err = ctx.run(exe, "".join("%s %d\n" % t for t in tests), args=list(sc))
        res = parse_sites(out, tests) if rc == 0 else None
        if not res:
            ctx.broken.append(("correspondence", "driver c20_sites failed", "rc=%s %s" % (rc, err[-400:])))
            return
        for r in res:
            r["scene"] = sc
        allres += res
    # variant of pushPairArena implemented by the working tree
    if any(r["site"] == "P" and r["crash"] is not None for r in allres):
        fixed = False
    # variant of the failure branch of arenaAllocIsland: mj_clearEfc (efc pointers NULL) or clearIsland (kept)
    isl_fail = [r for r in allres if r["site"] == "I" and r["crash"] is None and r["post"][0] == 0 and r["post"][1] == 0]
    ic = bool(isl_fail) and all(not any(r["post"][8:8 + len(r["ep"])]) for r in isl_fail)
    sup["arenaAllocIsland_failure_variant_tied"] = "mj_clearEfc + rollback to the contact array" if ic else "clearIsland (efc arrays and contact efc_address kept)"
    sup["pushPairArena_variant_tied"] = "NULL test on the result (mju_error)" if fixed else "NULL test on the ARGUMENT (code before /repo's repair): writes through NULL"
    nsite_viol = 0
    seen = set()
    for r in allres:
        for (cls, exp, obs) in site_oracle(r):
            key = (r["site"], cls)
            nsite_viol += 1
            if key in seen:
                continue
            seen.add(key)
            ctx.violation("impl_violation", {"site_call": SITE_NAME[r["site"]], "free_arena_bytes": r["avail"], "scene(nbody,nlink,cone,islands,cluster)": r["scene"],
                                             "state_before(parena,pstack,maxuse_arena,ncon,nefc,nisland)": r["pre"], "requests(bytes,align..)": r["reqs"][:40]},
                          expected=exp, observed=obs, theorem={"P": "C20_push_pair / C20_unfixed_push_pair_refuted", "C": "C20_add_contact", "E": "C20_alloc_efc", "I": "C20_alloc_island"}[r["site"]],
                          signature={"site": SITE_NAME[r["site"]], "class": cls})
    lap("site_runs_and_oracle")
    cases = [site_case(r, fixed, ic) for r in allres]
    fails = ctx.coq_eval("c20", COQ_IMPORTS, cases, CHECKER, shard=120, pre=PRE)
    lap("coq_eval_sites")
    dres, dfails = dual_part(ctx, exe, quick)
    lap("dual_sites")
    sup["dual_site_calls"] = len(dres)
    sup["dual_site_correspondence_disagreements"] = dfails
    nontriv_d = len({(r["site"], r["scene"], r["avail"]) for r in dres if r["crash"] is not None or r["post"][0] == 1 or r["post"][-3] > 0})
    for i in fails[:5]:
        r = allres[i]
        ctx.violation("correspondence", {"site_call": SITE_NAME[r["site"]], "free_arena_bytes": r["avail"], "scene": r["scene"], "state_before": r["pre"]},
                      expected="model outcome (Model/ArenaClients.v)", observed=r.get("post", "crash"), found_input=False, theorem="correspondence c20_sites",
                      note="implementation and client model disagree at this allocation site, but the implementation output satisfies the oracle")
    nontriv = len({(r["site"], r["scene"], r["avail"]) for r in allres if r["crash"] is not None or r["post"][0] == 1 or r["post"][-3] > 0})

    # ---------------------------------------------------------------- 2. whole-step memory sweep (observation)
    nsweep, nfail_runs, kinds = sweep_part(ctx, swp, quick)
    lap("memory_sweep")

    unmodelled_sites(ctx)
    ctx.cov["evaluations"] = len(allres) + len(dres) + nsweep
    ctx.cov["distinct_nontrivial"] = nontriv + nontriv_d + nfail_runs
    ctx.cov["rule"] = ("site level: each of pushPairArena / mj_addContact / arenaAllocEfc / arenaAllocIsland called on a real mjData of %d scenes with free-byte counts at every prefix boundary of the X-macro request lists (+-1, +4, +8) and random ones; "
                       "whole step: spec->memory swept from 0 to the needed size (coarse stride, then stride 8 inside every interval where the outcome class changes) on the same scenes, and the 80-body cluster scene at memory 50000..86000; "
                       "non-trivial = distinct site call that failed (warning, mju_error or crash) + distinct sweep run in which an arena allocation failed or mju_error was raised" % (2 if quick else 3))
    ctx.cov["samples"] = [{"site": SITE_NAME[r["site"]], "free_bytes": r["avail"], "scene": r["scene"], "before": r["pre"], "after": (r.get("post") or ["crash"])[:8]}
                          for r in (allres[0], allres[len(allres) // 2], allres[-1])]
    ctx.cov["correspondence_disagreements"] = len(fails) + dfails
    ctx.cov["explanation"] = ("Client theorems proved for all states/sizes/request lists; model tied at site level on %d calls (%d oracle complaints); whole-step sweep of %d memory sizes observed outcome classes %s" %
                              (len(allres), nsite_viol, nsweep, kinds))


def replay_case(ctx, exe, swp):
    """./check C20 --replay f : re-run the recorded site call or memory size on the working tree"""
    c = ctx.replay["case"]
    n = 0
    if "spec_memory" in c:
        args = c["scene(nbody,nlink,cone,islands,cluster,nsteps)"]
        runs = sweep_scene(ctx, swp, args, [c["spec_memory"]])
        if runs:
            sweep_oracle(ctx, args, runs, None, set())
            ctx.cov["samples"] = [{k: v for k, v in runs[0].items()}]
            n = 1
    elif "site_call" in c:
        site = {v: k for k, v in SITE_NAME.items()}[c["site_call"]]
        sc = c["scene(nbody,nlink,cone,islands,cluster)"]
        tests = [(site, c["free_arena_bytes"])]
        rc, out, err = ctx.run(exe, "%s %d\n" % tests[0], args=list(sc))
        res = parse_sites(out, tests) if rc == 0 else None
        if not res:
            ctx.broken.append(("correspondence", "driver c20_sites failed", "rc=%s %s" % (rc, err[-400:])))
            return
        for (cls, exp, obs) in site_oracle(res[0]):
            ctx.violation("impl_violation", c, expected=exp, observed=obs, theorem=ctx.replay.get("theorem"), signature={"site": c["site_call"], "class": cls})
        ctx.cov["samples"] = [{"site": c["site_call"], "after": (res[0].get("post") or ["crash"])[:8]}]
        n = 1
    ctx.cov["evaluations"] = n
    ctx.cov["distinct_nontrivial"] = 0
    ctx.cov["rule"] = "replay of one recorded case"
    ctx.cov["explanation"] = "replay"


def dual_phases(site, dinfo):
    """the phases of mj_makeY / mj_makeAR(dense) as read from engine_core_constraint.c: (mjSTACKALLOCs before the group,
    arena allocations of the group, positions whose pointers the NULL test looks at)"""
    sparse, nv, nefc, nY, nA = dinfo
    if site == "Y":
        if sparse:
            return [([(8 * nv, 8)], [(4 * nefc, 4), (4 * nefc, 4)], [0, 1]), ([(4 * nv, 4)], [(8 * nY, 8), (4 * nY, 4)], [0, 1])]
        return [([(8 * nv, 8)], [(8 * nefc * nv, 8)], [0])]
    if site == "A" and not sparse:
        return [([], [(8 * nefc * nefc, 8)], [0]), ([(8 * nv * nefc, 8)], [], [])]
    return None


def phases_coq(phs):
    pl = lambda l: "[" + "; ".join("(%d, %d)" % x for x in l) + "]"
    return "[" + "; ".join("(%s, %s, [%s])" % (pl(a), pl(b), "; ".join("%d%%nat" % t for t in c)) for a, b, c in phs) + "]"


def dual_part(ctx, exe, quick):
    """site-level tie and oracle for mj_makeY (sparse and dense) and mj_makeAR (dense)"""
    rng = ctx.rng
    allres = []
    for sc in (DUAL_SCENES[:2] if quick else DUAL_SCENES):
        rc, out, err = ctx.run(exe, "Y 4000000\nA 4000000\n", args=list(sc))
        first = parse_sites(out, [("Y", 4000000), ("A", 4000000)]) if rc == 0 else None
        if not first:
            ctx.broken.append(("correspondence", "driver c20_sites failed (dual sites)", "rc=%s %s" % (rc, err[-400:])))
            return [], 0
        tests = []
        for site, fr in (("Y", first[0]), ("A", first[1])):
            phs = dual_phases(site, fr["dinfo"])
            if phs is None:
                continue
            # free-byte counts around every cumulative requirement (frame, stack and arena requests in program order)
            cum = 24
            marks = set(range(0, 40))
            for (sr, ar, _) in phs:
                for (b, a) in sr + ar:
                    cum += b
                    marks |= set(range(max(0, cum - 10), cum + 18))
            marks |= {cum + 64, cum + 1000}
            marks = sorted(marks)
            if quick and len(marks) > 70:
                marks = sorted(set(rng.sample(marks, 66)) | {0, cum - 1, cum + 16, cum + 1000})
            tests += [(site, a) for a in marks] + [(site, rng.randrange(0, cum + 64)) for _ in range(6 if quick else 60)]
        rc, out, err = ctx.run(exe, "".join("%s %d\n" % t for t in tests), args=list(sc))
        res = parse_sites(out, tests) if rc == 0 else None
        if not res:
            ctx.broken.append(("correspondence", "driver c20_sites failed (dual sites)", "rc=%s %s" % (rc, err[-400:])))
            return [], 0
        for r in res:
            r["scene"] = sc
            r["phases"] = dual_phases(r["site"], r["dinfo"])
        allres += res
    seen = set()
    for r in allres:
        for (cls, exp, obs) in site_oracle(r):
            key = (r["site"], cls)
            if key in seen:
                continue
            seen.add(key)
            ctx.violation("impl_violation", {"site_call": SITE_NAME_D[r["site"]], "free_arena_bytes": r["avail"], "scene(nbody,nlink,cone+10*options,islands,cluster)": r["scene"],
                                             "state_before(parena,pstack,maxuse_arena,ncon,nefc,nisland)": r["pre"], "sparse,nv,nefc,nY,nA": r["dinfo"]},
                          expected=exp, observed=obs, theorem="C20_alloc_dual / C20_untested_pointer_refuted", signature={"site": SITE_NAME_D[r["site"]], "class": cls})
    cases = []
    for r in allres:
        p0, ps0, ma0, nc0, nefc0, nisl0 = r["pre"]
        if r["crash"] is not None:
            out = [2]
        elif r["post"][0] == 1:
            out = [1]
        else:
            out = [0] + r["post"][2:] + r.get("dual", [])
        ndual = sum(len(ph[1]) for ph in r["phases"])
        cases.append("DC %d %d %d %d %d %d %d %d %d %s %s %s %s %s" % (
            r["csz"], r["base"], r["narena"], p0, ps0, ma0, nc0, nefc0, nisl0, F.zlist(r["ep"]), F.zlist(r["ip"]),
            F.zlist([0] * ndual), phases_coq(r["phases"]), F.zlist(out)))
    fails = ctx.coq_eval("c20d", COQ_IMPORTS, cases, DCHECKER, shard=120, pre=DPRE)
    for i in fails[:5]:
        r = allres[i]
        ctx.violation("correspondence", {"site_call": SITE_NAME_D[r["site"]], "free_arena_bytes": r["avail"], "scene": r["scene"], "state_before": r["pre"], "sparse,nv,nefc,nY,nA": r["dinfo"]},
                      expected="model outcome (alloc_dual, Model/ArenaClients.v)", observed=(r.get("post") or ["crash"])[:8] + r.get("dual", []), found_input=False,
                      theorem="correspondence c20_sites (dual sites)",
                      note="implementation and phased-allocation model disagree at this site, but the implementation output satisfies the oracle")
    return allres, len(fails)


def parse_sweep(out):
    runs = []
    for l in out.split("\n"):
        t = l.split()
        if len(t) < 3 or t[0] != "M":
            continue
        mem = int(t[1])
        if t[2] == "C":
            runs.append({"mem": mem, "cls": "compile_error", "msg": " ".join(t[3:])[:120]})
        elif t[2] == "D":
            runs.append({"mem": mem, "cls": "makedata_error", "msg": " ".join(t[3:])[:120]})
        elif t[2] == "X":
            v = list(map(int, t[3:]))
            runs.append({"mem": mem, "cls": "crash", "sig": v[0], "addr": v[1], "nfailed": v[2], "last": (v[3], v[4]), "nviol": v[5], "first": v[6:12]})
        elif t[2] == "R":
            v = list(map(int, t[3:]))
            keys = ["done", "err", "ncon", "nefc", "nisland", "parena", "pstack", "pbase", "wcon", "wcnstr", "bad", "guard", "nalloc", "nfailed", "lastb", "lasta", "narena"]
            d = dict(zip(keys, v))
            d["nviol"], d["first"] = v[17], v[18:24]
            d["mem"] = mem
            d["cls"] = "step_error" if d["err"] else ("warned" if d["wcon"] + d["wcnstr"] else "ok")
            runs.append(d)
    return runs


def sweep_scene(ctx, swp, args, sizes):
    rc, out, err = ctx.run(swp, "\n".join(map(str, sizes)) + "\n", args=list(args), timeout=900)
    if rc != 0:
        ctx.broken.append(("correspondence", "driver c20_sweep failed", "rc=%s %s" % (rc, err[-400:])))
        return None
    runs = parse_sweep(out)
    if len(runs) != len(sizes):
        ctx.broken.append(("correspondence", "driver c20_sweep output incomplete", "%d of %d" % (len(runs), len(sizes))))
        return None
    return runs


def sweep_oracle(ctx, args, runs, ref, reported):
    """oracle on the implementation output of whole steps under small memory"""
    for r in runs:
        case = {"scene(nbody,nlink,cone,islands,cluster,nsteps)": list(args), "spec_memory": r["mem"], "built_with": "mjSpec C API, see harness/drivers/c19_scene.h"}
        v = None
        if r.get("nviol"):
            k, b, a, off, pa0, ps0 = r["first"]
            v = ("mj_arenaAllocByte" if k == 1 else "mj_stackAlloc", "block_outside_free_region",
                 "every block handed out lies inside [arena+parena, arena+narena-pstack) and is aligned; 0 <= parena <= narena-pstack",
                 "%d allocation(s) violate this%s; first: %s allocation of %d bytes (align %d) placed at offset %d with parena=%d pstack=%d (free region ends at offset %d, narena=%s)" %
                 (r["nviol"], " (the step then died with signal %d)" % r["sig"] if r["cls"] == "crash" else "", "arena" if k == 1 else "stack", b, a, off, pa0, ps0,
                  (r.get("narena") or r["mem"]) - ps0, r.get("narena", r["mem"])))
        elif r["cls"] == "crash":
            if r["last"] == (24, 4) and r["addr"] < 4096:
                v = ("pushPairArena", "null_check_on_wrong_pointer", "mjWARN_* or a catchable mju_error; a failed arena allocation is never dereferenced",
                     "signal %d at address %d right after a failed mj_arenaAllocByte(d, 24, 4) (sizeof(mjcPair)) inside mj_step" % (r["sig"], r["addr"]))
            else:
                v = ("mj_step", "crash_on_small_memory", "warning or catchable error", "signal %d at address %d, %d failed arena allocations, last (%d bytes, align %d)" %
                     (r["sig"], r["addr"], r["nfailed"], r["last"][0], r["last"][1]))
        elif r["cls"] in ("ok", "warned", "step_error"):
            if r["guard"]:
                v = ("mj_step", "out_of_arena_write", "no byte outside the mju_malloc'ed buffers written", "%d guard bytes modified" % r["guard"])
            elif r["bad"] == 16 and r["nefc"] == 0 and r["wcnstr"] and not r["err"]:
                v = ("arenaAllocIsland", "stale_efc_address", "every contact has efc_address < nefc (-1 when its rows were dropped)",
                     "after the step: nefc=0 (mjWARN_CNSTRFULL raised, last failed request %d bytes) but contacts keep efc_address >= 0; ncon=%d parena=%d" % (r["lastb"], r["ncon"], r["parena"]))
            elif r["bad"] & ~(1 if r["err"] else 0):
                v = ("mj_step", "inconsistent_state", "after a completed step: stack restored, ncon*sizeof(mjContact) <= parena, efc pointers all set inside the arena or all NULL with nefc = 0, efc_address < nefc",
                     "check mask %d (see c20_sweep.c), ncon=%d nefc=%d parena=%d" % (r["bad"], r["ncon"], r["nefc"], r["parena"]))
            elif r["nfailed"] and not (r["wcon"] + r["wcnstr"] or r["err"]):
                v = ("mj_arenaAllocByte", "silent_failure", "every failed arena allocation is followed by mjWARN_CONTACTFULL / mjWARN_CNSTRFULL or mju_error",
                     "%d failed allocations (last %d bytes), no warning, no error" % (r["nfailed"], r["lastb"]))
            elif r["cls"] == "ok" and ref and r["done"] == ref["done"] and (r["ncon"], r["nefc"]) != (ref["ncon"], ref["nefc"]):
                v = ("mj_step", "silent_truncation", "ncon=%d nefc=%d as with ample memory (no warning was raised)" % (ref["ncon"], ref["nefc"]), "ncon=%d nefc=%d" % (r["ncon"], r["nefc"]))
        if v and (v[0], v[1]) not in reported:
            reported.add((v[0], v[1]))
            ctx.violation("impl_violation", case, expected=v[2], observed=v[3], theorem="C20_push_pair" if v[0] == "pushPairArena" else "(observation: whole-step sweep)",
                          signature={"site": v[0], "class": v[1]})


def sweep_one(ctx, swp, sc, post, quick, reported, kinds):
    """sweep the memory size of one scene from 0 to the needed size: coarse grid, then adaptive refinement down to
    single bytes inside every interval in which the outcome changes (memory sizes that are not multiples of 8 included).
    post: the model is compiled with ample memory and m->narena is set afterwards (reaches arenas too small to compile)."""
    args = list(sc) + ["2"] + (["1"] if post else [])
    ref = sweep_scene(ctx, swp, args, [-1])
    if not ref:
        return None
    ref = ref[0]
    hi = 256
    while hi < (1 << 24):
        top = sweep_scene(ctx, swp, args, [hi])
        if not top:
            return None
        t = top[0]
        if t["cls"] == "ok" and (t["ncon"], t["nefc"]) == (ref["ncon"], ref["nefc"]):
            break
        hi *= 2
    if hi <= (2048 if quick else 8192) and post:
        sizes = list(range(0, hi + 1))          # small enough: every byte
    else:
        stride = max(8, hi // (40 if quick else 300))
        sizes = sorted(set(range(0, hi + stride, stride)) | {hi})
    runs = sweep_scene(ctx, swp, args, sizes)
    if not runs:
        return None
    # coarse outcome class, and the window inside it: which allocation (index and size) was the last to fail.
    # Every allocation site has its own window of memory sizes, however narrow; the refinement (1) locates every change
    # of the coarse class to the byte, (2) makes sure no window is skipped between two samples, (3) locates window
    # boundaries (the exact-fit sizes of the individual arrays) to the byte: all of them in thorough, a sample in quick
    ckey = lambda r: (r["cls"], r.get("ncon"), r.get("nefc"), r.get("wcon", 0) > 0, r.get("wcnstr", 0) > 0, r.get("done"))
    wkey = lambda r: (r.get("nalloc"), r.get("nfailed"), r.get("lastb"), r.get("lasta"))
    allr = {r["mem"]: r for r in runs}
    byte_budget = 8 if quick else 10 ** 9      # window boundaries refined to the byte
    chosen = set()
    for rnd in range(6 if quick else 8):
        mems = sorted(allr)
        more = set()
        for a, b in zip(mems, mems[1:]):
            if b - a <= 1:
                continue
            ra, rb = allr[a], allr[b]
            if ckey(ra) != ckey(rb):
                pass
            elif wkey(ra) != wkey(rb):
                skipped = abs((ra.get("nalloc") or 0) - (rb.get("nalloc") or 0)) > 1
                if not skipped:
                    # adjacent windows: refine this boundary only within the budget
                    bid = (wkey(ra), wkey(rb))
                    if bid not in chosen:
                        if len(chosen) >= byte_budget:
                            continue
                        chosen.add(bid)
            else:
                continue
            if b - a <= 16:
                more |= set(range(a + 1, b))
            else:
                more |= {a + (b - a) * k // 8 for k in range(1, 8)}
        more -= set(allr)
        if not more:
            break
        if quick and len(more) > 200:
            more = set(ctx.rng.sample(sorted(more), 200))
        rr = sweep_scene(ctx, swp, args, sorted(more))
        if rr is None:
            return None
        for r in rr:
            allr[r["mem"]] = r
    allr = [allr[m] for m in sorted(allr)]
    sweep_oracle(ctx, args, allr, ref, reported)
    nfail = 0
    for r in allr:
        kinds[r["cls"]] = kinds.get(r["cls"], 0) + 1
        if r["cls"] in ("step_error", "warned", "crash") or r.get("nfailed"):
            nfail += 1
    failed_sizes = sorted({(r["lastb"], r["lasta"]) if "lastb" in r else tuple(r["last"]) for r in allr if r.get("nfailed", 0) > 0})
    odd = sum(1 for r in allr if r["mem"] % 8)
    summ = {"scene": sc, "narena_set_after_compile": bool(post), "needed_memory_about": hi, "runs": len(allr), "memory_sizes_not_multiple_of_8": odd,
            "reference": {k: ref[k] for k in ("ncon", "nefc", "nisland", "narena")}, "distinct_failed_requests(bytes,align)": failed_sizes[:30]}
    return len(allr) + 2, nfail, summ


def sweep_part(ctx, swp, quick):
    total = 0
    nfail = 0
    kinds = {}
    reported = set()
    summary = []
    # third field of a scene: cone + 10 * option bits (c19_scene.h): 1 sparse, 2 dense, 4 PGS, 8 CG, 16 noslip,
    # 32 implicitfast, 64 implicit, 128 RK4, 256 diagexact.  The option scenes reach the allocation sites that the
    # defaults (Newton, dense) never execute: mj_makeY / mj_makeAR (dual solvers, noslip, diagexact; sparse and dense
    # branches), the derivative arrays of the implicit integrators
    plan = [(SWEEP_SCENES[0], 0), (SWEEP_SCENES[1], 0), (("0", "3", "0", "0", "10"), 1),
            (("9", "0", "50", "1", "0"), 1), (("5", "2", "61", "0", "0"), 1)]
    if not quick:
        plan += [(sc, 0) for sc in SWEEP_SCENES[2:]] + [(SWEEP_SCENES[0], 1), (("0", "5", "0", "0", "20"), 1), (("2", "3", "1", "0", "10"), 1)]
        plan += [((nb, nl, str(cone + 10 * bits), isl, cl), 1) for (nb, nl, cone, bits, isl, cl) in (
            ("6", "2", 0, 1 + 16, "1", "0"), ("6", "2", 1, 2 + 16, "0", "0"), ("6", "2", 0, 1 + 8, "1", "0"),
            ("6", "2", 0, 1 + 256, "1", "0"), ("6", "2", 1, 2 + 256, "0", "0"), ("5", "2", 0, 1 + 64, "1", "0"),
            ("5", "2", 0, 2 + 32, "0", "0"), ("4", "1", 0, 128 + 4 + 1, "1", "0"), ("8", "0", 1, 4 + 1, "1", "1"),
            ("3", "4", 0, 4 + 2, "1", "10"))]
    for sc, post in plan:
        res = sweep_one(ctx, swp, sc, post, quick, reported, kinds)
        if res is None:
            return total, nfail, kinds
        total += res[0]
        nfail += res[1]
        summary.append(res[2])
    # corpus: the memory size at which the island arrays do not fit (stale efc_address before /repo 62d89235a)
    args = ["12", "2", "0", "1", "1", "2"]
    runs = sweep_scene(ctx, swp, args, [251616] + ([] if quick else list(range(251000, 252400, 200))))
    if runs:
        sweep_oracle(ctx, args, runs, None, reported)
        total += len(runs)
        for r in runs:
            kinds["corpus12:" + r["cls"]] = kinds.get("corpus12:" + r["cls"], 0) + 1
            nfail += 1
    # corpus: the scene that reached the pushPairArena defect through mj_step
    args = ["80", "0", "0", "1", "1", "1"]
    sizes = [50000] + ([] if quick else list(range(46000, 90000, 4000)))
    runs = sweep_scene(ctx, swp, args, sizes)
    if runs:
        sweep_oracle(ctx, args, runs, None, reported)
        total += len(runs)
        for r in runs:
            kinds["corpus80:" + r["cls"]] = kinds.get("corpus80:" + r["cls"], 0) + 1
            nfail += 1
    ctx.cov["support"]["sweep"] = summary
    ctx.cov["support"]["sweep_outcome_classes"] = kinds
    return total, nfail, kinds


def unmodelled_sites(ctx):
    """list the call sites of mj_arenaAllocByte that the client model does not cover"""
    modelled = {"pushPairArena", "mj_addContact", "arenaAllocEfc", "arenaAllocIsland"}
    sites = []
    for fn in sorted(glob.glob(os.path.join(ctx.repo, "src/engine/*.c")) + glob.glob(os.path.join(ctx.repo, "src/engine/*.cc"))):
        if fn.endswith("engine_memory.c"):
            continue
        txt = open(fn, errors="replace").read()
        for m in re.finditer(r"mj_arenaAllocByte\s*\(", txt):
            line = txt[:m.start()].count("\n") + 1
            # enclosing function: last line starting in column 0 with an identifier and containing '('
            head = re.findall(r"^(?:static\s+)?[A-Za-z_][\w\s\*]*?\b([A-Za-z_]\w*)\s*\([^;{]*\)?\s*\{?\s*$", txt[:m.start()], flags=re.M)
            name = head[-1] if head else "?"
            sites.append((os.path.relpath(fn, ctx.repo), line, name))
    un = ["%s:%d (%s)" % s for s in sites if s[2] not in modelled]
    ctx.cov["support"]["arena_call_sites_total"] = len(sites)
    ctx.cov["support"]["arena_call_sites_not_modelled"] = un
    found = {s[2] for s in sites}
    missing = modelled - found
    if missing:
        ctx.broken.append(("translator", "modelled allocation site no longer calls mj_arenaAllocByte: " + ", ".join(sorted(missing)), ""))
