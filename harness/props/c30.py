"""C30 — numerical blow-ups are contained (mju_isBad, mj_checkPos/Vel/Acc, mj_step)."""
import math, struct
import framework as F

META = {
    "id": "C30", "category": "proof", "design_ref": "DESIGN.md section 4, C30",
    "technique": "Coq proof (Flocq semantics of PrimFloat for mju_isBad; list induction for the check functions; real-number bound for the Euler update) + exact correspondence with mju_isBad / mj_checkPos / mj_checkVel / mj_checkAcc of the working tree on boundary bit patterns and on generated models with injected values + oracle on mj_step output",
    "text": ("Proved for all inputs of the model (coq/Model/Checks.v): C30_isbad - for every binary64 x, isBad x = true iff x is NaN, or +-infinity, or its real value is > 1e10 or < -1e10 "
             "(PrimFloat comparisons interpreted through Flocq's Prim2B/B2R; in particular nan, infinity, neg_infinity are bad and +-1e10 are not). "
             "C30_check - for every list of visited (index,value) pairs (any loop order, so also the sleep-filtered order), every data and both settings of autoreset: if no visited value is bad the data is unchanged; "
             "otherwise lastinfo of that warning kind is the index of the FIRST bad value in loop order, every other warning kind is left as it is in the resulting state, and "
             "(autoreset on) the whole data equals the reset data except that this warning is (number 1, lastinfo i), i.e. exactly one above the reset counter 0 - "
             "(autoreset off) the data is unchanged except this warning whose number is the old number + 2 (mj_warning increments once and the check function increments again; this is what the code does, "
             "the assignment's 'exactly one' holds only relative to the reset state). C30_checkacc: the same for mj_checkAcc with the abstract mj_forward applied after a reset. "
             "C30_finite - if qpos, qvel, qacc entries pass the check (isBad = false) then they are finite with |value| <= 1e10 and for |h| <= 1 the exact-real Euler update satisfies |qvel'| <= 2e10 and |qpos'| <= 3e10 < 2^1023 (scalar joints). "
             "Tied by exact correspondence on every run: mju_isBad on boundary bit patterns (+-mjMAXVAL, neighbours, infinities, NaN payloads, denormals, zeros, random), the three check functions called on generated models with NaN/Inf/huge values injected at every index (number, lastinfo, reset/unchanged classification by bitwise comparison with a reset mjData). "
             "Observed by oracle only (not proved): after mj_step with injections into qpos, qvel, qfrc_applied, xfrc_applied, ctrl, act for every integrator, the state is finite or the warning was raised, and with autoreset the state is always finite and the simulation restarted (time = nsteps*h). "
             "Not covered: IEEE rounding inside the Euler update; finiteness of quaternion and activation paths; that mj_forward never produces a non-finite state component with finite qacc (observed only); C30_badctrl / C30_warning (added): the bad-control scan of mj_fwdActuation over ALL nu entries of the clamped local control vector - nothing bad: unchanged; else BADCTRL counter + 1, lastinfo = first bad control index, every control treated as 0 - tied on multi-input control models (SO3 orientation servos, PID servos with 2-3 inputs mixed with single-input actuators, so nu > nactuator and control index != actuator index) with a bad value at every control index (warning stat exact, forces and act_dot bitwise equal to the all-zero-control reference), and mj_step on these models is under the finite-state oracle plus the clause 'bad control => BADCTRL raised with that index'; the sleep-filtered loops of mj_checkVel/mj_checkAcc are covered by the theorem (arbitrary loop order) AND by the tie: sleep models (mjENBL_SLEEP, trees initialised asleep in front of / behind awake ones) run the same injections with the loop order read from dof_awake_ind, and mj_step is run with bad forces/values at awake dofs whose index is >= nv_awake; a bad value in a dof of a SLEEPING tree is by design not visited (model and code agree) and is not an oracle case."),
    "note": "Trusted: Coq kernel, std-lib FloatAxioms (primitive float specification) and real-number axioms, Flocq library; hand-written model Model/Checks.v (mjData abstracted to core+warnings, mj_resetData = initial data + zero warnings, mj_forward abstract); correspondence harness (gcc, driver c30_checks.c, mjgen.h models).",
    "assumptions": ["model abstracts mjData into (core, warnings); reset/forward are abstract; tie is differential testing on the cases of this run",
                    "IEEE rounding is outside C30_finite (real arithmetic)"],
}

MAXVAL = 1e10
W_QPOS, W_QVEL, W_QACC, W_CTRL = 3, 4, 5, 6
FEATS = [0x7 | 0x40 | 0x80 | 0x400 | 0x1000,            # free/ball/slide + actuators + actdyn + limits + springs
         0x7 | 0x8 | 0x40 | 0x80 | 0x400 | 0x800 | 0x1000 | 0x4000 | 0x8000,   # + contact, frictionloss, elliptic, multitree
         0x4 | 0x10 | 0x20 | 0x40 | 0x80 | 0x100,       # slide/hinge + equality + tendon + actuators + sensors
         0]


def bits(x):
    return struct.unpack("<Q", struct.pack("<d", x))[0]


def unbits(b):
    return struct.unpack("<d", struct.pack("<Q", b))[0]


def py_bad(x):
    return x != x or x > MAXVAL or x < -MAXVAL


def run(ctx):
    rng = ctx.rng
    quick = ctx.tier == "quick"
    ctx.coq_props(allowed_axioms=set(F.STD_AXIOMS) | {"FloatAxioms"},
                  extra_targets=["Lib/Num.vo", "Lib/NumF.vo", "Model/Checks.vo"])
    exe = ctx.driver("c30_checks", ["c30_checks.c"])
    if exe is None:
        return
    # ------------------------------------------------------------------ requests
    mb = bits(MAXVAL)
    pats = [mb, mb + 1, mb - 1, mb + 2, mb - 2, mb | (1 << 63), (mb + 1) | (1 << 63), (mb - 1) | (1 << 63),
            0x7ff0000000000000, 0xfff0000000000000, 0x7ff8000000000000, 0xfff8000000000000, 0x7ff0000000000001,
            0xfff0000000000001, 0x7fffffffffffffff, 0xffffffffffffffff, 0x7ff4000000000000,
            0, 1 << 63, 1, (1 << 63) | 1, 0x000fffffffffffff, 0x800fffffffffffff, 0x0010000000000000,
            0x7fefffffffffffff, 0xffefffffffffffff, bits(1.0), bits(-1.0), bits(9999999999.999998), bits(1.0000000001e10),
            bits(1e9), bits(1e11), bits(-1e9), bits(-1e11), bits(1e308), bits(-1e308)]
    for _ in range(300 if quick else 6000):
        c = rng.randrange(4)
        if c == 0:
            pats.append(rng.getrandbits(64))
        elif c == 1:
            pats.append((mb + rng.randrange(-2000, 2000)) | (rng.randrange(2) << 63))
        elif c == 2:
            pats.append(bits(rng.choice([-1, 1]) * 10 ** rng.uniform(8, 12)))
        else:
            pats.append((0x7ff << 52) | rng.getrandbits(52) | (rng.randrange(2) << 63))
    bad_vals = [float("nan"), float("inf"), -float("inf"), 1.0000000001e10, -1.0000000001e10, 1e300, -1e300, unbits(mb + 1), -unbits(mb + 1)]
    ok_vals = [MAXVAL, -MAXVAL, unbits(mb - 1), 9e9]
    models = []
    nmod = 3 if quick else 16
    for k in range(nmod):
        models.append((rng.randrange(1, 10 ** 6), FEATS[k % len(FEATS)], 1 + rng.randrange(5)))
    creq = []   # (model, kind, autoreset, pre_n, pre_l, [(idx, value)])
    for (seed, feat, nb) in models:
        for kind in range(3):
            # the driver reports the vector size: use a generous index range; idx is reduced mod n
            nmax = 7 * nb + 2
            for idx in range(nmax):
                for ar in (1, 0):
                    off = idx + kind + ar
                    vs = [bad_vals[off % len(bad_vals)]] if quick else [bad_vals[(off + 3 * t) % len(bad_vals)] for t in range(3)]
                    for v in vs:
                        creq.append(((seed, feat, nb), kind, ar, rng.choice([0, 0, 1, 5]), rng.randrange(0, 9), [(idx, v)]))
            for rep in range(6 if quick else 40):
                ar = rng.randrange(2)
                ninj = rng.randrange(0, 4)
                inj = [(rng.randrange(nmax), rng.choice(bad_vals + ok_vals + ok_vals)) for _ in range(ninj)]
                creq.append(((seed, feat, nb), kind, ar, rng.choice([0, 1, 2, 100]), rng.randrange(0, 9), inj))
    # sleep models: (ntree, mask of trees initialised asleep, shape bits); sleeping trees in front of awake ones first
    sleepcfg = [(2, 1, 0), (3, 1, 2), (3, 3, 4), (4, 5, 10), (3, 4, 1), (2, 2, 1), (3, 7, 0), (4, 9, 6)]
    if not quick:
        sleepcfg += [(nt, mk, rng.randrange(1 << nt)) for nt in (2, 3, 4, 5) for mk in range(1, 1 << nt, 5)]
    else:
        sleepcfg = sleepcfg[:4]
    for (nt, mk, sh) in sleepcfg:
        mo = ("sleep", nt, mk, sh)
        for kind in range(3):
            nmax = 7 * nt
            for idx in range(0, nmax, 3 if (quick and kind == 0) else 1):
                ars = (1, 0) if not quick else ((idx + kind) % 2,)
                for ar in ars:
                    creq.append((mo, kind, ar, rng.choice([0, 0, 1, 5]), rng.randrange(0, 9), [(idx, bad_vals[(idx + kind + ar) % len(bad_vals)])]))
            for rep_ in range(4 if quick else 20):
                ninj = rng.randrange(0, 4)
                inj = [(rng.randrange(nmax), rng.choice(bad_vals + ok_vals)) for _ in range(ninj)]
                creq.append((mo, kind, rng.randrange(2), rng.choice([0, 1, 2, 100]), rng.randrange(0, 9), inj))
    sreq = []   # (model, integrator, autoreset, where, idx, value, nsteps)
    # fixed regression inputs of the three recorded input classes (see KNOWN_FINDINGS / report)
    sreq.append(((528887, 500, 5), 3, 1, 4, 21, float("nan"), 1))          # NaN ctrl, implicitfast
    sreq.append(((487139, 5319, 5), 1, 1, 2, 34, 9e9, 1))                  # RK4, legal qfrc_applied
    sreq.append(((487139, 5319, 5), 3, 1, 5, 11, -float("inf"), 1))        # act = -inf
    for (seed, feat, nb) in models:
        for integ in (0, 1, 2, 3):
            for where in range(7):
                nidx = 1 if where == 6 else (2 if quick else 8)
                for j in range(nidx):
                    idx = rng.randrange(0, 7 * nb + 2)
                    for ar in (1, 0):
                        v = rng.choice(bad_vals + [9e9, -9.9e9, 1e10])
                        sreq.append(((seed, feat, nb), integ, ar, where, idx, v, rng.choice([1, 1, 2, 3])))
    for (nt, mk, sh) in sleepcfg:
        mo = ("sleep", nt, mk, sh)
        for integ in (0, 1, 2, 3):
            for where in range(4):
                for j in range(2 if quick else 6):
                    for ar in ((1,) if quick and j else (1, 0)):
                        v = rng.choice(bad_vals + ([1e30, -1e30] if where >= 2 else [9e9]))
                        sreq.append((mo, integ, ar, where, rng.randrange(0, 40), v, rng.choice([1, 1, 2])))
    # multi-input control models (nu > nactuator): bad value at every control index for the scan of mj_fwdActuation
    cseeds = [rng.randrange(1, 10 ** 6) for _ in range(4 if quick else 30)]
    ctrl_vals = [float("nan"), float("inf"), -float("inf"), 1e300, -1.0000000001e10, 9e9]
    kreq = []    # (seed, pre_n, pre_l, [(idx, value)])
    for cs_ in cseeds:
        for idx in range(14):
            vs = [ctrl_vals[(idx + k) % len(ctrl_vals)] for k in range(2 if quick else 6)]
            for v in vs:
                kreq.append((cs_, rng.choice([0, 0, 2, 7]), rng.randrange(0, 9), [(idx, v)]))
        for rep_ in range(4 if quick else 20):
            kreq.append((cs_, rng.choice([0, 1, 50]), rng.randrange(0, 9), [(rng.randrange(14), rng.choice(ctrl_vals + [0.3, -2.0])) for _ in range(rng.randrange(0, 4))]))
    for cs_ in cseeds:
        for integ in (0, 1, 2, 3):
            for idx in range(0, 14, 1 if not quick else 2):
                v = ctrl_vals[(idx + integ) % 5]
                sreq.append((("ctrl", cs_, 0, 0), integ, 1 if (idx + integ) % 3 else 0, 4, idx, v, rng.choice([1, 1, 2])))
    inp = ["M", "B %d %s" % (len(pats), " ".join("%x" % p for p in pats))]
    for (mo, kind, ar, pn, pl, inj) in creq:
        inp.append("%s %d %d %d %d %d %d %d %d %s" % ("Z" if mo[0] == "sleep" else "C", mo[-3], mo[-2], mo[-1], kind, ar, pn, pl, len(inj),
                                                       " ".join("%d %x" % (i, bits(v)) for i, v in inj)))
    for (mo, integ, ar, where, idx, v, ns) in sreq:
        if mo[0] == "ctrl":
            inp.append("W %d %d %d %d %x %d" % (mo[1], integ, ar, idx, bits(v), ns))
        else:
            inp.append("%s %d %d %d %d %d %d %d %x %d" % ("T" if mo[0] == "sleep" else "S", mo[-3], mo[-2], mo[-1], integ, ar, where, idx, bits(v), ns))
    for (cs_, pn, pl, inj) in kreq:
        inp.append("K %d %d %d %d %s" % (cs_, pn, pl, len(inj), " ".join("%d %x" % (i, bits(v)) for i, v in inj)))
    rc, out, err = ctx.run(exe, "\n".join(inp) + "\n", timeout=900)
    lines = out.split("\n")
    if rc != 0 or len(lines) < len(inp):
        ctx.broken.append(("correspondence", "driver c30_checks failed", "rc=%s lines=%d/%d %s" % (rc, len(lines), len(inp), err[-800:])))
        return
    # ------------------------------------------------------------------ constants
    mtok = lines[0].split()
    if float.fromhex(mtok[0]) != MAXVAL or mtok[1:] != ["7", "3", "4", "5"]:
        ctx.violation("correspondence", {"constants": lines[0]}, expected="mjMAXVAL=1e10 mjNWARNING=7 BADQPOS=3 BADQVEL=4 BADQACC=5",
                      observed=lines[0], found_input=False, theorem="constants of Model/Checks.v")
    # ------------------------------------------------------------------ mju_isBad
    coq_b = []
    res = lines[1].strip()
    nb_bad = 0
    for p, ch in zip(pats, res):
        x = unbits(p)
        got = ch == "1"
        if got != py_bad(x):
            ctx.violation("impl_violation", {"op": "mju_isBad", "bits": "%016x" % p}, expected=py_bad(x), observed=got,
                          signature={"site": "mju_isBad"}, theorem="C30_isbad")
        nb_bad += got
        coq_b.append("(%s, %s)" % (F.fhex(x), "true" if got else "false"))
    fails = ctx.coq_eval("c30_isbad", "From Coq Require Import ZArith Bool PrimFloat.\nFrom MJV Require Import Model.Checks.\nOpen Scope float_scope.",
                         coq_b, "fun c => Bool.eqb (isBad (fst c)) (snd c)")
    for i in fails[:3]:
        ctx.violation("correspondence", {"op": "mju_isBad", "bits": "%016x" % pats[i]}, expected="Model/Checks.v isBad", observed=res[i],
                      found_input=False, theorem="correspondence mju_isBad")
    ncorr = len(fails)
    # ------------------------------------------------------------------ check functions
    coq_c = []
    creq_kept = []
    nsleepfilt = 0
    nontriv = set()
    kinds = ["mj_checkPos", "mj_checkVel", "mj_checkAcc"]
    for k, (mo, kind, ar, pn, pl, inj) in enumerate(creq):
        line = lines[2 + k]
        mdesc = ({"sleep_model": {"ntree": mo[1], "asleep_mask": mo[2], "shape": mo[3]}} if mo[0] == "sleep" else
                 {"seed": mo[0], "feat": mo[1], "nbody": mo[2]})
        case = {"op": kinds[kind], "model": mdesc, "autoreset": ar,
                "pre": [pn, pl], "inject": [[i, "%016x" % bits(v)] for i, v in inj]}
        parts = line.split("|")
        if line.startswith("ERR") or len(parts) != 4 or "ERR" in parts[3]:
            ctx.broken.append(("correspondence", "driver reply unusable", line[:200] + " for " + str(case)))
            continue
        vpart, _, ipart = parts[0].partition(";")
        vt = vpart.split()
        n = int(vt[0])
        vec = [unbits(int(t, 16)) for t in vt[1:]]
        ind = list(map(int, ipart.split()))[1:] if ipart.strip() else None      # loop order reported by the driver (sleep filter)
        if ind is not None and len(ind) < n:
            nsleepfilt += 1
        num, last = map(int, parts[1].split())
        bnum, blast = map(int, parts[2].split())
        cls = parts[3].strip()
        first = next((i for i in (range(n) if ind is None else ind) if py_bad(vec[i])), None)
        sig = {"site": kinds[kind], "autoreset": ar}
        if ind is not None and len(ind) < n:
            sig["sleep_filter"] = 1
        if first is None:
            if not (cls == "U" and (num, last) == (pn, pl)):
                ctx.violation("impl_violation", case, expected="no bad value: data and warnings unchanged", observed=line[-60:], signature=sig, theorem="C30_check")
        else:
            okc = (cls == "R" and num >= 1) if ar else (cls == "U" and num > pn and (bnum, blast) == (3, 7))
            if not (okc and last == first):
                ctx.violation("impl_violation", case, expected="warning raised (counter increases), lastinfo=%d (first bad index), %s" % (first, "data reset" if ar else "data unchanged"),
                              observed="number=%d lastinfo=%d class=%s" % (num, last, cls), signature=sig, theorem="C30_check")
            nontriv.add((mo, kind, ar, first, bits(vec[first])))
        found = "true" if (cls != "U" or (num, last) != (pn, pl)) else "false"
        coq_c.append("(%s, %s, %s, %d, %d, (%s, %d, %s, %s))" % ("true" if ar else "false", F.flist(vec), "(@None (list Z))" if ind is None else ("(Some (@nil Z))" if not ind else "(Some %s)" % F.zlist(ind)), pn, pl, found, num,
                                                             ("(%d)" % last) if last < 0 else str(last), "true" if cls == "R" else "false"))
        creq_kept.append((case, line))
        if cls == "X":
            ctx.violation("correspondence", case, expected="data unchanged or equal to reset data", observed=line[-60:], found_input=False,
                          theorem="correspondence " + kinds[kind])
    checker = ("fun c => match c with (ar, v, ind, n0, l0, (f, n1, l1, r)) => "
               "match check_summary ar (match ind with None => entries_all v | Some l => entries_ind v l end) n0 l0 with (f', n', l', r') => "
               "Bool.eqb f f' && (n1 =? n')%Z && (l1 =? l')%Z && Bool.eqb r r' end end")
    fails = ctx.coq_eval("c30_check", "From Coq Require Import ZArith Bool PrimFloat.\nFrom MJV Require Import Model.Checks.\nOpen Scope Z_scope.",
                         coq_c, checker, shard=200)
    for i in fails[:3]:
        ctx.violation("correspondence", creq_kept[i][0], expected="Model/Checks.v check_summary", observed=creq_kept[i][1][-80:], found_input=False,
                      theorem="correspondence " + creq_kept[i][0]["op"])
    ncorr += len(fails)
    # ------------------------------------------------------------------ mj_step oracle
    wnames = ["qpos", "qvel", "qfrc_applied", "xfrc_applied", "ctrl", "act", "none"]
    nstep_bad = 0
    nctrlstep = 0
    nsleepstep = 0
    nerr_noreset = 0
    byclass = {}
    firstcase = {}
    _viol = ctx.violation

    def sviol(kind, case, **kw):
        key = "%(class)s: %(integrator)s/%(inject)s/%(value)s/autoreset=%(autoreset)s" % kw["signature"]
        byclass[key] = byclass.get(key, 0) + 1
        firstcase.setdefault(key, (case, kw.get("observed")))
        return _viol(kind, case, **kw)
    for k, (mo, integ, ar, where, idx, v, ns) in enumerate(sreq):
        line = lines[2 + len(creq) + k]
        issleep = mo[0] == "sleep"
        isctrl = mo[0] == "ctrl"
        mdesc = {"multi_input_ctrl_model_seed": mo[1]} if isctrl else ({"sleep_model": {"ntree": mo[1], "asleep_mask": mo[2], "shape": mo[3]}, "index_is": "k-th awake dof"} if issleep else
                 {"seed": mo[0], "feat": mo[1], "nbody": mo[2]})
        case = {"op": "mj_step", "model": mdesc, "integrator": integ, "autoreset": ar,
                "inject": wnames[where], "index": idx, "value_bits": "%016x" % bits(v), "nsteps": ns}
        t = line.split()
        if line.startswith("ERR") or len(t) != 6 + 14 + (3 if issleep else 5 if isctrl else 0):
            ctx.broken.append(("correspondence", "driver reply unusable", line[:200] + " for " + str(case)))
            continue
        errf, fin = int(t[0]), int(t[1])
        time, h, n = unbits(int(t[2], 16)), unbits(int(t[3], 16)), int(t[4])
        w = [(int(t[5 + 2 * j]), int(t[6 + 2 * j])) for j in range(7)]
        nidx = int(t[19])
        if issleep:
            case["nv"], case["nv_awake"], case["dof"] = int(t[20]), int(t[21]), int(t[22])
            nsleepstep += int(t[21]) < int(t[20])
        if isctrl:
            case["nu"], case["nactuator"], case["ctrl_index"] = int(t[20]), int(t[21]), nidx
            if int(t[22]):      # the scan sees the control clamped to ctrlrange (NaN passes through mju_clip)
                lo_, hi_ = unbits(int(t[23], 16)), unbits(int(t[24], 16))
                v = v if v != v else min(max(v, lo_), hi_)
            nctrlstep += int(t[20]) > int(t[21]) and nidx >= int(t[21])
        vclass = "nan" if v != v else "inf" if abs(v) == math.inf else "over-limit" if abs(v) > MAXVAL else "within-limit"
        finite_v = v == v and abs(v) != math.inf
        if where == 5 and not finite_v:
            cls = "act-unchecked"
        elif where == 4 and integ in (2, 3) and py_bad(v):
            cls = "bad-ctrl-implicit-derivative"
        elif integ == 1 and finite_v and (where in (2, 3, 4, 5) or (where in (0, 1) and not py_bad(v))):   # legal finite input, stage-1 qacc passes
            cls = "rk4-later-stage-unchecked"
        else:
            cls = "other"
        sig = {"site": "mj_step", "class": cls, "integrator": ["Euler", "RK4", "implicit", "implicitfast"][integ],
               "inject": wnames[where], "value": vclass, "autoreset": ar}
        raised = any(w[j][0] >= 1 for j in (W_QPOS, W_QVEL, W_QACC))
        injected_bad = n > 0 and py_bad(v)
        nstep_bad += injected_bad
        hsum = 0.0
        for _ in range(ns):
            hsum += h
        if isctrl and not errf and py_bad(v) and not (w[W_CTRL][0] >= 1 and w[W_CTRL][1] == nidx):
            sviol("impl_violation", case, expected="bad control at index %d: BADCTRL warning raised with lastinfo %d" % (nidx, nidx),
                  observed="BADCTRL=%s" % (w[W_CTRL],), signature=dict(sig, **{"site": "mj_fwdActuation", "class": "badctrl-warning-missing"}), theorem="C30_badctrl")
        if errf and not ar:
            nerr_noreset += 1        # autoreset disabled by the user and an engine error on a blown-up state: outside the property
        elif errf:
            sviol("impl_violation", case, expected="mj_step returns", observed="mju_error raised", signature=sig, theorem="C30 oracle")
        elif ar:
            if not fin:
                sviol("impl_violation", case, expected="finite state after mj_step (autoreset enabled)", observed=line, signature=sig, theorem="C30 oracle")
            elif injected_bad and where in (0, 1):
                kw = W_QPOS if where == 0 else W_QVEL
                if not (w[kw] == (1, nidx) and time == hsum):
                    sviol("impl_violation", case, expected="warning %d = (1,%d) and simulation restarted from reset (time=%r)" % (kw, nidx, hsum),
                                  observed="warning=%s time=%r" % (w[kw], time), signature=sig, theorem="C30 oracle")
            elif v != v and n > 0 and where in (2, 3) and not (raised and time < 1.0):
                sviol("impl_violation", case, expected="NaN applied force: BADQACC raised and data reset", observed=line, signature=sig, theorem="C30 oracle")
        else:
            if not fin and not raised:
                sviol("impl_violation", case, expected="finite state or bad-value warning raised", observed=line, signature=sig, theorem="C30 oracle")
            if injected_bad and where in (0, 1) and not w[W_QPOS if where == 0 else W_QVEL][0] >= 1:
                sviol("impl_violation", case, expected="warning raised for injected bad value", observed=line, signature=sig, theorem="C30 oracle")
    # ------------------------------------------------------------------ bad-control scan (mj_forward on multi-input models)
    coq_k = []
    kept_k = []
    nk_beyond = 0
    kbase = 2 + len(creq) + len(sreq)
    for k, (cs_, pn, pl, inj) in enumerate(kreq):
        line = lines[kbase + k]
        case = {"op": "mj_forward (bad-control scan)", "multi_input_ctrl_model_seed": cs_, "pre": [pn, pl], "inject": [[i, "%016x" % bits(v)] for i, v in inj],
                "base_controls": "0.1*(i+1)"}
        parts = line.split("|")
        if line.startswith("ERR") or len(parts) != 5 or "ERR" in parts[4]:
            ctx.broken.append(("correspondence", "driver reply unusable (mode K)", line[:200] + " for " + str(case)))
            continue
        nu_, nact_ = map(int, parts[0].split())
        lt = parts[1].split()
        lims = [(int(lt[3 * i]), unbits(int(lt[3 * i + 1], 16)), unbits(int(lt[3 * i + 2], 16))) for i in range(nu_)]
        ctrl = [unbits(int(x, 16)) for x in parts[2].split()]
        num, last = map(int, parts[3].split())
        zeroed = int(parts[4].split()[0])
        case["nu"], case["nactuator"] = nu_, nact_
        clamped = [(x if (not l or x != x) else min(max(x, lo), hi)) for x, (l, lo, hi) in zip(ctrl, lims)]
        first = next((i for i, x in enumerate(clamped) if py_bad(x)), None)
        sig = {"site": "mj_fwdActuation", "class": "bad-control scan"}
        if first is None:
            if (num, last) != (pn, pl):
                ctx.violation("impl_violation", case, expected="no bad control: BADCTRL unchanged %s" % ((pn, pl),), observed=(num, last), signature=sig, theorem="C30_badctrl")
        else:
            nk_beyond += first >= nact_
            if not (num == pn + 1 and last == first and zeroed):
                ctx.violation("impl_violation", case, expected="bad control at index %d (nu=%d, nactuator=%d): BADCTRL = (%d, %d) and all controls treated as 0" % (first, nu_, nact_, pn + 1, first),
                              observed={"BADCTRL": [num, last], "forces_equal_zero_control_reference": zeroed}, signature=sig, theorem="C30_badctrl")
            nontriv.add(("ctrl", cs_, first, bits(clamped[first])))
        coq_k.append("([%s], %s, %d, %d, (%s, %d, %s))" % ("; ".join("(%s, (%s)%%float, (%s)%%float)" % ("true" if l else "false", F.fhex(lo), F.fhex(hi)) for (l, lo, hi) in lims),
                                                         F.flist(ctrl), pn, pl, "true" if (num, last) != (pn, pl) else "false", num, ("(%d)" % last) if last < 0 else str(last)))
        kept_k.append((case, line))
    checker = ("fun c => match c with (lims, ctrl, n0, l0, (f, n1, l1)) => "
               "let cl := map (fun p => match p with ((l, lo, hi), x) => clip_ctrl l lo hi x end) (combine lims ctrl) in "
               "match check_ctrl_summary cl n0 l0 with (f', n', l') => Bool.eqb f f' && (n1 =? n')%Z && (l1 =? l')%Z end end")
    fails = ctx.coq_eval("c30_ctrl", "From Coq Require Import ZArith Bool PrimFloat List.\nFrom MJV Require Import Model.Checks.\nOpen Scope Z_scope.",
                         coq_k, checker, shard=300)
    for i in fails[:3]:
        ctx.violation("correspondence", kept_k[i][0], expected="Model/Checks.v check_ctrl_summary", observed=kept_k[i][1][-80:], found_input=False,
                      theorem="correspondence mj_fwdActuation bad-control scan")
    ncorr += len(fails)
    ctx.cov["support"]["badctrl_scan_cases"] = len(kreq)
    ctx.cov["support"]["badctrl_first_bad_index_beyond_nactuator"] = nk_beyond
    ctx.cov["support"]["step_cases_bad_ctrl_index_beyond_nactuator"] = nctrlstep
    ctx.cov["evaluations"] = len(pats) + len(creq) + len(sreq) + len(kreq)
    ctx.cov["distinct_nontrivial"] = len(nontriv) + nb_bad
    ctx.cov["rule"] = ("mju_isBad: fixed boundary bit patterns + random (uniform bits, +-2000 ulp around mjMAXVAL, log-uniform magnitudes 1e8..1e12, NaN payloads); "
                       "check functions: for each of %d generated models and each kind, a bad value at every index in turn with autoreset on/off, plus random multi-injections; "
                       "sleep models (mjENBL_SLEEP, trees initialised asleep in front of / behind awake ones, free bodies and slide+hinge+ball chains): same check-function injections with the loop order taken from dof_awake_ind, and mj_step with injections at awake dofs; mj_step: every integrator x injection site x autoreset; non-trivial = distinct (model, kind, autoreset, first bad index, value) with a bad value detected, plus bad bit patterns" % nmod)
    ctx.cov["samples"] = [creq_kept[0][0] if creq_kept else None, creq_kept[-1][0] if creq_kept else None,
                          {"op": "mju_isBad", "bits": "%016x" % pats[1]}]
    ctx.cov["correspondence_disagreements"] = ncorr
    ctx.cov["support"]["step_cases"] = len(sreq)
    ctx.cov["support"]["check_calls_with_active_sleep_filter"] = nsleepfilt
    ctx.cov["support"]["step_cases_with_sleeping_trees"] = nsleepstep
    ctx.cov["support"]["step_mju_error_with_autoreset_disabled"] = nerr_noreset
    ctx.cov["support"]["step_oracle_failures_by_class"] = byclass
    ctx.cov["support"]["step_oracle_first_case"] = firstcase
    ctx.cov["support"]["step_cases_with_bad_injection"] = nstep_bad
    ctx.cov["explanation"] = ("C30_isbad, C30_check, C30_checkacc, C30_finite proved for all inputs of the model; model tied to the working tree by exact comparison on "
                              "%d bit patterns and %d check-function calls; %d mj_step runs checked by the oracle" % (len(pats), len(creq), len(sreq)))
