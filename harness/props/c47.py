"""C47 — System-identification inertia parameters are always physical."""
import itertools, json, math, os
from fractions import Fraction
import framework as F

META = {
    "id": "C47", "category": "proof", "design_ref": "DESIGN.md section 4, C47",
    "technique": "Coq proof over R (ring/field identities, sums of squares) about a Gallina model written over the numeric class NumT + numeric correspondence of the same definitions run at binary64 inside Coq with the Python functions imported by path from the tree under test + compile of the resulting body through the tree's mjSpec C API",
    "text": ("Proved in Coq at the real numbers for EVERY theta in R^10 (Props/C47.v): the mass returned by pi_from_theta is e^{2 alpha} > 0 "
             "(C47_mass_positive); the pseudo-inertia J rebuilt by pseudoinertia_from_pi equals U U^T with U upper triangular with positive diagonal, is symmetric and "
             "x^T J x = |U^T x|^2 > 0 for every x <> 0 (C47_pseudoinertia_spd); the rotational inertia I = tr(Sigma) 1 - Sigma is symmetric, positive definite and satisfies the "
             "triangle inequalities in every direction (2 x^T I x < tr(I)|x|^2), for its diagonal entries and for every principal moment (every eigenvalue lam has 0 < lam and "
             "2 lam < tr I) (C47_inertia_pd_triangle); theta_from_pseudoinertia(pseudoinertia_from_pi(pi_from_theta theta)) = theta, with the 4x4 reversed Cholesky written out and "
             "the uniqueness of the positive-diagonal factor (C47_roundtrip, C47_factor_unique); the mass, ipos and fullinertia that apply_body_theta_inertia hands to the compiler have "
             "the same mass and first moment and a central inertia that is positive definite with the triangle inequalities (C47_body_physical) - i.e. the conditions the compiler "
             "tests hold exactly over R. Tied by correspondence (not proved): the Python functions agree with the model run at binary64 (tolerance 2^-30 scaled) on the thetas of the "
             "run: random and corner points of [-3,3]^10 for all four functions and the round trip, and points of [-20,20]^10 for pi_from_theta only. The clause 'compiles with the "
             "same mass properties' is observed, not proved: apply_body_theta_inertia runs on MjSpec containers of the installed wheel covering 9 spec variants (body with a massful geom / "
             "explicit inertial + massful geom / explicit inertial only) x (compiler inertiafromgeom false / true / auto); the state it leaves (compiler.inertiafromgeom, explicitinertial, mass, ipos, "
             "fullinertia, the geom) is rebuilt through the mjSpec C API and compiled by the tree's own compiler, and the compiled body_mass / body_ipos / body_iquat / body_inertia must reproduce pi "
             "(mass, h = m*ipos, I_bar); the same is checked with the wheel as external compiler, and theta_inertia_from_body on the resulting spec must read theta back. "
             "Not covered: IEEE rounding and exp overflow/underflow (for |theta_i| beyond a few tens the float results lose positive definiteness by cancellation and the compiler "
             "rejects central inertias with an eigenvalue below mjEPS = 1e-14: both are outside the theorems, and the compile clause is only exercised inside [-3,3]^10); "
             "numpy.linalg.cholesky is modelled by the textbook recurrence, not derived from LAPACK."),
    "note": ("Trusted: Coq kernel + std-lib real-number axioms (ClassicalDedekindReals.sig_forall_dec, sig_not_dec, functional_extensionality_dep, Classical_Prop.classic); hand-written model "
             "Model/LogCholesky.v; unverified float elementary functions Lib/FloatFn.v on the executable side only; correspondence harness (CPython, numpy of /venv); the installed mujoco "
             "wheel 3.13.0 is used only as `import mujoco` dependency and as MjSpec/MjsBody container for apply_body_theta_inertia (its values are overwritten); stand-in modules for the "
             "missing colorama/tabulate/yaml imports of parameter.py; gcc + driver c47_body.c for the compile step."),
    "assumptions": ["IEEE rounding is outside every theorem; tie is numeric agreement (2^-30 scaled) on the inputs of this run",
                    "compile clause observed on [-3,3]^10 only (compiler thresholds mjEPS/mjMINVAL are not modelled)"],
}

PY = "/venv/bin/python"
HERE = os.path.dirname(os.path.abspath(__file__))
DRV = os.path.join(os.path.dirname(HERE), "drivers")


def sylvester_pd(m):
    """exact (rational) positive-definiteness test of a symmetric float matrix given as list of rows."""
    n = len(m)
    a = [[Fraction(x) for x in row] for row in m]
    # Gaussian elimination without pivoting: all pivots > 0  <=>  all leading minors > 0
    for k in range(n):
        if a[k][k] <= 0:
            return False
        for i in range(k + 1, n):
            f = a[i][k] / a[k][k]
            for j in range(k, n):
                a[i][j] -= f * a[k][j]
    return True


def kappa_F(m):
    """Frobenius condition number |J|_F |J^-1|_F of a float matrix; the inverse is computed exactly (rationals)."""
    n = len(m)
    a = [[Fraction(x) for x in r] + [Fraction(int(i == j)) for j in range(n)] for i, r in enumerate(m)]
    for k in range(n):
        p = a[k][k]
        if p == 0:
            return math.inf
        a[k] = [x / p for x in a[k]]
        for i in range(n):
            if i != k:
                f = a[i][k]
                a[i] = [x - f * y for x, y in zip(a[i], a[k])]
    fro = lambda M: math.sqrt(float(sum(Fraction(x) * Fraction(x) for r in M for x in r)))
    return fro(m) * fro([r[n:] for r in a])


def quat2mat(q):
    w, x, y, z = q
    return [[w*w + x*x - y*y - z*z, 2*(x*y - w*z), 2*(x*z + w*y)],
            [2*(x*y + w*z), w*w - x*x + y*y - z*z, 2*(y*z - w*x)],
            [2*(x*z - w*y), 2*(y*z + w*x), w*w - x*x - y*y + z*z]]


def close(a, b, tol, scale=0.0):
    return abs(a - b) <= tol * (scale + abs(a) + abs(b)) or a == b


def gen_thetas(ctx):
    rng = ctx.rng
    quick = ctx.tier == "quick"
    th = []      # (theta, kind)   kind: "box" (everything checked) | "wide" (forward map only)
    th.append(([0.0] * 10, "box"))
    for i in range(10):
        for v in (-3.0, 3.0):
            t = [0.0] * 10; t[i] = v; th.append((t, "box"))
    # corners of the box (random subset; all sign patterns of the 4 exponents with extreme shears/translations)
    for sg in itertools.product((-3.0, 3.0), repeat=4):
        for rest in ((3.0,) * 6, (-3.0,) * 6, (0.0,) * 6):
            th.append((list(sg) + list(rest), "box"))
    for _ in range(40 if quick else 400):
        th.append(([rng.choice((-3.0, 3.0)) for _ in range(10)], "box"))
    for _ in range(300 if quick else 4000):
        th.append(([rng.uniform(-3, 3) for _ in range(10)], "box"))
    for _ in range(60 if quick else 600):
        th.append(([rng.uniform(-1e-3, 1e-3) for _ in range(10)], "box"))
    for _ in range(100 if quick else 1000):
        th.append(([rng.uniform(-20, 20) for _ in range(10)], "wide"))
    for i in range(10):
        for v in (-20.0, 20.0):
            t = [0.0] * 10; t[i] = v; th.append((t, "wide"))
    return th


def run(ctx):
    ctx.coq_props(allowed_axioms=F.STD_AXIOMS, extra_targets=["Lib/NumF.vo", "Model/LogCholesky.vo"])
    exe = ctx.driver("c47_body", ["c47_body.c"])
    thetas = gen_thetas(ctx)
    if ctx.replay and ctx.replay.get("case", {}).get("theta"):
        thetas = [(ctx.replay["case"]["theta"], ctx.replay["case"].get("kind", "box"))] + thetas[:5]
    import subprocess
    # compile clause: every box theta gets one of 9 spec variants (body with massful geom / inertial+geom / inertial
    # only) x (compiler inertiafromgeom false / true / auto), cycling so that the smallest cases cover all nine
    variants = [i % 9 for i in range(len(thetas))]
    if ctx.replay and ctx.replay.get("case", {}).get("theta"):
        variants[0] = int(ctx.replay["case"].get("variant", 0))
    r = subprocess.run([PY, os.path.join(DRV, "c47_sysid.py"), ctx.repo], input=json.dumps({"thetas": [t for t, _ in thetas], "variants": variants}),
                       capture_output=True, text=True, timeout=900)
    if r.returncode != 0:
        ctx.broken.append(("correspondence", "python driver c47_sysid.py failed", (r.stderr or r.stdout)[-1500:]))
        return
    res = json.loads(r.stdout)
    if not os.path.realpath(res["file"]).startswith(os.path.realpath(ctx.repo)):
        ctx.broken.append(("correspondence", "model_modifier.py was not loaded from the tree under test", res["file"]))
        return
    out = res["out"]
    sig = {"site": "model_modifier.log_cholesky"}
    nviol = 0

    cur = {"variant": 0, "spec": None}

    def viol(th, what, expected, observed, theorem, site=None):
        nonlocal nviol
        nviol += 1
        if nviol <= 6:
            ctx.violation("impl_violation", {"theta": th, "kind": "box", "what": what, "variant": cur["variant"], "spec": cur["spec"]}, expected=expected, observed=observed,
                          theorem=theorem, signature={"site": site or sig["site"], "class": what})

    # ---------------------------------------------------------------- oracle on implementation output
    body_lines, body_idx = [], []
    variant_count = {}
    nreadback_loose = [0]

    def same_mass_properties(pi, cm, cpos, cq, cin):
        R = quat2mat(cq)
        full = [[sum(R[i][k] * cin[k] * R[j][k] for k in range(3)) for j in range(3)] for i in range(3)]
        c2 = sum(x * x for x in cpos)
        Ib = [[full[i][j] + cm * ((c2 if i == j else 0.0) - cpos[i] * cpos[j]) for j in range(3)] for i in range(3)]
        sc = max(abs(x) for x in pi[4:13])
        return (close(cm, pi[0], 1e-12) and all(close(cm * cpos[i], pi[1 + i], 1e-9, abs(pi[0])) for i in range(3)) and
                all(abs(Ib[i][j] - pi[4 + 3 * i + j]) <= 1e-5 * sc for i in range(3) for j in range(3)))

    for idx, ((th, kind), rec) in enumerate(zip(thetas, out)):
        cur["variant"], cur["spec"] = variants[idx], rec.get("variant")
        if "pi" not in rec or len(rec["pi"]) != 13:
            viol(th, "pi_from_theta_failed", "13 values", rec.get("pi_err", rec.get("pi")), "C47_mass_positive")
            continue
        pi = rec["pi"]
        if not rec.get("theta_unchanged", True):
            viol(th, "theta_argument_modified", "unchanged", "modified", "C47_roundtrip")
        m = pi[0]
        if not (m > 0 and close(m, math.exp(2 * th[0]), 1e-12)):
            viol(th, "mass_not_exp_2alpha", math.exp(2 * th[0]), m, "C47_mass_positive")
        if kind != "box":
            continue
        I = [pi[4:7], pi[7:10], pi[10:13]]
        if not (I[0][1] == I[1][0] and I[0][2] == I[2][0] and I[1][2] == I[2][1]):
            viol(th, "inertia_not_symmetric", "symmetric", I, "C47_inertia_pd_triangle")
        elif not sylvester_pd(I):
            viol(th, "inertia_not_positive_definite", "positive definite", I, "C47_inertia_pd_triangle")
        else:
            tr = I[0][0] + I[1][1] + I[2][2]
            S = [[(0.5 * tr if i == j else 0.0) - I[i][j] for j in range(3)] for i in range(3)]
            if not sylvester_pd(S):
                viol(th, "triangle_inequality_violated", "tr(I)/2 - I positive definite", I, "C47_inertia_pd_triangle")
        if "J" not in rec:
            viol(th, "pseudoinertia_failed", "4x4 J", rec.get("back_err"), "C47_pseudoinertia_spd")
            continue
        J = [rec["J"][4 * i:4 * i + 4] for i in range(4)]
        if any(J[i][j] != J[j][i] for i in range(4) for j in range(i)):
            viol(th, "pseudoinertia_not_symmetric", "symmetric", J, "C47_pseudoinertia_spd")
        elif not sylvester_pd(J):
            viol(th, "pseudoinertia_not_positive_definite", "positive definite", J, "C47_pseudoinertia_spd")
        tb = rec.get("theta_back")
        # float round trip: the error of a backward-stable Cholesky is bounded by c * cond(J) * eps; measured
        # worst case over the box is 0.45 * kappa_F * eps, the tolerance leaves a factor ~70
        rec["tolb"] = tolb = 32 * kappa_F(J) * 2.220446049250313e-16 + 1e-13
        if tb is None or len(tb) != 10 or not all(abs(x - y) <= tolb * (1 + abs(y)) for x, y in zip(tb, th)):
            viol(th, "roundtrip_differs", th, tb if tb is not None else rec.get("back_err"), "C47_roundtrip")
        b = rec.get("body")
        if b is None:
            viol(th, "apply_body_theta_inertia_failed", "body values", rec.get("body_err"), "C47_body_physical")
            continue
        if not (b[0] == m and all(close(b[0] * b[1 + i], pi[1 + i], 1e-12, abs(m)) for i in range(3))):
            viol(th, "body_mass_or_com_differs", [m] + pi[1:4], b[:4], "C47_body_physical")
        body_lines.append("%d %d %d " % (rec["inertiafromgeom_after"], 1 if rec["explicitinertial"] else 0, 1 if rec["variant"]["has_geom"] else 0) +
                          " ".join(float(v).hex() for v in b))
        body_idx.append(idx)
        vkey = "%s/ifg=%s" % (rec["variant"]["body"], rec["variant"]["inertiafromgeom_xml"])
        variant_count[vkey] = variant_count.get(vkey, 0) + 1
        # same clause with the wheel as external compiler + read-back through theta_inertia_from_body
        wc = rec.get("wheel_compiled")
        if wc is None:
            viol(th, "body_does_not_compile", "spec compiles", rec.get("wheel_compile_err"), "C47_body_physical", site="apply_body_theta_inertia")
        else:
            if not same_mass_properties(pi, wc[0], wc[1:4], wc[4:8], wc[8:11]):
                viol(th, "compiled_mass_properties_differ", {"m": pi[0], "h": pi[1:4], "I_bar": pi[4:13], "spec": rec["variant"], "compiler": "wheel (external)"},
                     {"body_mass": wc[0], "body_ipos": wc[1:4], "body_iquat": wc[4:8], "body_inertia": wc[8:11]}, "C47_body_physical", site="apply_body_theta_inertia")
            tfb = rec.get("theta_from_body")
            # read back through the compiled model: limited by mjuu_eig3 (~1.4e-6 rad) times the conditioning of J
            tolfb = 1e-5 * kappa_F(J) ** 0.5 + 1e-6
            if tfb is None or not all(abs(x - y) <= tolfb * (1 + abs(y)) for x, y in zip(tfb, th)):
                nreadback_loose[0] += 1
                if tfb is None or not all(abs(x - y) <= 0.05 * (1 + abs(y)) for x, y in zip(tfb, th)):
                    viol(th, "theta_read_back_from_body_differs", th, tfb, "C47_roundtrip", site="apply_body_theta_inertia")

    # ---------------------------------------------------------------- compile through the tree's compiler
    ncompiled = 0
    if exe is not None and body_lines:
        rc, so, se = ctx.run(exe, "\n".join(body_lines) + "\n")
        lines = so.strip().split("\n")
        if rc != 0 or len(lines) != len(body_lines):
            ctx.broken.append(("correspondence", "driver c47_body failed", "rc=%s %s" % (rc, se[-500:])))
        else:
            for idx, line in zip(body_idx, lines):
                th = thetas[idx][0]; pi = out[idx]["pi"]
                cur["variant"], cur["spec"] = variants[idx], out[idx].get("variant")
                tok = line.split()
                if tok[0] != "ok":
                    viol(th, "body_does_not_compile", "spec compiles", line, "C47_body_physical", site="apply_body_theta_inertia")
                    continue
                ncompiled += 1
                v = [float.fromhex(t) for t in tok[1:]]
                cm, cpos, cq, cin = v[0], v[1:4], v[4:8], v[8:11]
                R = quat2mat(cq)
                full = [[sum(R[i][k] * cin[k] * R[j][k] for k in range(3)) for j in range(3)] for i in range(3)]
                # back to the body origin: I_bar = full - m skew(c)^2 = full + m (|c|^2 1 - c c^T)
                c2 = sum(x * x for x in cpos)
                Ib = [[full[i][j] + cm * ((c2 if i == j else 0.0) - cpos[i] * cpos[j]) for j in range(3)] for i in range(3)]
                sc = max(abs(x) for x in pi[4:13])
                ok = close(cm, pi[0], 1e-12) and all(close(cm * cpos[i], pi[1 + i], 1e-9, abs(pi[0])) for i in range(3)) and \
                    all(abs(Ib[i][j] - pi[4 + 3 * i + j]) <= 1e-5 * sc for i in range(3) for j in range(3))   # mjuu_eig3 stops at a rotation angle of ~1.4e-6 rad (kEigEPS)
                if not ok:
                    viol(th, "compiled_mass_properties_differ", {"m": pi[0], "h": pi[1:4], "I_bar": pi[4:13]},
                         {"body_mass": cm, "body_ipos": cpos, "body_iquat": cq, "body_inertia": cin, "I_bar_rebuilt": Ib},
                         "C47_body_physical", site="apply_body_theta_inertia")

    # ---------------------------------------------------------------- correspondence with the model at binary64
    cases, cidx = [], []
    for idx, ((th, kind), rec) in enumerate(zip(thetas, out)):
        if "pi" not in rec or len(rec["pi"]) != 13:
            continue
        full = kind == "box" and "J" in rec and rec.get("theta_back") is not None and rec.get("body") is not None
        cases.append("(%s, %s, %s, %s, %s, %s, %s)" % ("true" if full else "false", "(%s)%%float" % F.fhex(max(rec.get("tolb", 0.0), 2.0 ** -30)), F.flist(th), F.flist(rec["pi"]),
                                                    F.flist(rec["J"]) if full else "(@nil float)",
                                                    F.flist(rec["theta_back"]) if full else "(@nil float)",
                                                    F.flist(rec["body"]) if full else "(@nil float)"))
        cidx.append(idx)
    checker = ("fun c => match c with (full, tolb, th, pi, J, tb, bd) => "
               "andb (fclose_list tol (pi_from_theta_l (T:=float) th) pi) "
               "(if (full : bool) then andb (fclose_list tol (pseudo_from_pi_l (T:=float) pi) J) "
               "(andb (fclose_list tolb (theta_from_pi_l (T:=float) pi) tb) (fclose_list tol (body_from_pi_l (T:=float) pi) bd)) else true) end")
    fails = ctx.coq_eval("c47", "From Coq Require Import ZArith PrimFloat.\nFrom MJV Require Import Lib.Num Lib.NumF Model.LogCholesky.",
                         cases, checker, pre="Definition tol := 0x1p-30%float.")
    for i in fails[:5]:
        idx = cidx[i]
        ctx.violation("correspondence", {"theta": thetas[idx][0], "kind": thetas[idx][1]}, expected="model output (Model/LogCholesky.v at binary64, tol 2^-30 scaled)",
                      observed={k: out[idx].get(k) for k in ("pi", "J", "theta_back", "body")}, found_input=False,
                      theorem="correspondence c47", note="implementation and Coq model disagree on this input, but the implementation output satisfies the oracle")
    nbox = sum(1 for _, k in thetas if k == "box")
    ctx.cov["evaluations"] = len(thetas)
    ctx.cov["distinct_nontrivial"] = len({tuple(t) for t, k in thetas if k == "box" and sum(1 for x in t if x != 0.0) >= 5})
    ctx.cov["rule"] = ("theta = 0, +-3 on each axis, corners of [-3,3]^10 (all sign patterns of alpha,d1..d3 x three shear/translation patterns, random corners), uniform in [-3,3]^10, "
                       "uniform in [-1e-3,1e-3]^10 (all four functions + round trip + compile); uniform / axis points in [-20,20]^10 (pi_from_theta only); non-trivial = distinct box theta with >= 5 non-zero coordinates")
    ctx.cov["samples"] = [{"theta": thetas[i][0], "kind": thetas[i][1]} for i in (5, 80, len(thetas) - 30)]
    ctx.cov["correspondence_disagreements"] = len(fails)
    ctx.cov["support"]["compiled_bodies"] = ncompiled
    ctx.cov["support"]["compiled_bodies_by_spec_variant"] = variant_count
    ctx.cov["support"]["theta_read_back_outside_tight_tolerance"] = nreadback_loose[0]
    ctx.cov["support"]["oracle_violations"] = nviol
    ctx.cov["support"]["implementation_file"] = res["file"]
    ctx.cov["explanation"] = ("6 theorems over R for every theta; model tied to model_modifier.py by numeric agreement on %d thetas (%d with all functions, round trip and compile by the tree's compiler: %d compiled)"
                              % (len(thetas), nbox, ncompiled))
