"""C14 — collision pair selection is complete and respects the filters."""
import itertools, struct
import framework as F

META = {
    "id": "C14", "category": "proof", "design_ref": "DESIGN.md section 4, C14 and section 7 item 2",
    "technique": "Coq proofs about a hand-written model of the filters, add_pair, mj_SAP (sweep over the stable mjSORT of the float-cast "
                 "interval ends) and the body-pair part of mj_broadphase + exact correspondence runs against the static functions of "
                 "engine_collision_driver.c + brute-force all-pairs oracle on mj_collision output",
    "text": "Proved in Coq for all inputs (no bound on the number of boxes, any totally preordered coordinate type, any monotone rounding "
            "map standing for the C (float) cast): C14_filters (filterBitmask/filterBodyPair/canCollide2 equal the documented rule table, "
            "for all integers, bit-level reading of the masks, symmetric), C14_bodymask_complete (the body-level OR masks used by add_pair "
            "never reject a body pair containing a compatible geom pair), C14_sap_sound (every emitted pair has valid distinct ids and "
            "overlaps on all three axes, on the sweep axis in the rounded images), C14_sap_complete (every pair whose rounded images "
            "overlap on the sweep axis - non-strictly, hence every pair whose un-rounded intervals overlap, C14_sap_unrounded - and whose "
            "other-axis intervals overlap is emitted exactly once, in one orientation; so the emitted set is exactly the overlapping set), "
            "C14_sap_count (at most n(n-1)/2 pairs, so the buffer cut of mj_broadphase never truncates), C14_sap_order (emission order is "
            "determined by the sorted entry list: by position of the second box's start, then of the first's), C14_broadphase_complete "
            "(body pairs passing the filters whose boxes overlap, or with an always-colliding member, are in the broadphase output). "
            "History: before /repo cb66bd0cb SAPcmp had no tie-break and the pair (i, j), i < j, was dropped when (float)max_i == "
            "(float)min_j (completeness was refuted and replayed end to end: two boxes penetrating by 1e-8 gave 0 contacts); the model now "
            "has the repaired comparison and the tie scenes are kept as fixed corpus cases (0 contacts there is an impl_violation). "
            "Tied to the code by exact correspondence with filterBitmask, filterBodyPair, canCollide, canCollide2, add_pair, mj_SAP (integer "
            "and float-tie-laden boxes, all three axes, maxpair cuts) and mj_broadphase (on generated scenes). Only observed, not proved: "
            "mj_collideTree / mj_collideOBB mid-phase, bounding-sphere filter, the explicit-pair merge loop of mj_collision, makeAAMM "
            "(covered by the brute-force oracle: contact pair set == documented filters + narrow phase on every geom pair, under "
            "FILTERPARENT/MIDPHASE/CONTACT/CONSTRAINT disable flags and margin override; contact order repeatability; the oracle and the "
            "broadphase model inputs take weld groups, their parents and dof counts from body_parentid / body_jntnum / mocap, not from the "
            "implementation's body_weldid; dedicated chain scenes put jointless bodies on jointed links and on the world with geoms "
            "overlapping the weld group one joint up, parent filter on and off; margin scenes place multi-geom bodies with large margins / gaps "
            "at surface distances around the sum of the margins - separated but within margin, and just outside - with explicit inertial "
            "frames; a fixed sweep corpus does the same with two-sphere bodies; static / mocap bodies with planes are declared before or "
            "after the moving bodies, so that a plane is the first or the second geom of its pairs; an mju_error raised by mj_collision on a "
            "compiled scene is an impl_violation - that is how the 'broadphase buffer full' defect repaired in /repo 3ff575b68 was found, "
            "its scene is kept as corpus). Not covered: flex, "
            "mesh/hfield/SDF geoms, sleeping (mjENBL_SLEEP), NaN coordinates, IEEE rounding beyond the monotone-map abstraction.",
    "note": "Trusted: Coq kernel; hand-written model Model/Broadphase.v (arrays as lists, float cast as an abstract monotone map, "
            "C ints as Z); correspondence harness (gcc, driver c14_bp.c which #includes engine_collision_driver.c; Python float32 rounding "
            "via struct). Theorems are closed under the global context.",
    "assumptions": ["coordinates are not NaN (SAPcmp is then a total preorder)", "body/geom ids < 65536 (signature packing)",
                    "tie is differential testing on the cases of this run"],
}

DSBL = {"CONSTRAINT": 1 << 0, "CONTACT": 1 << 4, "FILTERPARENT": 1 << 10, "MIDPHASE": 1 << 14}
ENBL_OVERRIDE = 1


# ---------------------------------------------------------------- number encodings
def f32(x):
    return struct.unpack("<f", struct.pack("<f", x))[0]


def dkey(x):
    """order-preserving integer code of a double (equal for +0/-0)."""
    b = struct.unpack("<q", struct.pack("<d", x))[0]
    return b if b >= 0 else -(b & 0x7FFFFFFFFFFFFFFF)


def zc(v):
    return "(%d)" % v if v < 0 else "%d" % v


def kpair(x):
    return "(%s,%s)" % (zc(dkey(x)), zc(dkey(f32(x))))


def box_lit(lo, hi):
    return "((%s,%s,%s),(%s,%s,%s))" % tuple(kpair(v) for v in list(lo) + list(hi))


def sap_lit(axis, mp, bs, ret, prs):
    return "(%s, %s, [%s], %s, %s)" % (zc(axis), zc(mp), "; ".join(box_lit(lo, hi) for lo, hi in bs), zc(ret), pairs_lit(prs))


def pairs_lit(ps):
    return "[" + "; ".join("(%d,%d)" % p for p in ps) + "]%Z"


KC = "(fun a b : Z * Z => zcmp3 (fst a) (fst b))"
RN = "(fun a : Z * Z => (snd a, snd a))"
DBOX = "(((0,0),(0,0),(0,0)),((0,0),(0,0),(0,0)))"
IMPORTS = "From Coq Require Import ZArith Bool.\nFrom MJV Require Import Lib.Eqb Model.Sort Model.Broadphase.\nOpen Scope Z_scope."


# ---------------------------------------------------------------- independent oracles
def ov(lo1, hi1, lo2, hi2, strict=False):
    return (lo1 < hi2 and lo2 < hi1) if strict else (lo1 <= hi2 and lo2 <= hi1)


def sap_oracle(boxes, axis, out):
    """returns (ok, msg): emitted pairs must be distinct unordered pairs and (for well-formed sweep intervals) exactly the pairs that
    overlap in the float images on the sweep axis and un-rounded on the other two (all non-strictly)."""
    n = len(boxes)
    ay, az = (1, 2) if axis == 0 else ((0, 2) if axis == 1 else (0, 1))
    seen = set()
    for (a, b) in out:
        if not (0 <= a < n and 0 <= b < n) or a == b:
            return False, "bad ids %s" % ((a, b),)
        k = frozenset((a, b))
        if k in seen:
            return False, "pair %s emitted twice" % ((a, b),)
        seen.add(k)
    for a in range(n):
        for b in range(a + 1, n):
            (la, ha), (lb, hb) = boxes[a], boxes[b]
            yz = ov(la[ay], ha[ay], lb[ay], hb[ay]) and ov(la[az], ha[az], lb[az], hb[az])
            rw = ov(f32(la[axis]), f32(ha[axis]), f32(lb[axis]), f32(hb[axis]))
            wf = la[axis] <= ha[axis] and lb[axis] <= hb[axis]
            k = frozenset((a, b))
            if k in seen and not (yz and (rw or not wf)):
                return False, "pair %s emitted without overlap" % ((a, b),)
            if wf and yz and rw and k not in seen:
                return False, "pair %s overlaps on all axes but is missing" % ((a, b),)
    return True, ""


def parse_scene(lines):
    sc = {"G": [], "B": [], "P": [], "X": [], "ok": False}
    for ln in lines:
        t = ln.split()
        if not t:
            continue
        if t[0] == "SCENE":
            sc["ok"] = t[1] == "ok"
            sc["head"] = t
        elif t[0] == "G":
            sc["G"].append(dict(body=int(t[2]), type=int(t[3]), ct=int(t[4]), ca=int(t[5]),
                                margin=float.fromhex(t[6]), gap=float.fromhex(t[7])))
        elif t[0] == "B":
            v = list(map(int, t[1:]))
            sc["B"].append(dict(weld_impl=v[1], pweld_impl=v[2], dof_impl=v[3], mocap=v[4], geomnum=v[5], geomadr=v[6], bvh=v[7], ct=v[8], ca=v[9],
                                parent=v[10], jntnum=v[11], dof_own=v[12]))
        elif t[0] == "P":
            sc["P"].append(dict(g1=int(t[2]), g2=int(t[3]), sig=int(t[4])))
        elif t[0] == "X":
            sc["X"].append(int(t[2]))
        elif t[0] == "C":
            sc["C"] = [tuple(map(int, p.split(":"))) for p in t[2:]]
        elif t[0] == "D":
            sc["D"] = (int(t[1]), int(t[2]))
        elif t[0] == "N":
            sc["N"] = {(int(a), int(b)): int(c) for a, b, c, w in (p.split(":") for p in t[1:])}
            sc["Nwithin"] = {(int(a), int(b)): int(w) for a, b, c, w in (p.split(":") for p in t[1:])}
        elif t[0] == "NP":
            sc["NP"] = {int(a): int(b) for a, b, w in (p.split(":") for p in t[1:])}
            sc["NPwithin"] = {int(a): int(w) for a, b, w in (p.split(":") for p in t[1:])}
        elif t[0] == "A":
            nc = int(t[1])
            sc["bfid"] = list(map(int, t[2:2 + nc])) if len(t) > 2 else []
            sc["aamm"] = [float.fromhex(x) for x in t[2 + nc:]] if len(t) > 2 else []
            sc["nc"] = nc if len(t) > 2 else 0
        elif t[0] == "S":
            sc["S"] = (int(t[1]), [tuple(map(int, p.split(":"))) for p in t[2:]])
        elif t[0] == "BF":
            sc["BF"] = list(map(int, t[2:]))
    weld_groups(sc["B"])
    return sc


def weld_groups(B):
    """weld group, weld group of the group's parent and dof count of the group, computed from body_parentid / body_jntnum / mocap only
    (not from the implementation's body_weldid): a body with a joint or a mocap body starts a group, a jointless body joins its parent's"""
    for b, r in enumerate(B):
        r["weld"] = b if (b == 0 or r["jntnum"] > 0 or r["mocap"]) else B[r["parent"]]["weld"]
    for r in B:
        r["pweld"] = B[B[r["weld"]]["parent"]]["weld"]
        r["dof"] = B[r["weld"]]["dof_own"]


def sig(b1, b2):
    return (min(b1, b2) << 16) + max(b1, b2)


def expected_pairs(sc, dsbl, override=False):
    """documented selection rules + narrow phase, brute force over all geom pairs.  Returns (allowed, info, required):
    allowed = pairs that pass the filters and for which the narrow phase reports a contact (nothing else may appear);
    required = those of them whose geoms are within margin + gap also by mj_geomDistance (GJK for box-box / convex pairs): the SAT
    based box-box collider can report a contact for boxes that are farther apart than the margin, and pruning such a pair is right.
    Under mjENBL_OVERRIDE only pairs within the (overridden) margin itself are required: the broad phase then inflates the boxes by
    o_margin / 2 without the geom gaps, so pairs in the gap zone (inactive contacts, dist >= margin) may or may not appear; the
    property speaks of geoms "within margin"."""
    if dsbl & (DSBL["CONTACT"] | DSBL["CONSTRAINT"]):
        return set(), {}, set()
    G, B = sc["G"], sc["B"]
    exp = {}
    required = set()
    explicit = {frozenset((p["g1"], p["g2"])) for p in sc["P"]}
    for k, p in enumerate(sc["P"]):
        if sc["NP"].get(k, 0) > 0:
            exp[frozenset((p["g1"], p["g2"]))] = ("explicit", sc["NP"][k])
            if sc["NPwithin"].get(k, 0) >= 1:      # explicit pairs are not pruned by the broad phase: margin + gap is required
                required.add(frozenset((p["g1"], p["g2"])))
    excl = set(sc["X"])
    for (g1, g2), n in sc["N"].items():
        if n <= 0:
            continue
        key = frozenset((g1, g2))
        if key in explicit:
            continue
        b1, b2 = G[g1]["body"], G[g2]["body"]
        w1, w2 = B[b1]["weld"], B[b2]["weld"]
        if w1 == w2:
            continue                                   # same (welded) body
        if B[b1]["dof"] == 0 and B[b2]["dof"] == 0:
            continue                                   # both static / mocap
        if not (dsbl & DSBL["FILTERPARENT"]) and w1 != 0 and w2 != 0 and (w1 == B[b2]["pweld"] or w2 == B[b1]["pweld"]):
            continue                                   # parent-child
        if sig(b1, b2) in excl:
            continue
        if not ((G[g1]["ct"] & G[g2]["ca"]) or (G[g2]["ct"] & G[g1]["ca"])):
            continue
        exp[key] = ("dynamic", n)
        w = sc["Nwithin"].get((g1, g2), 0)
        if w == 2 or (w == 1 and not override):
            required.add(key)
    return set(exp), exp, required


def reject_reason(sc, dsbl, g1, g2):
    """which documented rule rejects the (dynamic) geom pair"""
    G, B = sc["G"], sc["B"]
    b1, b2 = G[g1]["body"], G[g2]["body"]
    w1, w2 = B[b1]["weld"], B[b2]["weld"]
    info = {"geoms": (g1, g2), "bodies": (b1, b2), "weld_groups": (w1, w2), "weld_parents": (B[b1]["pweld"], B[b2]["pweld"])}
    if w1 == w2:
        info["rule"] = "same weld group"
    elif B[b1]["dof"] == 0 and B[b2]["dof"] == 0:
        info["rule"] = "both without degrees of freedom"
    elif not (dsbl & DSBL["FILTERPARENT"]) and w1 != 0 and w2 != 0 and (w1 == B[b2]["pweld"] or w2 == B[b1]["pweld"]):
        info["rule"] = "parent-child of weld groups (mjDSBL_FILTERPARENT not set)"
    elif sig(b1, b2) in set(sc["X"]):
        info["rule"] = "exclude element"
    elif not ((G[g1]["ct"] & G[g2]["ca"]) or (G[g2]["ct"] & G[g1]["ca"])):
        info["rule"] = "contype/conaffinity incompatible"
    else:
        info["rule"] = "narrow phase reports no contact / explicit pair"
    return info


def run(ctx):
    import time
    rng = ctx.rng
    quick = ctx.tier == "quick"
    tm = {}
    t0 = time.time()
    ctx.coq_props(allowed_axioms=(), extra_targets=["Lib/Eqb.vo", "Model/Sort.vo", "Model/Broadphase.vo"])
    tm["coq_props"] = round(time.time() - t0, 1); t0 = time.time()
    exe = ctx.driver("c14_bp", ["c14_bp.c"])
    if exe is None:
        return
    tm["build"] = round(time.time() - t0, 1); t0 = time.time()
    cmds = []      # (kind, payload, stdin text)
    # ---- filters, exhaustive on small values + random 32-bit masks
    for c1, a1, c2, a2 in itertools.product(range(4), repeat=4):
        cmds.append(("FBM", (c1, a1, c2, a2)))
    for _ in range(100 if quick else 3000):
        v = tuple(rng.choice([0, 1, 2, 4, 1 << 30, -1, -(1 << 31), rng.randrange(-(1 << 31), 1 << 31),
                              1 << rng.randrange(31)]) for _ in range(4))
        cmds.append(("FBM", v))
        cmds.append(("CC2", v))
        cmds.append(("CC", v[:2]))
    FBP_DOM = [range(3), range(3), (0, 1), (0, 1), range(3), range(3), (0, 1), (0, 2), (0, 1)]
    for t in itertools.product(*FBP_DOM):          # exhaustive: evaluated inside Coq over the same enumeration
        cmds.append(("FBPX", t))
    for _ in range(100 if quick else 2000):
        cmds.append(("FBP", tuple(rng.choice([0, 0, 1, 2, 3, 7]) for _ in range(9))))
    # ---- add_pair
    for _ in range(60 if quick else 1500):
        nb = rng.randrange(2, 6)
        bodies = [[(rng.choice([0, 1, 2, 3, 4, 6]), rng.choice([0, 1, 2, 3, 5])) for _ in range(rng.randrange(0, 4))] for _ in range(nb)]
        k = rng.randrange(1, 7)
        calls = [(rng.randrange(nb), rng.randrange(nb)) for _ in range(k)]
        cmds.append(("ADD", (rng.randrange(2), rng.choice([0, 1, 2, 3, 10]), bodies, calls)))
    # ---- mj_SAP
    def mkboxes(n, mode):
        bs = []
        for _ in range(n):
            lo, hi = [], []
            for ax in range(3):
                if mode == "int":
                    a, b = rng.randrange(0, 6), rng.randrange(0, 6)
                elif mode == "tie":      # doubles that collide after the float cast
                    def v():
                        base = rng.choice([0.0, 1.0, 2.0, 3.0, 1000.0])
                        return base + rng.randrange(-3, 4) * (2.0 ** -30 if base < 100 else 2.0 ** -18)
                    a, b = v(), v()
                else:
                    a, b = rng.uniform(-1, 1), rng.uniform(-1, 1)
                if a > b and rng.random() < 0.9:
                    a, b = b, a
                lo.append(float(a)); hi.append(float(b))
            bs.append((tuple(lo), tuple(hi)))
        return bs
    sapcases = []
    ivs = [(a, b) for a in range(3) for b in range(a, 3)]
    for n in (2, 3):
        for combo in itertools.product(ivs, repeat=n):
            bs = [((float(a), 0.0, 0.0), (float(b), 1.0, 1.0)) for a, b in combo]
            sapcases.append((0, n * (n - 1) // 2 if n > 1 else 1, bs))
    nexh = len(sapcases)
    for _ in range(90 if quick else 3000):
        n = rng.randrange(0, 9 if quick else 14)
        mode = rng.choice(["int", "int", "tie", "tie", "real"])
        axis = rng.choice([0, 0, 1, 2, 0, 1, 2, 3, -1]) if rng.random() < 0.15 else rng.randrange(3)
        mp = max(1, n * (n - 1) // 2)
        if rng.random() < 0.2:
            mp = rng.choice([0, 1, 2, 3, mp + 5])
        sapcases.append((axis, mp, mkboxes(n, mode)))
    for _ in range(2 if quick else 30):
        n = rng.randrange(30, 70)
        sapcases.append((rng.randrange(3), n * (n - 1) // 2, mkboxes(n, rng.choice(["int", "tie"]))))
    # float-tie corpus case with real doubles: [0,1] and [1-2^-30, 2], both declaration orders
    wit_a = ((0.0, 0.0, 0.0), (1.0, 1.0, 1.0))
    wit_b = ((1.0 - 2.0 ** -30, 0.0, 0.0), (2.0, 1.0, 1.0))
    iw = len(sapcases)
    sapcases.append((0, 1, [wit_a, wit_b]))
    sapcases.append((0, 1, [wit_b, wit_a]))
    for c in sapcases:
        cmds.append(("SAP", c))
    # ---- scenes
    variants = [(0, 0, 0.0), (DSBL["FILTERPARENT"], 0, 0.0), (DSBL["MIDPHASE"], 0, 0.0),
                (DSBL["FILTERPARENT"] | DSBL["MIDPHASE"], 0, 0.0), (DSBL["CONTACT"], 0, 0.0), (DSBL["CONSTRAINT"], 0, 0.0),
                (0, ENBL_OVERRIDE, 0.04), (DSBL["MIDPHASE"], ENBL_OVERRIDE, 0.0)]
    nsc = 14 if quick else 400
    for i in range(nsc):
        seed = rng.randrange(1, 1 << 40)
        nb = rng.choice([2, 3, 4, 6, 8, 10, 14]) if quick else rng.choice([2, 3, 4, 6, 8, 10, 14, 20, 30])
        vs = [variants[0]] + rng.sample(variants[1:], 2)
        for (ds, en, om) in vs:
            cmds.append(("SCENE", (seed, nb, ds, en, om)))
    # margin scenes (nb < 0): multi-geom bodies with large margins / gaps placed at surface distances around the sum of the margins
    # (separated but within margin, and just outside), explicit inertial frames; mid-phase on and off
    for i in range(70 if quick else 800):
        seed = rng.randrange(1, 1 << 40)
        nbm = -rng.choice([2, 3, 4, 6, 8])
        for (ds, en, om) in (variants[0],) + ((variants[2],) if i % 2 == 0 else ()) + ((variants[6],) if i % 5 == 0 else ()):
            cmds.append(("SCENE", (seed, nbm, ds, en, om)))
    # sweep scenes (nb <= -100): fixed corpus of two-sphere bodies at surface distances between the larger margin and the sum of the margins
    for k in range(8):
        for (ds, en, om) in (variants[0], variants[2]):
            cmds.append(("SCENE", (1, -100 - k, ds, en, om)))
    # fixed corpus scene (nb = -200): plane bodies declared after the moving bodies, exact-fit pair buffer (former "broadphase buffer full")
    for (ds, en, om) in (variants[0], variants[2]):
        cmds.append(("SCENE", (1, -200, ds, en, om)))
    # chain scenes (nb = 0): jointless tool bodies welded to jointed links / to the world, geoms overlapping the weld group one joint up;
    # parent filter on and off
    for i in range(12 if quick else 300):
        seed = rng.randrange(1, 1 << 40)
        for (ds, en, om) in (variants[0], variants[1]) + ((variants[2],) if i % 3 == 0 else ()):
            cmds.append(("SCENE", (seed, 0, ds, en, om)))
    # ---- end-to-end float-tie replays (design probe): x0, penetration, declaration order
    ties = [(0.0, 1e-8, 0), (0.0, 1e-8, 1), (1000.0, 1e-5, 0), (1000.0, 1e-5, 1), (0.0, 1e-3, 0), (0.0, 1e-3, 1)]
    for t in ties:
        cmds.append(("TIE", t))

    def text(c):
        k, p = c
        if k in ("FBM", "FBP", "CC", "CC2", "FBPX"):
            return ("FBP" if k == "FBPX" else k) + " " + " ".join(map(str, p))
        if k == "ADD":
            usem, mp, bodies, calls = p
            s = "ADD %d %d %d" % (usem, mp, len(bodies))
            for b in bodies:
                s += " %d" % len(b) + "".join(" %d %d" % g for g in b)
            s += " %d" % len(calls) + "".join(" %d %d" % c2 for c2 in calls)
            return s
        if k == "SAP":
            axis, mp, bs = p
            n = len(bs)
            cols = [bs[i][0][ax] for ax in range(3) for i in range(n)] + [bs[i][1][ax] for ax in range(3) for i in range(n)]
            return "SAP %d %d %d " % (n, axis, mp) + " ".join(float(x).hex() for x in cols)
        if k == "SCENE":
            return "SCENE %d %d %d %d %r" % p
        if k == "TIE":
            return "TIE %r %r %d" % p
    rc, out, err = ctx.run(exe, "\n".join(text(c) for c in cmds) + "\n", timeout=1500)
    lines = out.split("\n")
    tm["driver"] = round(time.time() - t0, 1); t0 = time.time()
    if rc != 0:
        ctx.broken.append(("correspondence", "driver c14_bp failed", "rc=%s %s" % (rc, err[-800:])))
        return
    # split output per command
    pos = 0
    outs = []
    for c in cmds:
        if c[0] == "SCENE":
            j = pos
            while j < len(lines) and lines[j].strip() != "END":
                j += 1
            outs.append(lines[pos:j]); pos = j + 1
        else:
            outs.append(lines[pos] if pos < len(lines) else ""); pos += 1
    flt_cases, add_cases, sap_cases, bp_cases = [], [], [], []
    fbpx_res = []
    flt_src, add_src, sap_src, bp_src = [], [], [], []
    nscene_pairs = 0
    nmargin_seen = 0
    noptional = 0
    nscene_nontriv = 0
    samples = []
    for ci, (c, o) in enumerate(zip(cmds, outs)):
        k, p = c
        if k in ("FBM", "FBP", "CC", "CC2", "FBPX"):
            try:
                r = int(o)
            except ValueError:
                ctx.broken.append(("correspondence", "driver output unparsable", "%s -> %r" % (text(c), o))); return
            # independent rule-table oracle on the implementation output
            if k == "FBM" or k == "CC2":
                c1, a1, c2, a2 = p
                compat = bool((c1 & a2) or (c2 & a1))
                exp = (0 if compat else 1) if k == "FBM" else (1 if compat else 0)
            elif k == "CC":
                exp = 1 if (p[0] or p[1]) else 0
            else:
                w1, p1, s1, d1, w2, p2, s2, d2, ds = p
                exp = 1 if (w1 == w2 or (d1 == 0 and d2 == 0) or (s1 and s2) or (s1 and w2 == 0) or (s2 and w1 == 0)
                            or (not ds and w1 != 0 and w2 != 0 and (w1 == p2 or w2 == p1))) else 0
            if r != exp:
                ctx.violation("impl_violation", {"op": k, "args": list(p)}, expected=exp, observed=r, theorem="C14_filters",
                              signature={"site": {"FBM": "filterBitmask", "FBP": "filterBodyPair", "FBPX": "filterBodyPair", "CC": "canCollide",
                                                  "CC2": "canCollide2"}[k]})
            if k == "FBPX":
                fbpx_res.append(r)
                continue
            opn = {"FBM": 0, "FBP": 1, "CC": 2, "CC2": 3}[k]
            flt_cases.append("(%d, %s, %d)" % (opn, F.zlist(list(p)), r))
            flt_src.append(ci)
        elif k == "ADD":
            usem, mp, bodies, calls = p
            t = o.split()
            if len(t) < 2:
                ctx.broken.append(("correspondence", "driver output unparsable", "%s -> %r" % (text(c), o))); return
            res = list(map(int, t[2:]))
            # oracle: pairs written = signatures of the calls that pass the OR-mask test, until the buffer is full
            exp, e_err = [], False
            for (b1, b2) in calls:
                if len(exp) >= mp:
                    e_err = True; break
                o1t = o1a = o2t = o2a = 0
                for g in bodies[b1]:
                    o1t |= g[0]; o1a |= g[1]
                for g in bodies[b2]:
                    o2t |= g[0]; o2a |= g[1]
                if usem and not ((o1t & o2a) or (o2t & o1a)):
                    continue
                exp.append(sig(b1, b2))
            if res != exp or (t[0] == "E") != e_err:
                ctx.violation("impl_violation", {"op": "add_pair", "usem": usem, "maxpair": mp, "bodies": bodies, "calls": calls},
                              expected=[e_err, exp], observed=o, theorem="C14_bodymask_complete", signature={"site": "add_pair"})
            blit = "[" + "; ".join("[" + "; ".join("(%d,%d)" % g for g in b) + "]" for b in bodies) + "]"
            add_cases.append("(%s, %d, %s, %s, %s, %s)" % ("true" if usem else "false", mp, blit, pairs_lit(calls),
                                                          "true" if t[0] == "E" else "false", F.zlist(res)))
            add_src.append(ci)
        elif k == "SAP":
            axis, mp, bs = p
            t = o.split()
            ret = int(t[0])
            prs = [tuple(map(int, x.split(":"))) for x in t[1:]]
            n = len(bs)
            if 0 <= axis <= 2 and mp >= 1 and (ret < mp or mp >= n * (n - 1) // 2):
                ok, msg = sap_oracle(bs, axis, prs)
                if not ok:
                    ctx.violation("impl_violation", {"op": "mj_SAP", "axis": axis, "maxpair": mp, "boxes": bs}, expected=msg, observed=prs,
                                  theorem="C14_sap_sound/C14_sap_complete", signature={"site": "mj_SAP", "class": "wrong_pair_set"})
            sap_cases.append(sap_lit(axis, mp, bs, ret, prs))
            sap_src.append(ci)
        elif k == "SCENE":
            seed, nb, ds, en, om = p
            sc = parse_scene(o)
            # margin scenes are many and cheap for the oracle; only the first ones also go through the Coq model (cost)
            if -100 < nb < 0:
                nmargin_seen += 1
            model_tie = nb >= 0 or nmargin_seen <= (20 if quick else 300)
            case = {"op": "scene" if nb > 0 else "chain scene (jointless bodies welded to links / world)" if nb == 0 else
                    "margin scene (geoms separated but within margin)" if nb > -100 else
                    "sweep scene %d (two-sphere bodies, surface distance between max and sum of the margins)" % (-nb - 100) if nb > -200 else
                    "corpus scene: world box, 3 overlapping free spheres, static + mocap plane bodies declared last", "seed": seed, "nbody": nb,
                    "disableflags": ds, "enableflags": en, "o_margin": om}
            if not sc["ok"] or "BF" not in sc:
                head = " | ".join(o)[:400]
                if head.startswith("SCENE error"):
                    # the model compiled and mj_collision raised mju_error: no contact list at all for a legal model
                    ctx.violation("impl_violation", dict(case, driver_input=text(c)), expected="mj_collision returns a contact list",
                                  observed=head, theorem="oracle: brute-force all pairs",
                                  signature={"site": "mj_broadphase" if "broadphase buffer full" in head else "mj_collision",
                                             "class": "buffer_full_error" if "broadphase buffer full" in head else "engine_error"})
                else:
                    ctx.broken.append(("correspondence", "scene did not run", "%s -> %s" % (text(c), head)))
                continue
            obs = [frozenset(pr) for pr in sc["C"]]
            obs_set = set(obs)
            exp_set, exp, req_set = expected_pairs(sc, ds, bool(en & ENBL_OVERRIDE))
            noptional += len(exp_set - req_set)
            nscene_pairs += len(exp_set)
            if len(exp_set) >= 3 and (sc["P"] or sc["X"]) and any(b["geomnum"] > 1 for b in sc["B"]):
                nscene_nontriv += 1
            if len(samples) < 3 and len(exp_set) >= 3:
                samples.append(dict(case, ngeom=len(sc["G"]), contact_pairs=len(exp_set)))
            missing = sorted(tuple(sorted(x)) for x in req_set - obs_set)
            extra = sorted(tuple(sorted(x)) for x in obs_set - exp_set)
            if missing:
                cls = "pair_dropped"
                ctx.violation("impl_violation", dict(case, missing=missing[:5], why=[exp[frozenset(m)] for m in missing[:5]]),
                              expected="contact for every filtered geom pair for which the narrow phase reports a contact", observed=sc["C"][:40],
                              theorem="oracle: brute-force all pairs", signature={"site": "mj_collision", "class": cls,
                                                                                   "override": bool(en & ENBL_OVERRIDE)})
            if extra:
                ctx.violation("impl_violation", dict(case, unexpected=extra[:5], rejected_by=[reject_reason(sc, ds, a, b) for a, b in extra[:3]]),
                              expected="no contact for pairs rejected by the documented filters",
                              observed=sc["C"][:40], theorem="oracle: brute-force all pairs",
                              signature={"site": "mj_collision", "class": "pair_unexpected"})
            # per-pair contact counts, contiguity, type order
            runs = [kk for kk, _ in itertools.groupby(obs)]
            if len(runs) != len(set(runs)) and not (missing or extra):
                ctx.violation("impl_violation", dict(case), expected="contacts of one geom pair are contiguous", observed=sc["C"][:60],
                              theorem="oracle: contact list structure", signature={"site": "mj_collision", "class": "pair_split"})
            for pr in sc["C"]:
                if sc["G"][pr[0]]["type"] > sc["G"][pr[1]]["type"]:
                    ctx.violation("impl_violation", dict(case, pair=pr), expected="geom[0] has the smaller geom type", observed=pr,
                                  theorem="oracle: contact list structure", signature={"site": "mj_collision", "class": "type_order"})
                    break
            if not (missing or extra):
                for kk in exp_set & obs_set:
                    if obs.count(kk) != exp[kk][1] and not any(frozenset((q["g1"], q["g2"])) == kk for q in sc["P"]):
                        ctx.violation("impl_violation", dict(case, pair=sorted(kk)), expected="%d contacts" % exp[kk][1], observed=obs.count(kk),
                                      theorem="oracle: brute-force all pairs", signature={"site": "mj_collision", "class": "contact_count"})
                        break
            if sc["D"] != (1, 1):
                ctx.violation("impl_violation", dict(case), expected="identical contact list on a second mjData and on a repeated mj_collision",
                              observed=sc["D"], theorem="C14_sap_order", signature={"site": "mj_collision", "class": "nondeterministic_order"})
            # SAP on the real AAMMs + broadphase: oracle + correspondence
            nc = sc["nc"]
            boxes = []
            if nc > 1:
                a = sc["aamm"]
                boxes = [((a[0 * nc + i], a[1 * nc + i], a[2 * nc + i]), (a[3 * nc + i], a[4 * nc + i], a[5 * nc + i])) for i in range(nc)]
                ok, msg = sap_oracle(boxes, 0, sc["S"][1])
                if not ok:
                    ctx.violation("impl_violation", dict(case, boxes=boxes), expected=msg, observed=sc["S"][1], theorem="C14_sap_complete",
                                  signature={"site": "mj_SAP", "class": "wrong_pair_set"})
                if model_tie:
                    sap_cases.append(sap_lit(0, nc * (nc - 1) // 2, boxes, sc["S"][0], sc["S"][1]))
                    sap_src.append(ci)
            if model_tie:
                blits = []
                for bi, b in enumerate(sc["B"]):
                    gs = [(g["ct"], g["ca"]) for g in sc["G"] if g["body"] == bi]
                    plane = any(g["type"] == 0 for g in sc["G"] if g["body"] == bi)
                    blits.append("mkBody %d %d %d 0 %s [%s] %d %d" % (b["weld"], b["pweld"], b["dof"], "true" if plane else "false",
                                                                       "; ".join("(%s,%s)" % (zc(x), zc(y)) for x, y in gs), b["ct"], b["ca"]))
                bp_cases.append("([%s], %d, [%s], %s)" % ("; ".join(blits), 1 if ds & DSBL["FILTERPARENT"] else 0,
                                                          "; ".join(box_lit(lo, hi) for lo, hi in boxes), F.zlist(sc["BF"])))
                bp_src.append(ci)
        elif k == "TIE":
            x0, pen, order = p
            t = o.split()
            if len(t) < 8 or t[0] != "TIE" or t[1] != "ncon":
                ctx.broken.append(("correspondence", "tie replay did not run", o[:300])); continue
            ncon, nar, sapn = int(t[2]), int(t[4]), int(t[8])
            dist = float.fromhex(t[6])
            if nar > 0 and ncon == 0:
                ctx.violation("impl_violation",
                              {"op": "two free unit boxes along x through mj_forward", "x_left": x0, "penetration": pen,
                               "declaration_order": "left body first" if order == 0 else "right body first",
                               "narrow_phase_contacts": nar, "geom_distance": dist, "mj_SAP_pairs": sapn},
                              expected="%d contacts (narrow phase on the pair; the same scene with the bodies declared in the other order gives them)" % nar,
                              observed="0 contacts: the body pair is dropped by the broad phase ((float)x_max(left) == (float)x_min(right): SAPcmp must "
                                       "sort interval starts before ends on ties)",
                              theorem="C14_sap_complete", signature={"site": "mj_SAP", "class": "float_tie_drops_overlapping_pair"})
    # the SAP-level float-tie corpus case (former witness of the refuted completeness): both orders must report the pair
    sap_idx = [i for i, c in enumerate(cmds) if c[0] == "SAP"]
    o_w, o_w2 = outs[sap_idx[iw]], outs[sap_idx[iw + 1]]
    if o_w.split()[:1] != ["1"] or o_w2.split()[:1] != ["1"]:
        ctx.violation("impl_violation",
                      {"op": "mj_SAP", "axis": 0, "boxes": [wit_a, wit_b], "note": "x intervals [0,1] and [1-2^-30,2] overlap by 2^-30; y,z = [0,1]"},
                      expected="pair (0,1) in both declaration orders", observed={"order a,b": o_w, "order b,a": o_w2},
                      theorem="C14_sap_complete", signature={"site": "mj_SAP", "class": "float_tie_drops_overlapping_pair"})
    # ---- model evaluation
    chk_flt = ("fun c => match c with (op, a, r) => "
               "let g := fun i => nth i a 0 in "
               "let b := if op =? 0 then filterBitmask (g 0%nat) (g 1%nat) (g 2%nat) (g 3%nat) "
               "else if op =? 1 then filterBodyPair (g 0%nat) (g 1%nat) (g 2%nat) (g 3%nat) (g 4%nat) (g 5%nat) (g 6%nat) (g 7%nat) (g 8%nat) "
               "else if op =? 2 then canCollide (g 0%nat) (g 1%nat) else canCollide2 (g 0%nat) (g 1%nat) (g 2%nat) (g 3%nat) in "
               "Bool.eqb b (negb (r =? 0)) end")
    chk_add = ("fun c => match c with (usem, mp, bodies, calls, err, res) => "
               "let lastok := fold_left (fun (s : (list Z) * bool) (p : Z * Z) => if snd s then s else "
               "  match add_pair usem bodies mp (fst s) (fst p) (snd p) with Some l' => (l', false) | None => (fst s, true) end) calls ([], false) in "
               "Bool.eqb (snd lastok) err && zlist_eqb (fst lastok) res end")
    chk_sap = ("fun c => match c with (axis, mp, bs, ret, out) => "
               "let r := mj_SAP (Z * Z) %s %s axis bs %s mp in "
               "(fst r =? ret) && zzlist_eqb (map (fun p => (Z.of_nat (fst p), Z.of_nat (snd p))) (snd r)) out end" % (KC, RN, DBOX))
    chk_bp = ("fun c => match c with (bodies, dsbl, boxes, out) => "
              "zlist_eqb (broadphase (Z * Z) %s %s bodies dsbl boxes %s) out end" % (KC, RN, DBOX))
    tm["oracles"] = round(time.time() - t0, 1); t0 = time.time()
    nfail = 0
    doms = ["[%s]%%Z" % "; ".join(map(str, dset)) for dset in FBP_DOM]
    names = ["w1", "p1", "s1", "d1", "w2", "p2", "s2", "d2", "ds"]
    body = "[if filterBodyPair %s then 1 else 0]" % " ".join(names)
    for nm, dl in reversed(list(zip(names, doms))):
        body = "flat_map (fun %s => %s) %s" % (nm, body, dl)
    jobs = [("c14_flt", flt_cases, flt_src, chk_flt), ("c14_add", add_cases, add_src, chk_add),
            ("c14_sap", sap_cases, sap_src, chk_sap), ("c14_bp", bp_cases, bp_src, chk_bp),
            ("c14_fbpx", [F.zlist(fbpx_res)], None, "fun res => zlist_eqb (%s) res" % body)]
    from concurrent.futures import ThreadPoolExecutor
    import os, shutil
    sfx = "_p%d" % os.getpid()      # private evaluation directories: concurrent runs of this check do not clear each other's files
    with ThreadPoolExecutor(max_workers=len(jobs)) as ex:
        results = list(ex.map(lambda j: ctx.coq_eval(j[0] + sfx, IMPORTS, j[1], j[3], shard={"c14_sap": 120 if quick else 150, "c14_bp": 30}.get(j[0], 1000)), jobs))
    tm["coq_eval"] = round(time.time() - t0, 1)
    if not ctx.broken:
        for j in jobs:
            shutil.rmtree(os.path.join(ctx.scratch, "eval_" + j[0] + sfx), ignore_errors=True)
    for (name, cases, src, chk), fails in zip(jobs, results):
        nfail += len(fails)
        if name == "c14_fbpx":
            if fails:
                ctx.violation("correspondence", {"op": "filterBodyPair", "domain": "exhaustive weld/parent ids 0..2, asleep 0/1, dofnum 0/1|2, dsbl 0/1"},
                              expected="model output (Model/Broadphase.v)", observed="some of the %d results differ" % len(fbpx_res), found_input=False,
                              theorem="correspondence c14_fbpx", note="implementation and Coq model disagree, but the implementation output satisfies the oracle")
            continue
        for i in fails[:3]:
            c = cmds[src[i]]
            ctx.violation("correspondence", {"op": c[0], "args": c[1] if c[0] != "SAP" else {"axis": c[1][0], "maxpair": c[1][1], "boxes": c[1][2]}},
                          expected="model output (Model/Broadphase.v)", observed=outs[src[i]] if isinstance(outs[src[i]], str) else outs[src[i]][-3:],
                          found_input=False, theorem="correspondence " + name,
                          note="implementation and Coq model disagree on this input, but the implementation output satisfies the oracle")
    ctx.cov["support"]["timing_s"] = tm
    ctx.cov["evaluations"] = len(cmds)
    ctx.cov["distinct_nontrivial"] = nscene_nontriv + sum(1 for c in sapcases if len(c[2]) >= 3)
    ctx.cov["rule"] = ("filters: all masks in 0..3 and random 32-bit masks, all filterBodyPair inputs over weld/parent ids 0..2; add_pair random; "
                       "mj_SAP: all interval sets over {0,1,2} for n = 2,3, random integer / float-tie / real boxes on the three axes with buffer cuts; "
                       "scenes: random multi-geom bodies, planes, static and mocap bodies, explicit pairs, excludes under disable-flag variants. "
                       "non-trivial = SAP case with >= 3 boxes, or scene with >= 3 contact pairs, a multi-geom body and an explicit pair or exclude")
    ctx.cov["samples"] = samples + [{"op": "mj_SAP", "axis": sapcases[nexh][0], "boxes": sapcases[nexh][2][:4]}]
    ctx.cov["exhaustive_part"] = "mj_SAP: all %d sets of 2 or 3 intervals with ends in {0,1,2}" % nexh
    ctx.cov["correspondence_disagreements"] = nfail
    ctx.cov["support"]["scene_contact_pairs_checked"] = nscene_pairs
    ctx.cov["support"]["pairs_with_narrowphase_contact_but_beyond_margin_by_geomDistance"] = noptional
    ctx.cov["explanation"] = ("filters, add_pair, mj_SAP and mj_broadphase compared exactly with the Coq model on %d + %d + %d + %d cases; "
                              "%d scenes compared with the brute-force oracle" % (len(flt_cases), len(add_cases), len(sap_cases), len(bp_cases),
                                                                                  sum(1 for c in cmds if c[0] == "SCENE")))
